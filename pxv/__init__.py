"""pxv -- repository-specific static checkers for pylatexenc (stdlib only).

Nothing in here imports or executes the analysed repository: every check parses
the working tree under VERIF_REPO (default /repo) with `ast` on every run.
"""
