# -*- coding: utf-8 -*-
"""CLI:  python -m pxv check <ID> [--tier quick|thorough]
         python -m pxv selftest [<ID> ...]
         python -m pxv all
"""
import argparse
import importlib
import os
import sys
import time
import traceback

from . import core


def run_check(prop, tier):
    t0 = time.time()
    try:
        repo = core.Repo()
        ctx = core.Ctx(prop, repo, tier)
        mod = importlib.import_module('pxv.rules.' + prop.lower())
        res = mod.run(ctx)
        level, explanation = res[0], res[1]
        extra = dict(res[2]) if len(res) > 2 and res[2] else {}
        if tier == 'thorough' and not os.environ.get('PXV_NO_SELFTEST'):
            # checker validation: seeded variants of the anchored constructs must be
            # reported, benign ones must stay silent.  Informational for the verdict
            # on /repo (a variant that no longer applies is skipped).
            from . import selftest
            st = selftest.run_collect([prop])
            extra['selftest'] = {
                'variants': len(st),
                'detected': sum(1 for r in st if r[1] == 'detected'),
                'skipped': sum(1 for r in st if r[1] == 'skipped'),
                'missed': [list(r) for r in st if r[1] in ('missed', 'error')],
                'results': [list(r) for r in st],
            }
            for r in st:
                if r[1] in ('missed', 'error'):
                    sys.stdout.write('SELFTEST-MISS property=%s variant=%s %s\n'
                                     % (prop, r[0], r[2]))
        rc = core.finish(ctx, level, explanation, t0, extra_cov=extra)
    except core.AnalysisError as e:
        sys.stdout.write('ANALYSIS-ERROR property=%s %s\n' % (prop, e))
        return 2
    except Exception:
        sys.stdout.write('ANALYSIS-ERROR property=%s checker raised:\n%s\n'
                         % (prop, traceback.format_exc()))
        return 2
    return rc


def main(argv=None):
    ap = argparse.ArgumentParser(prog='pxv')
    sub = ap.add_subparsers(dest='cmd')
    c = sub.add_parser('check')
    c.add_argument('prop')
    c.add_argument('--tier', default=os.environ.get('VERIF_TIER', 'quick'),
                   choices=['quick', 'thorough'])
    s = sub.add_parser('selftest')
    s.add_argument('props', nargs='*')
    s.add_argument('-v', action='store_true')
    sub.add_parser('all')
    a = ap.parse_args(argv)
    if a.cmd == 'check':
        return run_check(a.prop.upper(), a.tier)
    if a.cmd == 'selftest':
        from . import selftest
        return selftest.run([p.upper() for p in a.props], quiet=not a.v)
    if a.cmd == 'all':
        rc = 0
        for i in range(1, 21):
            p = 'C%02d' % i
            if os.path.exists(os.path.join(os.path.dirname(__file__), 'rules', p.lower() + '.py')):
                rc = max(rc, run_check(p, 'quick'))
        return rc
    ap.print_help()
    return 2


if __name__ == '__main__':
    try:
        rc = main()
        sys.stdout.flush()
    except BrokenPipeError:
        rc = 0
        try:
            sys.stdout.close()
        except Exception:
            pass
    sys.exit(rc)
