# -*- coding: utf-8 -*-
"""E4: affine normaliser for integer-valued source expressions.

An expression is normalised to (const, {atom_text: coeff}).  Atoms are names,
attribute chains, calls and `len(<expr>)` terms that cannot be reduced further.
`env` maps local names to their defining expression (single assignment inlining).
"""
import ast
from .core import unparse


class NotAffine(Exception):
    pass


def norm(e, env=None, depth=0):
    env = env or {}
    if depth > 12:
        raise NotAffine('inlining too deep')
    if isinstance(e, ast.Constant):
        if isinstance(e.value, bool) or not isinstance(e.value, int):
            raise NotAffine('non-integer constant')
        return e.value, {}
    if isinstance(e, ast.Name):
        if e.id in env and env[e.id] is not None:
            try:
                return norm(env[e.id], {k: v for k, v in env.items() if k != e.id}, depth + 1)
            except NotAffine:
                pass
        return 0, {e.id: 1}
    if isinstance(e, ast.Attribute):
        return 0, {unparse(e): 1}
    if isinstance(e, ast.UnaryOp) and isinstance(e.op, ast.USub):
        c, t = norm(e.operand, env, depth + 1)
        return -c, {k: -v for k, v in t.items()}
    if isinstance(e, ast.BinOp) and isinstance(e.op, (ast.Add, ast.Sub)):
        c1, t1 = norm(e.left, env, depth + 1)
        c2, t2 = norm(e.right, env, depth + 1)
        sgn = 1 if isinstance(e.op, ast.Add) else -1
        out = dict(t1)
        for k, v in t2.items():
            out[k] = out.get(k, 0) + sgn * v
        return c1 + sgn * c2, {k: v for k, v in out.items() if v != 0}
    if isinstance(e, ast.Call) and isinstance(e.func, ast.Name) and e.func.id == 'len' and \
            len(e.args) == 1:
        return norm_len(e.args[0], env, depth + 1)
    if isinstance(e, (ast.Call, ast.Subscript)):
        return 0, {unparse(e): 1}
    raise NotAffine('expression kind %s' % type(e).__name__)


def norm_len(x, env, depth=0):
    if isinstance(x, ast.Constant) and isinstance(x.value, str):
        return len(x.value), {}
    if isinstance(x, ast.BinOp) and isinstance(x.op, ast.Add):
        c1, t1 = norm_len(x.left, env, depth + 1)
        c2, t2 = norm_len(x.right, env, depth + 1)
        out = dict(t1)
        for k, v in t2.items():
            out[k] = out.get(k, 0) + v
        return c1 + c2, out
    if isinstance(x, ast.Name) and x.id in env and env[x.id] is not None and depth < 8:
        d = env[x.id]
        if isinstance(d, (ast.Constant, ast.BinOp, ast.Subscript)):
            try:
                return norm_len(d, {k: v for k, v in env.items() if k != x.id}, depth + 1)
            except NotAffine:
                pass
    if isinstance(x, ast.Subscript) and isinstance(x.slice, ast.Slice) and x.slice.step is None:
        lo, hi = x.slice.lower, x.slice.upper
        if hi is not None:
            ch, th = norm(hi, env, depth + 1)
            if lo is None:
                cl, tl = 0, {}
            else:
                cl, tl = norm(lo, env, depth + 1)
            out = dict(th)
            for k, v in tl.items():
                out[k] = out.get(k, 0) - v
            return ch - cl, {k: v for k, v in out.items() if v != 0}
        if lo is not None:
            cl, tl = norm(lo, env, depth + 1)
            out = {'len(%s)' % unparse(x.value): 1}
            for k, v in tl.items():
                out[k] = out.get(k, 0) - v
            return -cl, {k: v for k, v in out.items() if v != 0}
    return 0, {'len(%s)' % unparse(x): 1}


def diff(a, b, env=None):
    """normal form of a - b"""
    c1, t1 = norm(a, env)
    c2, t2 = norm(b, env)
    out = dict(t1)
    for k, v in t2.items():
        out[k] = out.get(k, 0) - v
    return c1 - c2, {k: v for k, v in out.items() if v != 0}


def show(nf):
    c, t = nf
    parts = []
    for k in sorted(t):
        v = t[k]
        parts.append(('%s' % k) if v == 1 else ('-%s' % k if v == -1 else '%d*%s' % (v, k)))
    if c or not parts:
        parts.append(str(c))
    return ' + '.join(parts).replace('+ -', '- ')


def single_assign_env(fn, before=None):
    """name -> defining expression for local names assigned exactly once (simple Name
    target) in fn (optionally only assignments before line `before`)."""
    from .core import iter_own
    cnt, val = {}, {}
    for s in iter_own(fn):
        if isinstance(s, ast.Assign):
            for t in s.targets:
                if isinstance(t, ast.Name):
                    cnt[t.id] = cnt.get(t.id, 0) + 1
                    val[t.id] = s.value
                elif isinstance(t, (ast.Tuple, ast.List)):
                    for e in t.elts:
                        if isinstance(e, ast.Name):
                            cnt[e.id] = cnt.get(e.id, 0) + 2
        elif isinstance(s, ast.AugAssign) and isinstance(s.target, ast.Name):
            cnt[s.target.id] = cnt.get(s.target.id, 0) + 2
        elif isinstance(s, (ast.For,)):
            for e in ast.walk(s.target):
                if isinstance(e, ast.Name):
                    cnt[e.id] = cnt.get(e.id, 0) + 2
    return {k: v for k, v in val.items() if cnt.get(k) == 1}


def reaching_env(fn, node):
    """Like single_assign_env, but for names assigned several times use the last
    assignment that precedes `node` in a block enclosing `node` (a definition that
    dominates the use), provided no other assignment to the name lies in between."""
    from .core import iter_own, parents
    env = single_assign_env(fn)
    anc = set(id(p) for p in parents(node))
    anc.add(id(fn))
    cands = {}
    alld = {}
    for s in iter_own(fn):
        if isinstance(s, ast.Assign) and len(s.targets) == 1 and isinstance(s.targets[0], ast.Name):
            nm = s.targets[0].id
            alld.setdefault(nm, []).append(s)
            if s.lineno < node.lineno and id(getattr(s, '_parent', None)) in anc:
                cands.setdefault(nm, []).append(s)
    for nm, lst in cands.items():
        if nm in env:
            continue
        last = max(lst, key=lambda s: s.lineno)
        between = [s for s in alld[nm] if last.lineno < s.lineno < node.lineno]
        if not between:
            env[nm] = last.value
    return env
