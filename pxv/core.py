# -*- coding: utf-8 -*-
"""E0: source index, obligation bookkeeping, verdicts, evidence, exit codes."""

import ast
import hashlib
import json
import os
import sys
import time

HOLDS, REFUTED, UNKNOWN = 'HOLDS', 'REFUTED', 'UNKNOWN'

VERIF_DIR = os.path.dirname(os.path.dirname(os.path.abspath(__file__)))


def repo_root():
    return os.environ.get('VERIF_REPO', '/repo')


class AnalysisError(Exception):
    """An anchor vanished, a floor was not met or the checker cannot model the
    code: exit 2, never a VIOLATION and never a silent pass."""


# --------------------------------------------------------------------------
# AST helpers


def unparse(node):
    if node is None:
        return 'None'
    if isinstance(node, list):
        return '; '.join(unparse(n) for n in node)
    try:
        return ast.unparse(node)
    except Exception:  # pragma: no cover
        return ast.dump(node)


def short(node, n=160):
    s = ' '.join(unparse(node).split())
    return s if len(s) <= n else s[:n - 3] + '...'


def is_version_test(test):
    """Return True/False if `test` is a statically decidable
    sys.version_info.major comparison (we analyse for Python 3), else None."""
    if not isinstance(test, ast.Compare) or len(test.ops) != 1:
        return None
    left, op, right = test.left, test.ops[0], test.comparators[0]
    txt = unparse(left)
    if txt not in ('sys.version_info.major', 'sys.version_info[0]'):
        return None
    if not isinstance(right, ast.Constant) or not isinstance(right.value, int):
        return None
    v = right.value
    major = 3
    if isinstance(op, ast.Eq):
        return major == v
    if isinstance(op, ast.NotEq):
        return major != v
    if isinstance(op, ast.Gt):
        return major > v
    if isinstance(op, ast.GtE):
        return major >= v
    if isinstance(op, ast.Lt):
        return major < v
    if isinstance(op, ast.LtE):
        return major <= v
    return None


class _PruneVersion(ast.NodeTransformer):
    def visit_If(self, node):
        self.generic_visit(node)
        v = is_version_test(node.test)
        if v is True:
            return node.body or [ast.Pass()]
        if v is False:
            return node.orelse or None
        return node


def iter_own(node):
    """Walk `node`'s subtree without entering nested function/class/lambda
    definitions (the node itself may be a FunctionDef: its body is walked)."""
    stack = list(ast.iter_child_nodes(node))
    while stack:
        n = stack.pop()
        yield n
        if isinstance(n, (ast.FunctionDef, ast.AsyncFunctionDef, ast.ClassDef, ast.Lambda)):
            continue
        stack.extend(ast.iter_child_nodes(n))


def iter_all(node):
    return ast.walk(node)


def call_name(call):
    """Last component of the callee name of a Call: f(...) -> 'f', a.b.f(...) -> 'f'."""
    f = call.func
    if isinstance(f, ast.Name):
        return f.id
    if isinstance(f, ast.Attribute):
        return f.attr
    return None


def call_recv(call):
    f = call.func
    if isinstance(f, ast.Attribute):
        return f.value
    return None


def kwarg(call, name):
    for k in call.keywords:
        if k.arg == name:
            return k.value
    return None


def has_starkw(call):
    return any(k.arg is None for k in call.keywords)


def calls_named(node, name, own=True):
    it = iter_own(node) if own else ast.walk(node)
    return [n for n in it if isinstance(n, ast.Call) and call_name(n) == name]


def is_self_attr(node, attr=None, selfname='self'):
    return (isinstance(node, ast.Attribute) and isinstance(node.value, ast.Name)
            and node.value.id == selfname and (attr is None or node.attr == attr))


def const_value(node):
    if isinstance(node, ast.Constant):
        return node.value
    raise ValueError('not a constant: ' + short(node))


def const_members(mod, expr):
    """the constants of a membership container: a tuple/list/set display, set()/frozenset()/tuple()
    of one, or a module-level name bound (once) to one of these; None when it is something else"""
    for _ in range(3):
        if isinstance(expr, ast.Name) and mod is not None:
            try:
                expr = mod.toplevel_assign(expr.id)
            except AnalysisError:
                return None
            continue
        if isinstance(expr, ast.Call) and isinstance(expr.func, ast.Name) and expr.func.id in (
                'set', 'frozenset', 'tuple', 'list') and len(expr.args) == 1 and not expr.keywords:
            expr = expr.args[0]
            continue
        break
    if isinstance(expr, (ast.Tuple, ast.List, ast.Set)) and all(isinstance(e, ast.Constant) for e in expr.elts):
        return [e.value for e in expr.elts]
    return None


def names_in(node):
    return {n.id for n in ast.walk(node) if isinstance(n, ast.Name)}


def attr_chain(node):
    """a.b.c -> 'a.b.c' ; returns None if not a pure Name/Attribute chain."""
    parts = []
    while isinstance(node, ast.Attribute):
        parts.append(node.attr)
        node = node.value
    if isinstance(node, ast.Name):
        parts.append(node.id)
        return '.'.join(reversed(parts))
    return None


def set_parents(tree):
    for n in ast.walk(tree):
        for c in ast.iter_child_nodes(n):
            c._parent = n
    tree._parent = None


def parents(node):
    p = getattr(node, '_parent', None)
    while p is not None:
        yield p
        p = getattr(p, '_parent', None)


def enclosing_stmt(node):
    n = node
    while n is not None and not isinstance(n, ast.stmt):
        n = getattr(n, '_parent', None)
    return n


def enclosing_func(node):
    for p in parents(node):
        if isinstance(p, (ast.FunctionDef, ast.AsyncFunctionDef, ast.Lambda)):
            return p
    return None


def always_exits(stmts):
    """True if the statement list always leaves the enclosing block by
    return/raise/continue/break on every path (syntactic)."""
    if not stmts:
        return False
    last = stmts[-1]
    if isinstance(last, (ast.Return, ast.Raise, ast.Continue, ast.Break)):
        return True
    if isinstance(last, ast.If):
        return always_exits(last.body) and always_exits(last.orelse)
    if isinstance(last, ast.Try):
        ok = always_exits(last.body) or (last.orelse and always_exits(last.orelse))
        if last.finalbody and always_exits(last.finalbody):
            return True
        return bool(ok) and all(always_exits(h.body) for h in last.handlers)
    if isinstance(last, ast.With):
        return always_exits(last.body)
    return False


def guard_facts(node):
    """Syntactic path facts known to hold when `node` executes, as a list of
    (test_expr, polarity).  Sources: enclosing if/elif/while branches, and
    earlier sibling `if T: <always exits>` statements (-> not T).  The caller is
    responsible for checking that the names involved are not re-bound in
    between (see `rebound_between`)."""
    facts = []
    child = node
    for p in parents(node):
        if isinstance(p, (ast.FunctionDef, ast.AsyncFunctionDef, ast.Lambda, ast.ClassDef)):
            # facts from earlier siblings in the function body
            _sibling_facts(p, child, facts)
            break
        if isinstance(p, ast.If):
            if _in_list(child, p.body):
                facts.append((p.test, True))
            elif _in_list(child, p.orelse):
                facts.append((p.test, False))
        elif isinstance(p, ast.While):
            if _in_list(child, p.body):
                facts.append((p.test, True))
        elif isinstance(p, ast.IfExp):
            if child is p.body:
                facts.append((p.test, True))
            elif child is p.orelse:
                facts.append((p.test, False))
        elif isinstance(p, ast.BoolOp) and isinstance(p.op, ast.And):
            idx = [i for i, v in enumerate(p.values) if v is child]
            if idx:
                for v in p.values[:idx[0]]:
                    facts.append((v, True))
        elif isinstance(p, ast.BoolOp) and isinstance(p.op, ast.Or):
            idx = [i for i, v in enumerate(p.values) if v is child]
            if idx:
                for v in p.values[:idx[0]]:
                    facts.append((v, False))
        _sibling_facts(p, child, facts)
        child = p
    return facts


def _in_list(child, lst):
    return any(child is s for s in lst)


def _sibling_facts(parent, child, facts):
    for fld in ('body', 'orelse', 'finalbody'):
        lst = getattr(parent, fld, None)
        if not isinstance(lst, list) or not _in_list(child, lst):
            continue
        for s in lst:
            if s is child:
                break
            if isinstance(s, ast.If) and always_exits(s.body) and not s.orelse:
                facts.append((s.test, False))
            elif isinstance(s, ast.If) and s.orelse and always_exits(s.orelse) \
                    and not always_exits(s.body):
                facts.append((s.test, True))
            elif isinstance(s, ast.Assert):
                facts.append((s.test, True))


def split_conj(test, pol):
    """Decompose (test, polarity) into atomic facts that definitely hold."""
    out = []
    if isinstance(test, ast.UnaryOp) and isinstance(test.op, ast.Not):
        return split_conj(test.operand, not pol)
    if isinstance(test, ast.BoolOp):
        if isinstance(test.op, ast.And) and pol:
            for v in test.values:
                out.extend(split_conj(v, True))
            return out
        if isinstance(test.op, ast.Or) and not pol:
            for v in test.values:
                out.extend(split_conj(v, False))
            return out
    return [(test, pol)]


def atomic_facts(node):
    out = []
    for t, p in guard_facts(node):
        out.extend(split_conj(t, p))
    return out


# --------------------------------------------------------------------------
# Source index


class Module(object):
    def __init__(self, name, path, relpath, src):
        self.name = name
        self.path = path
        self.relpath = relpath
        self.src = src
        raw = ast.parse(src, filename=path)
        self.raw_tree = raw
        tree = _PruneVersion().visit(ast.parse(src, filename=path))
        ast.fix_missing_locations(tree)
        set_parents(tree)
        self.tree = tree
        self.classes = {}    # qualname -> ClassDef
        self.functions = {}  # qualname -> FunctionDef
        self._index(tree, '')

    def _index(self, node, prefix):
        for ch in ast.iter_child_nodes(node):
            if isinstance(ch, ast.ClassDef):
                q = prefix + ch.name
                self.classes[q] = ch
                ch._qualname = q
                ch._module = self
                self._index(ch, q + '.')
            elif isinstance(ch, (ast.FunctionDef, ast.AsyncFunctionDef)):
                q = prefix + ch.name
                # last definition wins (matches run-time rebinding)
                self.functions[q] = ch
                ch._qualname = q
                ch._module = self
                self._index(ch, q + '.<locals>.')
            elif isinstance(ch, (ast.If, ast.Try, ast.With, ast.For, ast.While)):
                self._index(ch, prefix)
            elif isinstance(ch, ast.ExceptHandler):
                self._index(ch, prefix)

    def func(self, qualname):
        f = self.functions.get(qualname)
        if f is None:
            raise AnalysisError('anchor vanished: function %s in %s' % (qualname, self.relpath))
        return f

    def cls(self, qualname):
        c = self.classes.get(qualname)
        if c is None:
            raise AnalysisError('anchor vanished: class %s in %s' % (qualname, self.relpath))
        return c

    def has_func(self, qualname):
        return qualname in self.functions

    def methods(self, clsname):
        c = self.cls(clsname)
        return {n.name: n for n in c.body if isinstance(n, (ast.FunctionDef, ast.AsyncFunctionDef))}

    def toplevel_assign(self, name):
        """Value expression of the last module-level assignment `name = ...`."""
        val = None
        for st in _flat_toplevel(self.tree):
            if isinstance(st, ast.Assign):
                for t in st.targets:
                    if isinstance(t, ast.Name) and t.id == name:
                        val = st.value
        if val is None:
            raise AnalysisError('anchor vanished: module-level %s in %s' % (name, self.relpath))
        return val


def _flat_toplevel(tree):
    for st in tree.body:
        yield st
        if isinstance(st, (ast.If, ast.Try)):
            for sub in ast.walk(st):
                if isinstance(sub, ast.stmt) and sub is not st and \
                        not isinstance(getattr(sub, '_parent', None),
                                       (ast.FunctionDef, ast.ClassDef)):
                    if enclosing_func(sub) is None and not any(
                            isinstance(p, ast.ClassDef) for p in parents(sub)):
                        yield sub


class Repo(object):
    MIN_MODULES = 45

    def __init__(self, root=None):
        self.root = root or repo_root()
        self.pkg = os.path.join(self.root, 'pylatexenc')
        if not os.path.isdir(self.pkg):
            raise AnalysisError('no pylatexenc package under %s' % self.root)
        self.modules = {}
        self.digest = hashlib.sha256()
        for dirpath, dirnames, filenames in sorted(os.walk(self.pkg)):
            dirnames.sort()
            if '__pycache__' in dirpath:
                continue
            for fn in sorted(filenames):
                if not fn.endswith('.py'):
                    continue
                path = os.path.join(dirpath, fn)
                rel = os.path.relpath(path, self.root)
                with open(path, encoding='utf-8') as f:
                    src = f.read()
                self.digest.update(rel.encode())
                self.digest.update(src.encode('utf-8'))
                modname = rel[:-3].replace(os.sep, '.')
                if modname.endswith('.__init__'):
                    modname = modname[:-len('.__init__')]
                try:
                    self.modules[modname] = Module(modname, path, rel, src)
                except SyntaxError as e:
                    raise AnalysisError('cannot parse %s: %s' % (rel, e))
        if len(self.modules) < self.MIN_MODULES:
            raise AnalysisError('only %d modules indexed (floor %d)'
                                % (len(self.modules), self.MIN_MODULES))
        self._class_index = None

    def mod(self, name):
        m = self.modules.get(name)
        if m is None:
            raise AnalysisError('anchor vanished: module %s' % name)
        return m

    # -- class hierarchy (by simple name; the package has no clashing class
    #    names that matter -- clashes are kept as lists)
    def class_index(self):
        if self._class_index is None:
            idx = {}
            for m in self.modules.values():
                for q, c in m.classes.items():
                    idx.setdefault(c.name, []).append(c)
            self._class_index = idx
        return self._class_index

    def find_class(self, simple_name):
        lst = self.class_index().get(simple_name, [])
        return lst[0] if lst else None

    def bases_of(self, cls):
        out = []
        for b in cls.bases:
            nm = b.id if isinstance(b, ast.Name) else (b.attr if isinstance(b, ast.Attribute) else None)
            if nm:
                out.append(nm)
        return out

    def mro_names(self, simple_name, _seen=None):
        """Approximate linearisation: the class, then its bases depth-first."""
        seen = _seen if _seen is not None else []
        if simple_name in seen:
            return seen
        seen.append(simple_name)
        c = self.find_class(simple_name)
        if c is not None:
            for b in self.bases_of(c):
                self.mro_names(b, seen)
        return seen

    def is_subclass(self, simple_name, base):
        return base in self.mro_names(simple_name)

    def subclasses(self, base):
        return sorted(n for n in self.class_index() if self.is_subclass(n, base))

    def lookup_method(self, simple_name, meth):
        for cn in self.mro_names(simple_name):
            c = self.find_class(cn)
            if c is None:
                continue
            for n in c.body:
                if isinstance(n, ast.FunctionDef) and n.name == meth:
                    return c, n
        return None, None

    def all_functions(self):
        for m in self.modules.values():
            for q, f in m.functions.items():
                yield m, q, f


# --------------------------------------------------------------------------
# Obligations and the run context


class Ob(object):
    __slots__ = ('rule', 'verdict', 'file', 'func', 'line', 'construct', 'reason',
                 'trivial', 'facts')

    def __init__(self, rule, verdict, file, func, line, construct, reason, trivial=False,
                 facts=None):
        self.rule, self.verdict, self.file, self.func = rule, verdict, file, func
        self.line, self.construct, self.reason = line, construct, reason
        self.trivial, self.facts = trivial, facts

    def key(self):
        return '%s|%s|%s|%s' % (self.rule, self.file, self.func, self.construct)

    def as_dict(self):
        d = {'rule': self.rule, 'verdict': self.verdict, 'file': self.file,
             'function': self.func, 'line': self.line, 'construct': self.construct,
             'reason': self.reason}
        if self.facts:
            d['facts'] = self.facts
        return d


class Ctx(object):
    """Collects obligations for one property check."""

    def __init__(self, prop, repo, tier='quick'):
        self.prop = prop
        self.repo = repo
        self.tier = tier
        self.obs = []
        self.rules = {}      # rule id -> text
        self.floors = {}     # rule id -> minimal instance count
        self.assumptions = []
        self.analysed = {}
        self.notes = []

    def floor_failures(self):
        counts = {}
        for ob in self.obs:
            counts[ob.rule] = counts.get(ob.rule, 0) + 1
        return ['%s: %d instance(s) found, floor %d' % (rid, counts.get(rid, 0), fl)
                for rid, fl in self.floors.items() if counts.get(rid, 0) < fl]

    def rule(self, rid, text, floor=1):
        self.rules[rid] = text
        self.floors[rid] = floor

    def _site(self, mod, node):
        fn = None
        n = node
        if isinstance(n, (ast.FunctionDef, ast.ClassDef)) and hasattr(n, '_qualname'):
            fn = n._qualname
        else:
            for p in parents(n) if n is not None else ():
                if hasattr(p, '_qualname'):
                    fn = p._qualname
                    break
        line = getattr(node, 'lineno', 0) if node is not None else 0
        return (mod.relpath if mod is not None else '-', fn or '<module>', line)

    def add(self, rule, verdict, mod, node, reason, construct=None, trivial=False, facts=None):
        if rule not in self.rules:
            raise AnalysisError('internal: rule %s not declared' % rule)
        f, fn, line = self._site(mod, node)
        if construct is None:
            construct = short(node, 200) if node is not None else '-'
        ob = Ob(rule, verdict, f, fn, line, construct, reason, trivial, facts)
        self.obs.append(ob)
        return ob

    def holds(self, rule, mod, node, reason, **kw):
        return self.add(rule, HOLDS, mod, node, reason, **kw)

    def refuted(self, rule, mod, node, reason, **kw):
        return self.add(rule, REFUTED, mod, node, reason, **kw)

    def unknown(self, rule, mod, node, reason, **kw):
        return self.add(rule, UNKNOWN, mod, node, reason, **kw)

    def decide(self, rule, cond, mod, node, ok, bad, **kw):
        if cond:
            return self.holds(rule, mod, node, ok, **kw)
        return self.refuted(rule, mod, node, bad, **kw)

    def assume(self, text):
        if text not in self.assumptions:
            self.assumptions.append(text)


def load_known_findings():
    p = os.path.join(VERIF_DIR, 'known_findings.json')
    if not os.path.exists(p):
        return []
    with open(p, encoding='utf-8') as f:
        return json.load(f).get('findings', [])


def finish(ctx, level, explanation, t0, extra_cov=None, trusted_base=None):
    """Check floors, apply known findings, write evidence, print the report
    and return the process exit code."""
    prop = ctx.prop
    counts = {}
    for ob in ctx.obs:
        counts[ob.rule] = counts.get(ob.rule, 0) + 1
    floor_fail = ctx.floor_failures()
    if floor_fail and not any(o.verdict == REFUTED for o in ctx.obs):
        # (with a refuted obligation the violation is reported; rules that stop at their first
        # refutation naturally produce fewer instances)
        raise AnalysisError('rule instance floor not met (a rule matching nothing passes '
                            'vacuously): ' + '; '.join(floor_fail))

    known = [k for k in load_known_findings() if k.get('property') == prop]
    known_active = {k['key']: k for k in known if k.get('status') == 'known'}

    refuted = [o for o in ctx.obs if o.verdict == REFUTED]
    unknown = [o for o in ctx.obs if o.verdict == UNKNOWN]
    holds = [o for o in ctx.obs if o.verdict == HOLDS]
    new_viol, known_hit = [], []
    for o in refuted:
        if o.key() in known_active:
            known_hit.append(o)
        else:
            new_viol.append(o)

    nontrivial = {o.key() for o in ctx.obs if not o.trivial}

    # (PXV_EVIDENCE_DIR is used by the seed/refactoring test tools so that runs on a patched
    #  tree never overwrite the evidence of the real tree)
    evid_dir = os.environ.get('PXV_EVIDENCE_DIR') or os.path.join(VERIF_DIR, 'evidence')
    os.makedirs(evid_dir, exist_ok=True)

    replay_paths = []
    if new_viol:
        rdir = os.path.join(evid_dir, 'replay')
        os.makedirs(rdir, exist_ok=True)
        for i, o in enumerate(new_viol):
            rp = os.path.join(rdir, '%s_%d.json' % (prop, i))
            with open(rp, 'w', encoding='utf-8') as f:
                json.dump({'property': prop, 'obligation': o.as_dict(),
                           'rule_text': ctx.rules.get(o.rule), 'repo': ctx.repo.root,
                           'how_to_replay': 'cd /verif && /venv/bin/python -m pxv check %s'
                           % prop}, f, indent=1, ensure_ascii=False)
            replay_paths.append(rp)

    # sample obligations: all refuted/unknown + a spread of the holding ones
    samples = [o.as_dict() for o in (refuted + unknown)]
    per_rule = {}
    for o in holds:
        per_rule.setdefault(o.rule, []).append(o)
    for rid in sorted(per_rule):
        for o in per_rule[rid][:(4 if ctx.tier == 'quick' else 100000)]:
            samples.append(o.as_dict())

    wall = time.time() - t0
    cov = {
        'obligations': len(ctx.obs),
        'discharged': len(holds),
        'unknown': len(unknown),
        'refuted': len(refuted),
        'refuted_known_findings': len(known_hit),
        'evaluations': len(ctx.obs),
        'distinct_nontrivial': len(nontrivial),
        'rule': ('one obligation per rule instance found in the source (construct = file, '
                 'function, normalised statement); an obligation is non-trivial unless both '
                 'sides of its condition are syntactically the same expression; distinct = '
                 'distinct (rule, file, function, construct) keys.  Rules: '
                 + ' || '.join('%s: %s' % (r, t) for r, t in sorted(ctx.rules.items()))),
        'instances_per_rule': counts,
        'floors': ctx.floors,
        'samples': samples,
        'explanation': explanation,
        'checker_cmd': '/venv/bin/python -m pxv check %s --tier %s' % (prop, ctx.tier),
        'trusted_base': trusted_base or [
            'CPython ast module (parsing of the working tree)',
            'the pxv rule implementations under /verif/pxv',
        ],
        'analysed': dict(ctx.analysed, modules=len(ctx.repo.modules),
                         source_digest=ctx.repo.digest.hexdigest()[:16]),
        'notes': ctx.notes,
        'exhaustive': True,
    }
    if extra_cov:
        cov.update(extra_cov)
    # a proof-level claim must have every obligation discharged; with an open
    # known finding or an UNKNOWN obligation the run is downgraded to 'other'.
    lvl = level
    if level == 'proof' and (len(holds) != len(ctx.obs)):
        lvl = 'other'
    ev = {
        'property_id': prop,
        'tier': ctx.tier,
        'seed': int(os.environ.get('VERIF_SEED', '0') or 0),
        'level': lvl,
        'coverage': cov,
        'assumptions': ctx.assumptions,
        'wall_s': round(wall, 3),
        'violations': len(new_viol),
    }
    with open(os.path.join(evid_dir, prop + '.json'), 'w', encoding='utf-8') as f:
        json.dump(ev, f, indent=1, ensure_ascii=False)

    out = sys.stdout
    out.write('%s: %d obligations over %d rules: %d hold, %d unknown, %d refuted '
              '(%d listed known findings) [%s, %.2fs]\n'
              % (prop, len(ctx.obs), len(ctx.rules), len(holds), len(unknown), len(refuted),
                 len(known_hit), ctx.tier, wall))
    for rid in sorted(ctx.rules):
        out.write('  rule %-7s %3d instance(s)  %s\n' % (rid, counts.get(rid, 0),
                                                        ctx.rules[rid][:110]))
    for o in unknown:
        out.write('  UNKNOWN %s:%s %s %s :: %s -- %s\n'
                  % (o.file, o.line, o.rule, o.func, o.construct[:100], o.reason))
    for o in known_hit:
        k = known_active[o.key()]
        out.write('KNOWN-FINDING: property=%s %s:%s %s %s -- %s (fails on: %s)\n'
                  % (prop, o.file, o.line, o.rule, o.func, o.reason, k.get('fails_on', '?')))
    for o, rp in zip(new_viol, replay_paths):
        out.write('%s:%s: %s in %s: %s :: %s\n' % (o.file, o.line, o.rule, o.func,
                                                   o.reason, o.construct[:140]))
        out.write('VIOLATION property=%s replay=%s\n' % (prop, rp))
    return 1 if new_viol else 0


def run_proxied(ctx, module, rule, keep):
    """file the obligations of `keep` rules of another property's module under our `rule`; inside
    a proxied run nested proxies are skipped (their obligations would be dropped anyway, and two
    modules may proxy each other)"""
    if getattr(ctx, 'is_proxy', False):
        return
    module.run(Proxy(ctx, rule, keep))


class Proxy(object):
    is_proxy = True

    """Run another property's rule module (or helper) and file the obligations of the rules in
    `keep` under our own rule id: the other property's rule is a necessary condition of ours too.
    Everything else the other module decides is dropped."""

    def __init__(self, ctx, rule, keep):
        self.ctx, self._rule, self._keep = ctx, rule, tuple(keep)
        self.repo = ctx.repo
        self.tier = getattr(ctx, 'tier', 'quick')
        self.analysed = {}
        self.prop = getattr(ctx, 'prop', None)

    def rule(self, *a, **k):
        return None

    def assume(self, *a, **k):
        return None

    def holds(self, rule, *a, **k):
        return self.ctx.holds(self._rule, *a, **k) if rule in self._keep else None

    def refuted(self, rule, *a, **k):
        return self.ctx.refuted(self._rule, *a, **k) if rule in self._keep else None

    def unknown(self, rule, *a, **k):
        return self.ctx.unknown(self._rule, *a, **k) if rule in self._keep else None

    def decide(self, rule, *a, **k):
        return self.ctx.decide(self._rule, *a, **k) if rule in self._keep else None
