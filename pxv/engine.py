# -*- coding: utf-8 -*-
"""E1 (call resolution) and E3 (exception-escape analysis).

Call graph: class-hierarchy analysis for self/super calls, import/alias resolution
for names and module attributes, name-keyed fallback for other receivers,
keyword-slot resolution for stored callbacks, properties, monkey-patched methods,
the two string-keyed legacy dispatchers and the walker-event getattr dispatch.

Escape analysis: least fixpoint of `escapes(f)` = exception classes that can leave
f, from explicit raise statements, assert, handlers (first matching handler wins;
bare raise re-raises), finally blocks and the context manager of parse_content.
It is evaluated per configuration (tolerant_parsing True / False).
"""
import ast
from .core import (AnalysisError, unparse, short, call_name, call_recv, kwarg, is_self_attr,
                   parents, enclosing_func, atomic_facts)

BUILTIN_EXC = {
    'BaseException': None, 'Exception': 'BaseException', 'ValueError': 'Exception',
    'TypeError': 'Exception', 'RuntimeError': 'Exception', 'KeyError': 'LookupError',
    'IndexError': 'LookupError', 'LookupError': 'Exception', 'AttributeError': 'Exception',
    'StopIteration': 'Exception', 'AssertionError': 'Exception', 'NotImplementedError': 'RuntimeError',
    'IOError': 'Exception', 'OSError': 'Exception', 'ImportError': 'Exception',
    'NameError': 'Exception', 'UnicodeError': 'ValueError', 'ZeroDivisionError': 'Exception',
}


def walk_fn(fn):
    """Nodes of a function including lambda bodies, excluding nested defs/classes."""
    stack = list(ast.iter_child_nodes(fn))
    while stack:
        n = stack.pop()
        yield n
        if isinstance(n, (ast.FunctionDef, ast.AsyncFunctionDef, ast.ClassDef)):
            continue
        stack.extend(ast.iter_child_nodes(n))


class Fn(object):
    __slots__ = ('mod', 'qual', 'node', 'cls', 'key')

    def __init__(self, mod, qual, node, cls):
        self.mod, self.qual, self.node, self.cls = mod, qual, node, cls
        self.key = mod.name + ':' + qual

    def __repr__(self):
        return self.key

    @property
    def where(self):
        return '%s:%s' % (self.mod.relpath, self.node.lineno)


class Program(object):
    def __init__(self, repo):
        self.repo = repo
        self.fns = {}
        self.by_name = {}          # simple function name -> [Fn] (module-level functions)
        self.methods = {}          # method name -> [Fn]
        self.cls_methods = {}      # class simple name -> {method name: Fn}
        self.props = {}            # property name -> [Fn]
        self.class_alias = {}      # (class name, attr) -> class name   (make_latex_group_parser = ...)
        self.slots = {}            # keyword/attribute name -> [Fn or ('class', name)]
        self.lambda_fns = {}
        for mod in repo.modules.values():
            for qual, node in mod.functions.items():
                cls = None
                for p in parents(node):
                    if isinstance(p, ast.ClassDef):
                        cls = p.name
                        break
                    if isinstance(p, ast.FunctionDef):
                        break
                f = Fn(mod, qual, node, cls)
                self.fns[f.key] = f
                direct_method = cls is not None and isinstance(getattr(node, '_parent', None), ast.ClassDef)
                if direct_method:
                    self.methods.setdefault(node.name, []).append(f)
                    self.cls_methods.setdefault(cls, {})[node.name] = f
                    if any(unparse(d) in ('property',) or unparse(d).endswith('.setter')
                           for d in node.decorator_list):
                        self.props.setdefault(node.name, []).append(f)
                elif '.' not in qual:
                    self.by_name.setdefault(node.name, []).append(f)
        # module-level lambdas (e.g. replacement callables in the default tables) are analysed as
        # pseudo-functions
        for mod in repo.modules.values():
            for n in ast.walk(mod.tree):
                if isinstance(n, ast.Lambda) and enclosing_func(n) is None:
                    f = Fn(mod, '<lambda@%d:%d>' % (n.lineno, n.col_offset), n, None)
                    self.fns[f.key] = f
                    self.lambda_fns[id(n)] = f
        # monkey patches and class-level aliases
        for mod in repo.modules.values():
            for st in ast.walk(mod.tree):
                if isinstance(st, ast.Assign) and len(st.targets) == 1:
                    t, v = st.targets[0], st.value
                    if isinstance(t, ast.Attribute) and isinstance(t.value, ast.Name) and \
                            repo.find_class(t.value.id) is not None and isinstance(v, ast.Name) \
                            and v.id in self.by_name and enclosing_func(st) is None:
                        for f in self.by_name[v.id]:
                            self.methods.setdefault(t.attr, []).append(f)
                            self.cls_methods.setdefault(t.value.id, {})[t.attr] = f
                    par = getattr(st, '_parent', None)
                    if isinstance(par, ast.ClassDef) and isinstance(t, ast.Name):
                        nm = v.attr if isinstance(v, ast.Attribute) else (v.id if isinstance(v, ast.Name) else None)
                        if nm and repo.find_class(nm) is not None:
                            self.class_alias[(par.name, t.id)] = nm
        # slots: callables passed by keyword or stored on self
        for f in list(self.fns.values()):
            for n in walk_fn(f.node):
                if isinstance(n, ast.Call):
                    for k in n.keywords:
                        if k.arg:
                            for tgt in self._value_targets(f, k.value):
                                self.slots.setdefault(k.arg, []).append(tgt)
                elif isinstance(n, ast.Assign) and len(n.targets) == 1 and is_self_attr(n.targets[0]):
                    for tgt in self._value_targets(f, n.value):
                        self.slots.setdefault(n.targets[0].attr, []).append(tgt)
                        self.slots.setdefault(n.targets[0].attr.replace('_fn_', ''), []).append(tgt)
        self._callees = {}

    # ------------------------------------------------------------------
    def _value_targets(self, f, v):
        """Functions a value expression may denote (function reference, lambda -> the enclosing
        function itself, bound method, class)."""
        out = []
        if isinstance(v, ast.Lambda):
            out.append(f)
        elif isinstance(v, ast.Name):
            out += self._nested(f, v.id)
            if not out:
                out += self.by_name.get(v.id, [])
            if not out and self.repo.find_class(v.id) is not None:
                out += self._ctor(v.id)
        elif isinstance(v, ast.Attribute):
            if is_self_attr(v) and f.cls:
                out += self._cha(f.cls, v.attr)
            elif self.repo.find_class(v.attr) is not None and not isinstance(v.value, ast.Call):
                out += self._ctor(v.attr)
            elif isinstance(v.value, ast.Name):
                out += [m for m in self.methods.get(v.attr, []) if m.cls == v.value.id]
        return out

    def _nested(self, f, name):
        out = []
        prefix = f.qual
        while True:
            k = f.mod.name + ':' + prefix + '.<locals>.' + name
            if k in self.fns:
                out.append(self.fns[k])
                break
            if '.<locals>.' not in prefix:
                break
            prefix = prefix.rsplit('.<locals>.', 1)[0]
        return out

    def _ctor(self, clsname):
        out = []
        for cn in self.repo.mro_names(clsname):
            m = self.cls_methods.get(cn, {}).get('__init__')
            if m is not None:
                out.append(m)
                break
        return out

    def _cha(self, clsname, meth, up=True, down=True):
        out = []
        if up:
            for cn in self.repo.mro_names(clsname):
                m = self.cls_methods.get(cn, {}).get(meth)
                if m is not None:
                    out.append(m)
                    break
        if down:
            for cn in self.repo.subclasses(clsname):
                if cn == clsname:
                    continue
                m = self.cls_methods.get(cn, {}).get(meth)
                if m is not None and m not in out:
                    out.append(m)
        return out

    def is_stub(self, f):
        if not isinstance(f.node.body, list):
            return False
        body = [s for s in f.node.body if not (isinstance(s, ast.Expr) and isinstance(s.value, ast.Constant))]
        return len(body) == 1 and isinstance(body[0], ast.Raise) and \
            isinstance(body[0].exc, ast.Call) and unparse(body[0].exc.func) == 'RuntimeError'

    # ------------------------------------------------------------------
    def resolve(self, f, call):
        fn = call.func
        out = []
        if isinstance(fn, ast.Name):
            n = fn.id
            if n in ('_legacy_pyltxenc2_do', '_legacy_pyltxenc1_do') and call.args and \
                    isinstance(call.args[0], ast.Constant):
                return self.by_name.get(n.replace('_do', '_') + call.args[0].value, [])
            out += self._nested(f, n)
            if out:
                return out
            same = [x for x in self.by_name.get(n, []) if x.mod is f.mod]
            if same:
                return same
            if self.repo.find_class(n) is not None:
                return self._ctor(n)
            if n in self.by_name:
                return list(self.by_name[n])
            # local variable holding a callable taken from self.<attr> or a parameter
            for s in walk_fn(f.node):
                if isinstance(s, ast.Assign) and len(s.targets) == 1 and \
                        isinstance(s.targets[0], ast.Name) and s.targets[0].id == n:
                    if is_self_attr(s.value):
                        out += self._slot(s.value.attr, f)
                    elif isinstance(s.value, ast.Call) and call_name(s.value) == 'getattr' and \
                            len(s.value.args) >= 2 and 'walker_event_name' in unparse(s.value.args[1]):
                        out += self.cls_methods.get('LatexWalkerParsingStateEventHandler', {}).get(
                            'enter_math_mode') and [
                            self.cls_methods['LatexWalkerParsingStateEventHandler']['enter_math_mode'],
                            self.cls_methods['LatexWalkerParsingStateEventHandler']['leave_math_mode']] or []
            params = {a.arg for a in f.node.args.args}
            if n in params and not out:
                out += self._slot(n, f)
            return out
        if isinstance(fn, ast.Attribute):
            m = fn.attr
            recv = fn.value
            if isinstance(recv, ast.Name) and recv.id == 'self' and f.cls:
                alias = None
                for cn in self.repo.mro_names(f.cls):
                    alias = alias or self.class_alias.get((cn, m))
                got = self._cha(f.cls, m)
                if got:
                    return got
                if alias:
                    return self._ctor(alias)
                return self._slot(m, f)
            if isinstance(recv, ast.Call) and call_name(recv) == 'super' and f.cls:
                anc = self.repo.mro_names(f.cls)[1:]
                for cn in anc:
                    mm = self.cls_methods.get(cn, {}).get(m)
                    if mm is not None:
                        return [mm]
                return []
            # module / class qualified: parsers.X(...), latexnodes.LatexTokenReader(...), Cls.method(...)
            if isinstance(recv, (ast.Name, ast.Attribute)):
                rtxt = unparse(recv)
                last = rtxt.rsplit('.', 1)[-1]
                if self.repo.find_class(m) is not None and last not in ('self',) and \
                        not (last in self.cls_methods and m in self.cls_methods.get(last, {})):
                    # attribute that is a class: constructor call
                    if last[:1].islower() or self.repo.find_class(last) is not None:
                        return self._ctor(m)
                if self.repo.find_class(last) is not None and isinstance(recv, ast.Name):
                    got = self._cha(last, m, down=False)
                    if got:
                        return got
                if isinstance(recv, ast.Name) and m in self.by_name and recv.id in (
                        '_util', 'latexnodes', 'parsers', 'macrospec', 'latexwalker', '_walker',
                        'latexnodes_parsers', 'latexnodes_nodes', 'nodes'):
                    return list(self.by_name[m])
            # class aliases held by the walker (make_latex_group_parser / make_latex_math_parser)
            for (cn, an), target in self.class_alias.items():
                if an == m:
                    out += self._ctor(target)
            # name-keyed fallback
            cands = self.methods.get(m, [])
            real = [c for c in cands if not self.is_stub(c)]
            out += real if real else cands
            out += self._slot(m, f)
            seen, res = set(), []
            for x in out:
                if x.key not in seen:
                    seen.add(x.key)
                    res.append(x)
            return res
        return out

    def _slot(self, name, f):
        return list({x.key: x for x in self.slots.get(name, []) if isinstance(x, Fn)}.values())

    def callees(self, f):
        if f.key in self._callees:
            return self._callees[f.key]
        out = {}
        for n in walk_fn(f.node):
            if isinstance(n, ast.Call):
                for g in self.resolve(f, n):
                    out.setdefault(g.key, (g, n))
            elif isinstance(n, ast.Attribute) and isinstance(n.ctx, ast.Load) and n.attr in self.props:
                for g in self.props[n.attr]:
                    out.setdefault(g.key, (g, n))
            elif isinstance(n, ast.With):
                for it in n.items:
                    pass
        # nested defs are (conservatively) callable from their encloser
        for k, g in self.fns.items():
            if g.mod is f.mod and g.qual.startswith(f.qual + '.<locals>.') and \
                    g.qual.count('.<locals>.') == f.qual.count('.<locals>.') + 1:
                out.setdefault(g.key, (g, g.node))
        self._callees[f.key] = out
        return out

    def reachable(self, entries):
        seen = {}
        stack = [(e, None) for e in entries]
        while stack:
            f, via = stack.pop()
            if f.key in seen:
                continue
            seen[f.key] = via
            for k, (g, site) in self.callees(f).items():
                if k not in seen:
                    stack.append((g, f.key))
        return seen

    def path_to(self, seen, key):
        out = [key]
        while seen.get(out[-1]):
            out.append(seen[out[-1]])
        return list(reversed(out))

    def find(self, modname, qual):
        f = self.fns.get(modname + ':' + qual)
        if f is None:
            raise AnalysisError('anchor vanished: function %s in %s' % (qual, modname))
        return f


# ----------------------------------------------------------------------------
# exception escape analysis


class Escapes(object):
    def __init__(self, prog, tolerant):
        self.prog = prog
        self.repo = prog.repo
        self.tolerant = tolerant
        self.esc = {}      # fn key -> {(exc class, origin): witness}
        self._caught_w = {}
        self.ret = {}      # fn key -> set of exception classes the function may *return*

    # -- class lattice
    def parent(self, c):
        if c in BUILTIN_EXC:
            return BUILTIN_EXC[c]
        cd = self.repo.find_class(c)
        if cd is None:
            return 'Exception'
        bases = self.repo.bases_of(cd)
        return bases[0] if bases else None

    def is_sub(self, c, base):
        seen = 0
        while c is not None and seen < 30:
            if c == base:
                return True
            c = self.parent(c)
            seen += 1
        return False

    def is_exc_class(self, name):
        return name in BUILTIN_EXC or (self.repo.find_class(name) is not None
                                       and self.is_sub(name, 'BaseException'))

    # -- fixpoint
    def run(self, entries):
        reach = self.prog.reachable(entries)
        self.reach = reach
        fns = [self.prog.fns[k] for k in reach]
        for f in fns:
            self.esc[f.key] = {}
            self.ret[f.key] = set()
        for it in range(40):
            changed = False
            for f in fns:
                r = self._returns(f)
                if not r <= self.ret[f.key]:
                    self.ret[f.key] |= r
                    changed = True
            for f in fns:
                body = f.node.body if isinstance(f.node.body, list) else [ast.Expr(value=f.node.body)]
                e = self._block(f, body, None)
                for c, w in e.items():
                    if c not in self.esc[f.key]:
                        self.esc[f.key][c] = w
                        changed = True
            if not changed:
                self.iterations = it + 1
                break
        else:
            raise AnalysisError('escape analysis did not converge')
        return self

    # -- value -> exception classes
    def classes_of(self, f, e, caught=None, depth=0):
        if e is None or depth > 6:
            return set()
        if isinstance(e, ast.Call):
            cn = call_name(e)
            if cn == 'check_tolerant_parsing_ignore_error' and e.args:
                inner = self.classes_of(f, e.args[0], caught, depth + 1)
                if self.tolerant:
                    return {c for c in inner if not self.is_sub(c, 'LatexWalkerError')}
                return inner
            if cn and self.is_exc_class(cn):
                return {cn}
            if cn and isinstance(e.func, ast.Attribute) and self.is_exc_class(e.func.attr):
                return {e.func.attr}
            out = set()
            for g in self.prog.resolve(f, e):
                out |= self.ret.get(g.key, set())
            return out
        if isinstance(e, ast.Attribute) and self.is_exc_class(e.attr):
            return {e.attr}
        if isinstance(e, ast.Name):
            if self.is_exc_class(e.id):
                return {e.id}
            out = set()
            for s in walk_fn(f.node):
                if isinstance(s, ast.Assign) and any(isinstance(t, ast.Name) and t.id == e.id
                                                     for t in s.targets):
                    out |= self.classes_of(f, s.value, caught, depth + 1)
                elif isinstance(s, ast.ExceptHandler) and s.name == e.id and s.type is not None:
                    out |= self._handler_types(s)
            return out
        return set()

    def _is_handler_var(self, node, name):
        for p in parents(node):
            if isinstance(p, ast.ExceptHandler):
                return p.name == name
            if isinstance(p, (ast.FunctionDef, ast.Lambda)):
                return False
        return False

    def _handler_types(self, h):
        t = h.type
        if t is None:
            return {'BaseException'}
        elts = t.elts if isinstance(t, ast.Tuple) else [t]
        out = set()
        for x in elts:
            nm = x.attr if isinstance(x, ast.Attribute) else (x.id if isinstance(x, ast.Name) else None)
            if nm:
                out.add(nm)
        return out

    def _returns(self, f):
        out = set()
        for n in walk_fn(f.node):
            if isinstance(n, ast.Return) and n.value is not None:
                out |= self.classes_of(f, n.value)
        return out

    # -- statements
    def _cfg_test(self, test):
        """True/False when the test is decided by the configuration, else None."""
        neg = False
        t = test
        if isinstance(t, ast.UnaryOp) and isinstance(t.op, ast.Not):
            neg, t = True, t.operand
        if isinstance(t, ast.Attribute) and t.attr == 'tolerant_parsing':
            return (not self.tolerant) if neg else self.tolerant
        return None

    def _block(self, f, stmts, caught):
        out = {}
        for s in stmts:
            for c, w in self._stmt(f, s, caught).items():
                out.setdefault(c, w)
        return out

    def _calls_in(self, f, node, caught):
        out = {}
        for n in ([node] if isinstance(node, ast.expr) else []) + [
                x for x in ast.walk(node) if isinstance(x, (ast.Call, ast.Attribute))]:
            targets = []
            if isinstance(n, ast.Call):
                targets = self.prog.resolve(f, n)
            elif isinstance(n, ast.Attribute) and isinstance(n.ctx, ast.Load) and n.attr in self.prog.props:
                targets = self.prog.props[n.attr]
            for g in targets:
                for c, w in self.esc.get(g.key, {}).items():
                    out.setdefault(c, (w[0], w[1], [f.key] + w[2], w[3]))
        return out

    def _stmt(self, f, s, caught):
        if isinstance(s, (ast.FunctionDef, ast.AsyncFunctionDef, ast.ClassDef)):
            return {}
        if isinstance(s, ast.Raise):
            out = self._calls_in(f, s, caught)
            if s.exc is None:
                for c in (caught or ()):
                    out.setdefault(c, c[1] if isinstance(c, tuple) and False else
                                   self._caught_w.get(c, ('%s:%s' % (f.mod.relpath, s.lineno),
                                                          're-raise', [f.key], f.qual)))
            elif isinstance(s.exc, ast.Name) and caught and self._is_handler_var(s, s.exc.id):
                for c in caught:
                    out.setdefault(c, self._caught_w.get(c, ('%s:%s' % (f.mod.relpath, s.lineno),
                                                             're-raise', [f.key], f.qual)))
            else:
                for cn in self.classes_of(f, s.exc, caught):
                    org = '%s:%s' % (f.mod.relpath, s.lineno)
                    out.setdefault((cn, org), (org, short(s, 90), [f.key], f.qual))
            return out
        if isinstance(s, ast.Assert):
            out = self._calls_in(f, s, caught)
            org = '%s:%s' % (f.mod.relpath, s.lineno)
            out.setdefault(('AssertionError', org), (org, short(s, 90), [f.key], f.qual))
            return out
        if isinstance(s, ast.If):
            v = self._cfg_test(s.test)
            out = self._calls_in(f, s.test, caught)
            if v is not False:
                for c, w in self._block(f, s.body, caught).items():
                    out.setdefault(c, w)
            if v is not True:
                for c, w in self._block(f, s.orelse, caught).items():
                    out.setdefault(c, w)
            return out
        if isinstance(s, (ast.For, ast.While)):
            out = self._calls_in(f, s.iter if isinstance(s, ast.For) else s.test, caught)
            for blk in (s.body, s.orelse):
                for c, w in self._block(f, blk, caught).items():
                    out.setdefault(c, w)
            return out
        if isinstance(s, ast.Try):
            body = self._block(f, s.body, caught)
            out = {}
            for c, w in body.items():
                handled = False
                cn = c[0]
                for h in s.handlers:
                    ht = self._handler_types(h)
                    if any(self.is_sub(cn, t) for t in ht):
                        handled = True
                        self._caught_w[c] = w
                        for c2, w2 in self._block(f, h.body, {c}).items():
                            out.setdefault(c2, w2)
                        break
                    if any(self.is_sub(t, cn) for t in ht):
                        # handler catches a subclass of what may be raised: both outcomes possible
                        sub = set()
                        for t in ht:
                            if self.is_sub(t, cn):
                                k2 = (t, w[0])
                                self._caught_w[k2] = w
                                sub.add(k2)
                        for c2, w2 in self._block(f, h.body, sub).items():
                            out.setdefault(c2, w2)
                if not handled:
                    out.setdefault(c, w)
            for blk in (s.orelse, s.finalbody):
                for c, w in self._block(f, blk, caught).items():
                    out.setdefault(c, w)
            return out
        if isinstance(s, ast.With):
            out = {}
            suppress = None
            for it in s.items:
                for c, w in self._calls_in(f, it.context_expr, caught).items():
                    out.setdefault(c, w)
                if isinstance(it.context_expr, ast.Call) and \
                        call_name(it.context_expr) == 'new_parsing_open_context':
                    suppress = 'LatexWalkerParseError'
            body = self._block(f, s.body, caught)
            for c, w in body.items():
                if suppress and self.tolerant and self.is_sub(c[0], suppress):
                    continue
                out.setdefault(c, w)
            return out
        if isinstance(s, ast.Return):
            return self._calls_in(f, s, caught) if s.value is not None else {}
        return self._calls_in(f, s, caught)
