# -*- coding: utf-8 -*-
"""Generic crash-construct rules G1..G9 (DESIGN.md section 4).

Each rule finds constructs that definitely raise an unintended exception when
reached (TypeError from a call that cannot bind, NameError, AttributeError on a
missing attribute or on None, IndexError before a bounds check, ValueError from
max() of nothing, ...).  `findings(repo, prog)` returns a list of Finding objects;
the property checks keep those whose enclosing function is reachable from the
property's entry points.
"""
import ast
import builtins
import re

from .core import (unparse, short, iter_own, call_name, call_recv, kwarg, is_self_attr, atomic_facts,
                   parents, enclosing_stmt, enclosing_func, always_exits)
from .engine import walk_fn
from .rules import gcommon


class Finding(object):
    def __init__(self, rule, verdict, mod, node, fnkey, reason, construct):
        self.rule, self.verdict, self.mod, self.node = rule, verdict, mod, node
        self.fnkey, self.reason, self.construct = fnkey, reason, construct


LISTY = re.compile(r'(nodelist|nodes$|argnlist|nodeargs|exprnodes|parts$|chunks|_list$|tokens$|'
                   r'first_tokens|split_node_lists|rows$)')

# reviewed exceptions for G7 (function qualname, subscript text) -> reason
G7_REVIEWED_SRC = {
    ('LatexNodes2Text._input_node_simplify_repl', 'n.nodeargs[0]'):
        ('either len(n.nodeargs) == 1 or the preceding branch returned when n.nodeargs is empty',
         "if not n.nodeargs:\n            return ''"),
    ('LatexOptionalCharsMarkerParser.parse', 'full_nodelist[0]'):
        ('num_args != 0 means at least one _parse_single result was appended; with '
         'return_full_node_list=False each result has exactly one node', 'if num_args == 0:'),
    ('LatexContextDb.extended_with', 'self.category_list[0]'):
        ('second operand of an `and` whose first operand is len(self.category_list) > 0',
         'len(self.category_list) > 0 and self.category_list[0]'),
}
# (function, subscript) -> reason; an entry is only honoured while the function still contains
# the source fragment the reason relies on (checked in g7_reviewed())
G7_REVIEWED = {k: v[0] for k, v in G7_REVIEWED_SRC.items()}


def g7_reviewed(f_node, qual, expr):
    for key in ((qual, expr), (qual.rsplit('.<locals>.', 1)[-1], expr)):
        if key in G7_REVIEWED_SRC:
            reason, needs = G7_REVIEWED_SRC[key]
            if needs in ast.unparse(f_node):
                return reason
    return None


_REPO = [None]


def findings(repo, prog):
    _REPO[0] = repo
    out = []
    # G17 expects nothing on the tree: it must fire on its built-in example on every run
    ex17 = ast.parse("def f(name):\n    a = 'unknown {{{name}}}'.format(name)\n    b = '{} {}'.format(name)\n"
                     "    c = '{0} {k}'.format(name, k=1)\n    return a, b, c\n")
    if len(list(format_arity(ex17.body[0]))) != 2:
        from .core import AnalysisError
        raise AnalysisError('G17: the format-arity rule no longer fires on its built-in example')
    for f in prog.fns.values():
        if f.mod.name.endswith('__main__'):
            continue
        _g4a(f, out)
        _g5(f, out)
        _g6(f, out)
        _g7(f, out)
        _g7b(f, out)
        _g7c(f, out)
        _g9(f, out)
        _g10(f, out)
        _g11(f, out)
        _g14(f, out)
        _g15(f, out)
        _g16(f, out)
        _g17(f, out)
        _g4d(f, out)
        _g5b(f, out)
        _g4c(f, out)
    _g1(repo, prog, out)
    _g2(repo, prog, out)
    _g3(repo, prog, out)
    _g4b(repo, prog, out)
    return out


# --------------------------------------------------------------------------- G1


def _ctor_accepts(repo, prog, clsname, depth=0):
    """(positional names, accepted keyword names or None if open, required names)"""
    chain = repo.mro_names(clsname)
    for i, cn in enumerate(chain):
        m = prog.cls_methods.get(cn, {}).get('__init__')
        if m is None:
            continue
        a = m.node.args
        pos = [x.arg for x in a.args[1:]]
        ndef = len(a.defaults)
        required = set(pos[:len(pos) - ndef]) if ndef <= len(pos) else set()
        kws = set(pos) | {x.arg for x in a.kwonlyargs}
        if a.kwarg is None:
            return pos, kws, required, a.vararg is not None
        # **kwargs: popped literals + whatever the super constructor accepts when forwarded
        kw = a.kwarg.arg
        for n in walk_fn(m.node):
            if isinstance(n, ast.Call) and call_name(n) in ('pop', 'get') and call_recv(n) is not None \
                    and unparse(call_recv(n)) == kw and n.args and isinstance(n.args[0], ast.Constant):
                kws.add(n.args[0].value)
        forwards = any(isinstance(n, ast.Call) and call_name(n) == '__init__' and any(
            k.arg is None and unparse(k.value) == kw for k in n.keywords) for n in walk_fn(m.node))
        rejects = any(isinstance(n, ast.Raise) for n in walk_fn(m.node)) and any(
            isinstance(n, ast.If) and ('len(%s)' % kw in unparse(n.test) or unparse(n.test) == kw)
            for n in walk_fn(m.node))
        if forwards and depth < 6 and i + 1 < len(chain):
            nxt = None
            for cn2 in chain[i + 1:]:
                if prog.cls_methods.get(cn2, {}).get('__init__') is not None:
                    nxt = cn2
                    break
            if nxt is None:
                return pos, kws, required, a.vararg is not None      # object(): no keywords
            sub = _ctor_accepts(repo, prog, nxt, depth + 1)
            if sub is None:
                return pos, kws, required, a.vararg is not None
            p2, k2, r2, v2 = sub
            if k2 is None:
                return pos, None, required, True
            # (the super constructor's required parameters are supplied by this __init__)
            return pos, kws | k2, required, a.vararg is not None
        if rejects or not forwards:
            return pos, (kws if rejects else None), required, a.vararg is not None
        return pos, None, required, True
    return None


def _g1(repo, prog, out):
    for f in prog.fns.values():
        if f.mod.name.endswith('__main__'):
            continue
        for c in walk_fn(f.node):
            if not isinstance(c, ast.Call):
                continue
            if any(isinstance(a, ast.Starred) for a in c.args) or any(k.arg is None for k in c.keywords):
                star = True
            else:
                star = False
            target = None
            extra_ok = set()
            nm = c.func.id if isinstance(c.func, ast.Name) else (
                c.func.attr if isinstance(c.func, ast.Attribute) and not is_self_attr(c.func)
                and isinstance(c.func.value, ast.Name) and c.func.value.id in (
                    'parsers', 'latexnodes', 'macrospec', 'nodes', 'latexnodes_nodes', '_util',
                    'latexnodes_exctypes', 'latexwalker') else None)
            args, kws = list(c.args), list(c.keywords)
            if call_name(c) == 'make_node' and c.args and not star:
                nm = unparse(c.args[0]).rsplit('.', 1)[-1]
                args = []
                extra_ok = {'pos', 'pos_end', 'parsing_state', 'len', 'latex_walker'}
                target = 'make_node(%s)' % nm
                if repo.find_class(nm) is None:
                    # the class is a parameter: every class the callers pass must accept the keywords
                    classes = _class_values(repo, f.node, nm) if isinstance(c.args[0], ast.Name) else None
                    for cn in sorted(classes or ()):
                        sig = _ctor_accepts(repo, prog, cn)
                        if sig is None or sig[1] is None:
                            continue
                        unk = [k.arg for k in kws if k.arg and k.arg not in sig[1] and k.arg not in extra_ok]
                        if unk:
                            out.append(Finding('G1', 'REFUTED', f.mod, c, f.key,
                                               'make_node(%s, ...) is reached with %s = %s (passed by a caller), whose __init__ '
                                               'does not accept the keyword(s) %s -> TypeError when reached (an unknown '
                                               'environment or specials in a context without a fallback specification)'
                                               % (nm, nm, cn, unk), '%s: %s as %s' % (f.qual, short(c, 60), cn)))
                            break
                    continue
            elif nm is None or repo.find_class(nm) is None:
                continue
            if nm in ('ParsingState',):
                continue
            sig = _ctor_accepts(repo, prog, nm)
            if sig is None:
                continue        # no __init__ in the package (builtin base class signature)
            pos, accepted, required, vararg = sig
            given_kw = [k.arg for k in kws if k.arg]
            problems = []
            if not vararg and len(args) > len(pos) and not star:
                problems.append('%d positional arguments for %d parameters' % (len(args), len(pos)))
            bound = set(pos[:len(args)])
            dup = [k for k in given_kw if k in bound]
            if dup:
                problems.append('parameter(s) %s given both positionally and by keyword' % dup)
            if accepted is not None:
                unk = [k for k in given_kw if k not in accepted and k not in extra_ok]
                if unk:
                    problems.append('unknown keyword(s) %s (accepted: %s)' % (unk, sorted(accepted)[:12]))
            if not star and call_name(c) != 'make_node':
                miss = [r for r in required if r not in bound and r not in given_kw]
                if miss:
                    problems.append('missing required argument(s) %s' % sorted(miss))
            if problems:
                out.append(Finding('G1', 'REFUTED', f.mod, c, f.key,
                                   'call cannot bind to %s.__init__: %s -> TypeError/ValueError when '
                                   'reached' % (nm, '; '.join(problems)),
                                   '%s: %s' % (f.qual, short(c, 80))))


def _class_values(repo, fnode, pname):
    """class names passed for parameter `pname` of function `fnode` by the call sites in the package (a class name
    directly, or a local bound once to a class name); None when some call site passes something else"""
    if not isinstance(fnode, (ast.FunctionDef, ast.AsyncFunctionDef)):
        return None
    pos = [a.arg for a in fnode.args.args]
    if pname not in pos:
        return None
    is_method = bool(pos) and pos[0] in ('self', 'cls')
    i = pos.index(pname) - (1 if is_method else 0)
    out = set()
    for c in _all_calls(repo).get(fnode.name, []):
        a = None
        for k in c.keywords:
            if k.arg == pname:
                a = k.value
        if a is None and 0 <= i < len(c.args):
            a = c.args[i]
        if a is None:
            return None
        if isinstance(a, ast.Name) and repo.find_class(a.id) is None:
            g = enclosing_func(c)
            defs = [s_.value for s_ in walk_fn(g) if isinstance(s_, ast.Assign) and any(
                isinstance(t, ast.Name) and t.id == a.id for t in s_.targets)] if g is not None else []
            if len(defs) != 1:
                return None
            a = defs[0]
        nm = a.id if isinstance(a, ast.Name) else (a.attr if isinstance(a, ast.Attribute) else None)
        if nm is None or repo.find_class(nm) is None:
            return None
        out.add(nm)
    return out or None


# --------------------------------------------------------------------------- G2

_BUILTINS = set(dir(builtins)) | {'unicode', 'basestring', 'unichr', 'long', 'xrange', '__file__',
                                  '__name__', '__doc__', '__package__'}


def _module_names(repo, mod, seen=None):
    seen = seen or set()
    if mod.name in seen:
        return set()
    seen.add(mod.name)
    names = set()

    def toplevel(node):
        for ch in ast.iter_child_nodes(node):
            yield ch
            if isinstance(ch, (ast.FunctionDef, ast.AsyncFunctionDef, ast.ClassDef, ast.Lambda)):
                continue
            if isinstance(ch, (ast.ListComp, ast.SetComp, ast.DictComp, ast.GeneratorExp)):
                continue
            for x in toplevel(ch):
                yield x
    for n in toplevel(mod.raw_tree):
        if isinstance(n, (ast.FunctionDef, ast.ClassDef)):
            names.add(n.name)
        elif isinstance(n, ast.Name) and isinstance(n.ctx, ast.Store):
            names.add(n.id)
        elif isinstance(n, ast.Import):
            for a in n.names:
                names.add((a.asname or a.name).split('.')[0])
        elif isinstance(n, ast.ImportFrom):
            for a in n.names:
                if a.name == '*':
                    tgt = _resolve_from(repo, mod, n)
                    if tgt is not None:
                        names |= _module_names(repo, tgt, seen)
                    else:
                        names.add('*unknown*')
                else:
                    names.add(a.asname or a.name)
        elif isinstance(n, ast.ExceptHandler) and n.name:
            names.add(n.name)
    return names


def _resolve_from(repo, mod, imp):
    base = mod.name.split('.')
    if not mod.path.endswith('__init__.py'):
        base = base[:-1]
    if imp.level:
        base = base[:len(base) - (imp.level - 1)]
    full = '.'.join(base + ([imp.module] if imp.module else []))
    return repo.modules.get(full)


def _g2(repo, prog, out):
    cache = {}
    for f in prog.fns.values():
        if f.mod.name.endswith('__main__'):
            continue
        if f.mod.name not in cache:
            cache[f.mod.name] = _module_names(repo, f.mod)
        modnames = cache[f.mod.name]
        if '*unknown*' in modnames:
            continue
        local = set()
        chain = [f.node] + [p for p in parents(f.node) if isinstance(p, (ast.FunctionDef, ast.Lambda))]
        for fn in chain:
            a = fn.args
            for x in a.args + a.kwonlyargs + getattr(a, 'posonlyargs', []):
                local.add(x.arg)
            if a.vararg:
                local.add(a.vararg.arg)
            if a.kwarg:
                local.add(a.kwarg.arg)
            for n in ast.walk(fn):
                if isinstance(n, ast.Name) and isinstance(n.ctx, (ast.Store, ast.Del)):
                    local.add(n.id)
                elif isinstance(n, (ast.FunctionDef, ast.ClassDef)):
                    local.add(n.name)
                elif isinstance(n, ast.ExceptHandler) and n.name:
                    local.add(n.name)
                elif isinstance(n, (ast.Import, ast.ImportFrom)):
                    for al in n.names:
                        local.add((al.asname or al.name).split('.')[0])
                elif isinstance(n, ast.Lambda):
                    for x in n.args.args + n.args.kwonlyargs:
                        local.add(x.arg)
                    if n.args.vararg:
                        local.add(n.args.vararg.arg)
                    if n.args.kwarg:
                        local.add(n.args.kwarg.arg)
                elif isinstance(n, ast.comprehension):
                    pass    # comprehension targets are scoped to their comprehension (below)
        # class-body names are not visible from methods; fine (they would be real NameErrors)
        # names stored only as comprehension targets are not function locals
        comp_only = set()
        for fn in chain:
            stored_elsewhere = set()
            comp_t = set()
            for n in ast.walk(fn):
                if isinstance(n, ast.comprehension):
                    for x in ast.walk(n.target):
                        if isinstance(x, ast.Name):
                            comp_t.add(id(x))
            for n in ast.walk(fn):
                if isinstance(n, ast.Name) and isinstance(n.ctx, (ast.Store, ast.Del)):
                    if id(n) in comp_t:
                        comp_only.add(n.id)
                    else:
                        stored_elsewhere.add(n.id)
            comp_only -= stored_elsewhere
        params = set()
        for fn in chain:
            a = fn.args
            params |= {x.arg for x in a.args + a.kwonlyargs} | ({a.vararg.arg} if a.vararg else set()) \
                | ({a.kwarg.arg} if a.kwarg else set())
        comp_only -= params
        for n in walk_fn(f.node):
            if isinstance(n, ast.Name) and isinstance(n.ctx, ast.Load):
                if n.id in comp_only and n.id not in modnames and n.id not in _BUILTINS:
                    inside = any(isinstance(p, (ast.ListComp, ast.SetComp, ast.DictComp, ast.GeneratorExp))
                                 and any(isinstance(x, ast.Name) and x.id == n.id
                                         for g in p.generators for x in ast.walk(g.target))
                                 for p in parents(n))
                    inside = inside or any(
                        isinstance(p, ast.Lambda) and n.id in (
                            [x.arg for x in p.args.args + p.args.kwonlyargs] +
                            ([p.args.vararg.arg] if p.args.vararg else []) +
                            ([p.args.kwarg.arg] if p.args.kwarg else [])) for p in parents(n))
                    if inside:
                        continue
                    out.append(Finding('G2', 'REFUTED', f.mod, enclosing_stmt(n) or n, f.key,
                                       'name %r is only bound as a comprehension variable, which is '
                                       'not visible here: NameError when this line runs' % n.id,
                                       '%s: unbound name %s' % (f.qual, n.id)))
                    continue
                if n.id in local or n.id in modnames or n.id in _BUILTINS:
                    continue
                out.append(Finding('G2', 'REFUTED', f.mod, enclosing_stmt(n) or n, f.key,
                                   'name %r is not bound in this function, its module or builtins: '
                                   'NameError when this line runs' % n.id,
                                   '%s: unbound name %s' % (f.qual, n.id)))


# --------------------------------------------------------------------------- G3


def _class_attrs(repo, prog, clsname):
    """Attribute names available on instances of clsname: methods, class-level names and
    self.<x> stores anywhere in the class, its ancestors and its descendants; None if a base
    class is outside the package (unknown attributes)."""
    names = set()
    fam = set(repo.mro_names(clsname))
    for cn in list(fam):
        c = repo.find_class(cn)
        if c is None:
            if cn not in ('object', 'Exception'):
                return None
            continue
    fam |= set(repo.subclasses(clsname))
    for cn in fam:
        c = repo.find_class(cn)
        if c is None:
            continue
        for n in ast.walk(c):
            if isinstance(n, (ast.FunctionDef, ast.ClassDef)) and getattr(n, '_parent', None) is c:
                names.add(n.name)
            elif isinstance(n, ast.Assign) and getattr(n, '_parent', None) is c:
                for t in n.targets:
                    for x in ast.walk(t):
                        if isinstance(x, ast.Name):
                            names.add(x.id)
            elif isinstance(n, ast.Attribute) and isinstance(n.ctx, ast.Store) and \
                    isinstance(n.value, ast.Name) and n.value.id in ('self', 'cls'):
                names.add(n.attr)
            elif isinstance(n, ast.Call) and call_name(n) == 'setattr' and len(n.args) >= 2 and \
                    isinstance(n.args[1], ast.Constant):
                names.add(n.args[1].value)
    # monkey-patched methods
    for cn in fam:
        names |= set(prog.cls_methods.get(cn, {}))
    return names


def _g3(repo, prog, out):
    cache = {}
    # attributes stored from outside on instances (e.g. verbatim_info.x = ...): collect all
    # attribute names stored anywhere through a non-self receiver
    foreign_stores = set()
    for mod in repo.modules.values():
        for n in ast.walk(mod.tree):
            if isinstance(n, ast.Attribute) and isinstance(n.ctx, ast.Store) and \
                    not (isinstance(n.value, ast.Name) and n.value.id == 'self'):
                foreign_stores.add(n.attr)
    for f in prog.fns.values():
        if f.cls is None or f.mod.name.endswith('__main__'):
            continue
        if not f.node.args.args or f.node.args.args[0].arg != 'self':
            continue
        if f.cls not in cache:
            cache[f.cls] = _class_attrs(repo, prog, f.cls)
        attrs = cache[f.cls]
        if attrs is None:
            continue
        for n in walk_fn(f.node):
            if is_self_attr(n) and isinstance(n.ctx, ast.Load):
                if n.attr in attrs or n.attr.startswith('__') or n.attr in foreign_stores:
                    continue
                # guarded by hasattr(self, 'x')
                if any(pol and "hasattr(self, '%s')" % n.attr in unparse(t) for t, pol in atomic_facts(n)):
                    continue
                par = getattr(n, '_parent', None)
                if isinstance(par, ast.Call) and call_name(par) in ('hasattr', 'getattr'):
                    continue
                out.append(Finding('G3', 'REFUTED', f.mod, enclosing_stmt(n) or n, f.key,
                                   'self.%s is read but no class in the hierarchy of %s defines or '
                                   'assigns it: AttributeError when this line runs' % (n.attr, f.cls),
                                   '%s: self.%s' % (f.qual, n.attr)))


# --------------------------------------------------------------------------- G4


def _g4a(f, out):
    """use of v after `if v is not None: <always exits>` (so v is None here)."""
    for blk_owner in walk_fn(f.node):
        for fld in ('body', 'orelse', 'finalbody'):
            blk = getattr(blk_owner, fld, None)
            if not isinstance(blk, list):
                continue
            for i, s in enumerate(blk):
                if isinstance(s, ast.If) and not s.orelse and always_exits(s.body) and \
                        isinstance(s.test, ast.Compare) and isinstance(s.test.ops[0], ast.IsNot) and \
                        unparse(s.test.comparators[0]) == 'None' and isinstance(s.test.left, ast.Name):
                    v = s.test.left.id
                    for later in blk[i + 1:]:
                        if isinstance(later, (ast.Assign, ast.AugAssign)) and v in {
                                x.id for x in ast.walk(later) if isinstance(x, ast.Name)
                                and isinstance(x.ctx, ast.Store)}:
                            break
                        hit = None
                        for n in ast.walk(later):
                            if isinstance(n, ast.Attribute) and isinstance(n.value, ast.Name) and \
                                    n.value.id == v and isinstance(n.ctx, ast.Load):
                                hit = n
                            elif isinstance(n, (ast.Call, ast.Subscript)) and isinstance(
                                    getattr(n, 'func', getattr(n, 'value', None)), ast.Name) and \
                                    getattr(n, 'func', getattr(n, 'value', None)).id == v:
                                hit = n
                        if hit is not None:
                            out.append(Finding('G4', 'REFUTED', f.mod, later, f.key,
                                               '%s is None here (the preceding `if %s is not None` '
                                               'branch always leaves), but %s is dereferenced: '
                                               'AttributeError/TypeError' % (v, v, short(hit)),
                                               '%s: None-deref of %s' % (f.qual, v)))
                            break


MAYBE_NONE_CALLS = ('get_macro_spec', 'get_environment_spec', 'get_specials_spec')


def _g4b(repo, prog, out):
    """Results of the spec lookups may be None (unknown_*_spec defaults to None): a dereference
    needs a dominating None test.  Engler-style: most callers test; the ones that do not are
    reported."""
    for f in prog.fns.values():
        if f.mod.name.endswith('__main__') or f.mod.name.endswith('_latexcontextdb'):
            continue
        vars_ = {}
        for s in walk_fn(f.node):
            if isinstance(s, ast.Assign) and len(s.targets) == 1 and isinstance(s.targets[0], ast.Name) \
                    and isinstance(s.value, ast.Call) and call_name(s.value) in MAYBE_NONE_CALLS:
                vars_[s.targets[0].id] = s
        for v, dfn in vars_.items():
            # a fallback assignment `if v is None: v = X(...)` makes it non-None afterwards
            fallback = [s for s in walk_fn(f.node) if isinstance(s, ast.Assign)
                        and unparse(s.targets[0]) == v and s is not dfn
                        and any(pol and unparse(t) == v + ' is None' for t, pol in atomic_facts(s))
                        and not (isinstance(s.value, ast.Constant) and s.value.value is None)]
            for n in walk_fn(f.node):
                deref = None
                if isinstance(n, ast.Attribute) and isinstance(n.value, ast.Name) and n.value.id == v \
                        and isinstance(n.ctx, ast.Load) and n.lineno > dfn.lineno:
                    deref = n
                if deref is None:
                    continue
                if fallback and any(fb.lineno < deref.lineno for fb in fallback):
                    continue
                facts = atomic_facts(deref)
                ok = any((pol and unparse(t) in (v + ' is not None', v)) or
                         ((not pol) and unparse(t) in (v + ' is None', 'not ' + v)) for t, pol in facts)
                if not ok:
                    out.append(Finding('G4', 'REFUTED', f.mod, enclosing_stmt(deref) or deref, f.key,
                                       '%s = %s(...) may be None (no unknown-spec configured) but %s '
                                       'is dereferenced without a None test: AttributeError'
                                       % (v, call_name(dfn.value), short(deref)),
                                       '%s: %s from %s' % (f.qual, short(deref), call_name(dfn.value))))
                    break
            # passed on to a callee that dereferences the parameter unconditionally
            for c in walk_fn(f.node):
                if isinstance(c, ast.Call) and c.lineno > dfn.lineno and any(
                        isinstance(a, ast.Name) and a.id == v for a in c.args):
                    if any((pol and unparse(t) in (v + ' is not None', v)) or
                           ((not pol) and unparse(t) in (v + ' is None',)) for t, pol in atomic_facts(c)):
                        continue
                    if fallback and any(fb.lineno < c.lineno for fb in fallback):
                        continue
                    idx = [i for i, a in enumerate(c.args) if isinstance(a, ast.Name) and a.id == v][0]
                    for g in prog.resolve(f, c):
                        ps = [a.arg for a in g.node.args.args]
                        if ps and ps[0] in ('self', 'cls'):
                            ps = ps[1:]
                        if idx >= len(ps):
                            continue
                        pn = ps[idx]
                        for n in walk_fn(g.node):
                            if isinstance(n, ast.Attribute) and isinstance(n.value, ast.Name) and \
                                    n.value.id == pn and isinstance(n.ctx, ast.Load):
                                facts = atomic_facts(n)
                                ok = any((pol and (pn + ' is not None') in unparse(t)) or
                                         (pol and unparse(t) == pn) or
                                         ((not pol) and unparse(t) == pn + ' is None') for t, pol in facts)
                                if not ok:
                                    out.append(Finding(
                                        'G4', 'REFUTED', g.mod, enclosing_stmt(n) or n, g.key,
                                        'parameter %s receives the result of %s(...) from %s, which '
                                        'may be None, and is dereferenced (%s) without a None test: '
                                        'AttributeError' % (pn, call_name(dfn.value), f.qual, short(n)),
                                        '%s: %s (None from %s)' % (g.qual, short(n), call_name(dfn.value))))
                                    break


# --------------------------------------------------------------------------- G5


def _g5(f, out):
    cmps = [c for c in walk_fn(f.node) if isinstance(c, ast.Compare) and len(c.ops) == 1]
    len_alias = {}
    for s in walk_fn(f.node):
        if isinstance(s, ast.Assign) and isinstance(s.targets[0], ast.Name) and \
                isinstance(s.value, ast.Call) and call_name(s.value) == 'len' and s.value.args:
            len_alias[s.targets[0].id] = unparse(s.value.args[0])
    for x in walk_fn(f.node):
        if not (isinstance(x, ast.Subscript) and isinstance(x.ctx, ast.Load)
                and not isinstance(x.slice, (ast.Slice, ast.Constant))):
            continue
        base = unparse(x.value)
        if base.rsplit('.', 1)[-1] not in ('s', 'chars', 'text'):
            continue
        idx = unparse(x.slice)
        lens = {'len(%s)' % base} | {k for k, v in len_alias.items() if v == base}

        def is_bound_cmp(c):
            l, r = unparse(c.left), unparse(c.comparators[0])
            return (l == idx and r in lens) or (r == idx and l in lens)
        rel = [c for c in cmps if is_bound_cmp(c)]
        if not rel:
            continue
        ok = False
        for t, pol in atomic_facts(x):
            if not (isinstance(t, ast.Compare) and len(t.ops) == 1 and is_bound_cmp(t)):
                continue
            l = unparse(t.left)
            op = t.ops[0]
            if l == idx:
                if (isinstance(op, ast.Lt) and pol) or (isinstance(op, ast.GtE) and not pol):
                    ok = True
            else:
                if (isinstance(op, ast.Gt) and pol) or (isinstance(op, ast.LtE) and not pol):
                    ok = True
        if not ok:
            out.append(Finding('G5', 'REFUTED', f.mod, enclosing_stmt(x) or x, f.key,
                               '%s is indexed at %s although the function itself compares %s with '
                               'the length (%s): on the path to this use the index is not known to '
                               'be in range -> IndexError at the end of the input'
                               % (base, idx, idx, '; '.join(sorted({short(c) for c in rel}))),
                               '%s: %s' % (f.qual, short(x))))


# --------------------------------------------------------------------------- G6


def unguarded_next(fnode):
    """next(<iterator>) with a single argument and outside a handler for StopIteration: raises
    StopIteration when the iterator is empty.  Yields the call."""
    for x in walk_fn(fnode):
        if isinstance(x, ast.Call) and isinstance(x.func, ast.Name) and x.func.id == 'next' and len(x.args) == 1 \
                and not x.keywords:
            caught = False
            for p_ in parents(x):
                if isinstance(p_, ast.Try) and any(x is n_ for b in p_.body for n_ in ast.walk(b)) and any(
                        h.type is None or any(nm in unparse(h.type) for nm in ('StopIteration', 'Exception'))
                        for h in p_.handlers):
                    caught = True
            if not caught:
                yield x


def _g6(f, out):
    for x in unguarded_next(f.node):
        out.append(Finding('G6', 'REFUTED', f.mod, enclosing_stmt(x) or x, f.key,
                           '%s has no default value and is not inside a handler for StopIteration: when the iterator '
                           'yields nothing (an empty node list: input ending in an empty unclosed group) StopIteration '
                           'escapes' % short(x, 60), '%s: %s' % (f.qual, short(x, 50))))
    _g6_minmax(f, out)


def _g6_minmax(f, out):
    for c in walk_fn(f.node):
        if isinstance(c, ast.Call) and isinstance(c.func, ast.Name) and c.func.id in ('max', 'min') \
                and len(c.args) == 1 and kwarg(c, 'default') is None:
            a = c.args[0]
            if isinstance(a, (ast.List, ast.Tuple)) and a.elts:
                continue
            txt = unparse(a)
            ok = any(pol and unparse(t) in (txt, 'len(%s)' % txt) for t, pol in atomic_facts(c))
            if not ok:
                out.append(Finding('G6', 'REFUTED', f.mod, enclosing_stmt(c) or c, f.key,
                                   '%s() of a single iterable without default= and without a '
                                   'dominating non-emptiness test: ValueError when the iterable is '
                                   'empty' % c.func.id, '%s: %s' % (f.qual, short(c, 70))))


# --------------------------------------------------------------------------- G7


def _len_fact_ok(facts, base, k):
    """Some dominating fact implies len(base) > k (k >= 0) / base non-empty (k == -1 or 0)."""
    alts = {base}
    if base.endswith('.nodelist'):
        alts.add(base[:-len('.nodelist')])
    need = k + 1 if k >= 0 else -k
    for t, pol in facts:
        txt = unparse(t)
        for b in alts:
            if pol and txt in (b, 'len(%s)' % b) and need <= 1:
                return True
            if (not pol) and txt in ('not %s' % b, 'not len(%s)' % b, 'len(%s) == 0' % b) and need <= 1:
                return True
            m = re.match(r'len\(%s\) (==|>=|>) (\d+)$' % re.escape(b), txt)
            if m and pol:
                n = int(m.group(2)) + (1 if m.group(1) == '>' else 0)
                if n >= need:
                    return True
            if pol and txt in ('len(%s) != 0' % b, 'len(%s) > 0' % b, '0 < len(%s)' % b, '0 != len(%s)' % b) and need <= 1:
                return True
            m = re.match(r'len\(%s\) (!=|<) (\d+)$' % re.escape(b), txt)
            if m and not pol:
                n = int(m.group(2))
                if m.group(1) == '!=' and n >= need:
                    return True
                if m.group(1) == '<' and n >= need:
                    return True
    return False


def min_len(e):
    """lower bound of the length of a list-valued expression (after substitution of locals)"""
    if isinstance(e, (ast.List, ast.Tuple)):
        return sum(0 if isinstance(x, ast.Starred) else 1 for x in e.elts)
    if isinstance(e, ast.IfExp):
        return min(min_len(e.body), min_len(e.orelse))
    if isinstance(e, ast.BinOp) and isinstance(e.op, ast.Add):
        # pad idiom:  A + [x] * (n - len(A))   has length >= n
        r = e.right
        if isinstance(r, ast.BinOp) and isinstance(r.op, ast.Mult):
            lst, cnt = (r.left, r.right) if isinstance(r.left, (ast.List, ast.Tuple)) else (r.right, r.left)
            if isinstance(lst, (ast.List, ast.Tuple)) and len(lst.elts) == 1 and \
                    isinstance(cnt, ast.BinOp) and isinstance(cnt.op, ast.Sub) and \
                    isinstance(cnt.left, ast.Constant) and isinstance(cnt.left.value, int) and \
                    isinstance(cnt.right, ast.Call) and unparse(cnt.right.func) == 'len' and \
                    len(cnt.right.args) == 1 and unparse(cnt.right.args[0]) == unparse(e.left):
                return max(cnt.left.value, min_len(e.left))
        return min_len(e.left) + min_len(e.right)
    if isinstance(e, ast.BinOp) and isinstance(e.op, ast.Mult):
        lst, cnt = (e.left, e.right) if isinstance(e.left, (ast.List, ast.Tuple)) else (e.right, e.left)
        if isinstance(cnt, ast.Constant) and isinstance(cnt.value, int) and cnt.value >= 0:
            return min_len(lst) * cnt.value
        return 0
    return 0


def _padded_enough(fnode, x, k):
    """is the list indexed at x long enough on every structural path, by construction of its
    value (literal, concatenation, pad idiom)"""
    from . import symex
    if k < 0:
        need = -k
    else:
        need = k + 1
    try:
        cases = symex.Walker(is_sink=lambda n: n is x, sink_types=(ast.Subscript,)).run(fnode)
    except (symex.TooManyPaths, RecursionError):
        return False
    return bool(cases) and all(min_len(c.sub.value) >= need for c in cases)


def _len_fact_on_paths(fnode, x, k):
    """the length fact holds on every structural path, with locals substituted (a boolean local
    such as `has_items = xs is not None and len(xs) > 0` counts through its definition)"""
    from . import symex
    try:
        cases = symex.Walker(is_sink=lambda n: n is x, sink_types=(ast.Subscript,)).run(fnode)
    except (symex.TooManyPaths, RecursionError):
        return False
    if not cases:
        return False
    for cs in cases:
        atoms = []
        for t, pol in list(cs.conds) + [(symex.subst(t_, cs.env), p_) for t_, p_ in short_circuit_facts(x)]:
            atoms.extend(symex._atoms(t, pol))
        if not _len_fact_ok(atoms, unparse(cs.sub.value), k):
            return False
    return True


def _g7(f, out):
    for x in walk_fn(f.node):
        if not (isinstance(x, ast.Subscript) and isinstance(x.ctx, ast.Load)):
            continue
        idx = x.slice
        k = None
        if isinstance(idx, ast.Constant) and isinstance(idx.value, int) and not isinstance(idx.value, bool):
            k = idx.value
        elif isinstance(idx, ast.UnaryOp) and isinstance(idx.op, ast.USub) and \
                isinstance(idx.operand, ast.Constant) and isinstance(idx.operand.value, int):
            k = -idx.operand.value
        if k is None:
            continue
        base = unparse(x.value)
        if not LISTY.search(base.rsplit('.', 1)[-1]):
            continue
        if g7_reviewed(f.node, f.qual, unparse(x)):
            continue
        facts = atomic_facts(x)
        if _len_fact_ok(facts, base, k):
            continue
        if isinstance(f.node, (ast.FunctionDef, ast.AsyncFunctionDef)) and _padded_enough(f.node, x, k):
            continue
        if isinstance(f.node, (ast.FunctionDef, ast.AsyncFunctionDef)) and _len_fact_on_paths(f.node, x, k):
            continue
        out.append(Finding('G7', 'REFUTED', f.mod, enclosing_stmt(x) or x, f.key,
                           '%s is indexed with the constant %d but no dominating test shows the '
                           'list is long enough (facts here: %s): IndexError when it is shorter '
                           '(e.g. a macro taken as a single-token argument has no arguments)'
                           % (base, k, [('' if p else 'not ') + short(t, 40) for t, p in facts][-3:]),
                           '%s: %s' % (f.qual, unparse(x))))


def shrinking_loops(fnode):
    """`while <test reading X[k]>:` whose body removes elements of X (pop / remove / del / re-slicing) and whose test
    does not first establish that X is non-empty: when every element passes the test the list runs empty and the
    test itself raises IndexError.  Yields (subscript, list name, loop)."""
    for lp in [l for l in walk_fn(fnode) if isinstance(l, ast.While)]:
        for x in ast.walk(lp.test):
            if not (isinstance(x, ast.Subscript) and isinstance(x.value, ast.Name) and isinstance(x.ctx, ast.Load)):
                continue
            idx = x.slice
            if isinstance(idx, ast.UnaryOp) and isinstance(idx.op, ast.USub):
                idx = idx.operand
            if not (isinstance(idx, ast.Constant) and isinstance(idx.value, int)):
                continue
            nm = x.value.id
            shrinks = False
            for st in lp.body:
                for n in ast.walk(st):
                    if isinstance(n, ast.Call) and isinstance(n.func, ast.Attribute) and isinstance(n.func.value, ast.Name) \
                            and n.func.value.id == nm and n.func.attr in ('pop', 'remove', 'popleft', 'clear'):
                        shrinks = True
                    elif isinstance(n, ast.Delete) and any(isinstance(t, ast.Subscript) and isinstance(t.value, ast.Name)
                                                           and t.value.id == nm for t in n.targets):
                        shrinks = True
                    elif isinstance(n, ast.Assign) and any(isinstance(t, ast.Name) and t.id == nm for t in n.targets) and \
                            isinstance(n.value, ast.Subscript) and isinstance(n.value.slice, ast.Slice) and \
                            isinstance(n.value.value, ast.Name) and n.value.value.id == nm:
                        shrinks = True
            if not shrinks:
                continue
            facts = [(unparse(a), p) for t, pol in short_circuit_facts(x) for a, p in _atoms_of(t, pol)]
            k = idx.value
            ok = any(p and (t == nm or t == 'len(%s)' % nm or re.match(r'len\(%s\) (>|>=|!=) \d+$' % re.escape(nm), t))
                     for t, p in facts) or any((not p) and t in ('not %s' % nm, 'len(%s) == 0' % nm) for t, p in facts)
            if not ok:
                yield x, nm, lp


def _atoms_of(t, pol):
    from . import symex
    return symex._atoms(t, pol)


def _g7b(f, out):
    if not isinstance(f.node, (ast.FunctionDef, ast.AsyncFunctionDef)):
        return
    for x, nm, lp in shrinking_loops(f.node):
        out.append(Finding('G7', 'REFUTED', f.mod, lp, f.key,
                           'the loop at line %d removes elements of %s and reads %s in its own condition without first '
                           'testing that %s is non-empty: when every element passes the test (an empty or all-blank block, '
                           'e.g. the body of an empty display formula) the list runs empty and the condition raises IndexError'
                           % (lp.lineno, nm, unparse(x), nm), '%s: while %s shrinks %s' % (f.qual, short(lp.test, 40), nm)))


def _g7c(f, out):
    """`X[k]` on a local bound to an attribute that the module initialises with an empty list (a stack kept on another
    object, fetched with getattr(o, 'A', None) or o.A): `X is not None` says nothing about its length"""
    if not isinstance(f.node, (ast.FunctionDef, ast.AsyncFunctionDef)):
        return
    empties = None
    for x in walk_fn(f.node):
        if not (isinstance(x, ast.Subscript) and isinstance(x.value, ast.Name)):
            continue
        idx = x.slice
        k = None
        if isinstance(idx, ast.Constant) and isinstance(idx.value, int) and not isinstance(idx.value, bool):
            k = idx.value
        elif isinstance(idx, ast.UnaryOp) and isinstance(idx.op, ast.USub) and isinstance(idx.operand, ast.Constant) \
                and isinstance(idx.operand.value, int):
            k = -idx.operand.value
        if k is None or LISTY.search(x.value.id):
            continue
        nm = x.value.id
        attrs = set()
        for a in walk_fn(f.node):
            if isinstance(a, ast.Assign) and any(isinstance(t, ast.Name) and t.id == nm for t in a.targets):
                v = a.value
                if isinstance(v, ast.Call) and isinstance(v.func, ast.Name) and v.func.id == 'getattr' and len(v.args) >= 2 \
                        and isinstance(v.args[1], ast.Constant) and isinstance(v.args[1].value, str):
                    attrs.add(v.args[1].value)
                elif isinstance(v, ast.Attribute):
                    attrs.add(v.attr)
                for t in a.targets:
                    if isinstance(t, ast.Attribute):
                        attrs.add(t.attr)
        if not attrs:
            continue
        if empties is None:
            empties = set()
            for a in ast.walk(f.mod.tree):
                if isinstance(a, ast.Assign) and ((isinstance(a.value, ast.List) and not a.value.elts) or (
                        isinstance(a.value, ast.Call) and isinstance(a.value.func, ast.Name) and a.value.func.id == 'list'
                        and not a.value.args)):
                    empties |= {t.attr for t in a.targets if isinstance(t, ast.Attribute)}
        hit = sorted(attrs & empties)
        if not hit:
            continue
        facts = atomic_facts(x)
        if _len_fact_ok(facts, nm, k) or _len_fact_on_paths(f.node, x, k):
            continue
        out.append(Finding('G7', 'REFUTED', f.mod, enclosing_stmt(x) or x, f.key,
                           '%s is the list kept in .%s, which starts out (and ends up, once everything pushed was popped) '
                           'empty; %s is read with no test that it is non-empty (facts here: %s -- `is not None` does not '
                           'make it non-empty): IndexError' % (nm, hit[0], unparse(x),
                                                               [('' if p else 'not ') + short(t, 40) for t, p in facts][-3:]),
                           '%s: %s' % (f.qual, unparse(x))))


# --------------------------------------------------------------------------- G12


def ambiguous_nested_repeats(pattern):
    """[description] for every unbounded repeat whose body is an unbounded repeat followed/preceded
    only by parts that can match the empty string: the same text can be split between the inner
    and the outer repetition in exponentially many ways (catastrophic backtracking on a
    non-matching input).  Uses the standard library's regex parser; nothing is matched."""
    import re._parser as sp
    try:
        parsed = sp.parse(pattern)
    except Exception:
        return []
    MAXREP = sp.MAXREPEAT
    out = []

    def can_be_empty(item):
        op, av = item
        opn = str(op)
        if opn in ('MAX_REPEAT', 'MIN_REPEAT'):
            return av[0] == 0 or all(can_be_empty(x) for x in av[2])
        if opn == 'SUBPATTERN':
            return all(can_be_empty(x) for x in av[3])
        if opn == 'BRANCH':
            return any(all(can_be_empty(x) for x in br) for br in av[1])
        if opn in ('ASSERT', 'ASSERT_NOT', 'AT'):
            return True
        return False

    def flat(items):
        res = []
        for it in items:
            if str(it[0]) == 'SUBPATTERN':
                res.extend(flat(list(it[1][3])))
            else:
                res.append(it)
        return res

    def walk(items):
        for op, av in items:
            opn = str(op)
            if opn in ('MAX_REPEAT', 'MIN_REPEAT'):
                lo, hi, sub = av
                body = flat(list(sub))
                if hi == MAXREP:
                    inner = [x for x in body if str(x[0]) in ('MAX_REPEAT', 'MIN_REPEAT') and x[1][1] == MAXREP
                             and not can_be_empty(x)]
                    others = [x for x in body if not any(x is y for y in inner)]
                    if inner and all(can_be_empty(x) for x in others):
                        out.append('an unbounded repetition whose body is itself an unbounded repetition '
                                   'plus optional parts only')
                walk(list(sub))
            elif opn == 'SUBPATTERN':
                walk(list(av[3]))
            elif opn == 'BRANCH':
                for br in av[1]:
                    walk(list(br))
            elif opn in ('ASSERT', 'ASSERT_NOT'):
                walk(list(av[1]))
    walk(list(parsed))
    return out


def regex_findings(repo):
    """(module, call node, pattern, description) for every ambiguous regex literal of the package"""
    res = []
    for mod in repo.modules.values():
        if 'uni2latexmap' in mod.name:
            continue
        for c in ast.walk(mod.tree):
            if isinstance(c, ast.Call) and call_name(c) in ('compile', 'match', 'search', 'sub', 'fullmatch',
                                                             'split', 'findall', 'finditer') and c.args and \
                    isinstance(c.args[0], ast.Constant) and isinstance(c.args[0].value, str) and \
                    call_recv(c) is not None and unparse(call_recv(c)) == 're':
                for d in ambiguous_nested_repeats(c.args[0].value):
                    res.append((mod, c, c.args[0].value, d))
    return res


# --------------------------------------------------------------------------- G4c


def _g4c(f, out):
    """contradiction rule: the function compares a name with None somewhere (so it believes the
    value may be None) and takes len() of the same name where no non-None fact dominates and the
    name was not re-bound under the None test"""
    if not isinstance(f.node, (ast.FunctionDef, ast.AsyncFunctionDef)):
        return
    tested = {}
    for c in walk_fn(f.node):
        if isinstance(c, ast.Compare) and len(c.ops) == 1 and isinstance(c.ops[0], (ast.Is, ast.IsNot)) and \
                isinstance(c.comparators[0], ast.Constant) and c.comparators[0].value is None and \
                isinstance(c.left, ast.Name):
            tested.setdefault(c.left.id, []).append(c)
    if not tested:
        return
    for u in walk_fn(f.node):
        if not (isinstance(u, ast.Call) and isinstance(u.func, ast.Name) and u.func.id == 'len' and u.args
                and isinstance(u.args[0], ast.Name) and u.args[0].id in tested):
            continue
        name = u.args[0].id
        facts = [(unparse(t), p) for t, p in atomic_facts(u)] + \
                [(unparse(t), p) for t, p in short_circuit_facts(u)]
        if any((t == name + ' is not None' and p) or (t == name + ' is None' and not p) or (t == name and p)
               or (t == 'not ' + name and not p) for t, p in facts):
            continue
        assigns = [a for a in walk_fn(f.node) if isinstance(a, (ast.Assign, ast.AugAssign)) and any(
            isinstance(t, ast.Name) and t.id == name for t in (a.targets if isinstance(a, ast.Assign) else [a.target]))]
        if any(a.lineno < u.lineno and any(unparse(t2) == name + ' is None' and p2 for t2, p2 in atomic_facts(a))
               for a in assigns):
            continue
        out.append(Finding('G4', 'REFUTED', f.mod, enclosing_stmt(u) or u, f.key,
                           '%s is compared with None in this function (line %d), so it may be None, but '
                           'len(%s) is evaluated where no non-None fact dominates: TypeError'
                           % (name, tested[name][0].lineno, name), '%s: len(%s)' % (f.qual, name)))


# --------------------------------------------------------------------------- G17


def loop_shadowing(fnode):
    """a for-loop target re-binds a name that holds a value computed before the loop, and that
    name is read again after the loop without having been assigned in between: after the loop
    it denotes the last element, not the earlier value.  Yields (read node, name, loop)."""
    if not isinstance(fnode, (ast.FunctionDef, ast.AsyncFunctionDef)):
        return
    body_nodes = list(walk_fn(fnode))
    assigns = {}
    for st in body_nodes:
        if isinstance(st, (ast.Assign, ast.AugAssign, ast.AnnAssign)):
            tg = st.targets if isinstance(st, ast.Assign) else [st.target]
            for t in tg:
                for n in ast.walk(t):
                    if isinstance(n, ast.Name) and isinstance(n.ctx, ast.Store):
                        assigns.setdefault(n.id, []).append(st.lineno)
    params = {a.arg for a in fnode.args.args} | {a.arg for a in fnode.args.kwonlyargs}
    for lp in [l for l in body_nodes if isinstance(l, ast.For)]:
        tnames = {n.id for n in ast.walk(lp.target) if isinstance(n, ast.Name)}
        end = max(getattr(n, 'end_lineno', getattr(n, 'lineno', lp.lineno)) or lp.lineno for n in ast.walk(lp))
        # only loops at function level or in a block whose continuation is the rest of the function
        for name in sorted(tnames):
            before = [ln for ln in assigns.get(name, []) if ln < lp.lineno] or ([fnode.lineno] if name in params else [])
            if not before or name == '_':
                continue
            reads = [n for n in body_nodes if isinstance(n, ast.Name) and n.id == name and isinstance(n.ctx, ast.Load)
                     and n.lineno > end]
            for rd in reads:
                between = [ln for ln in assigns.get(name, []) if end < ln <= rd.lineno]
                inner_loops = [l2 for l2 in body_nodes if isinstance(l2, ast.For) and l2 is not lp and
                               name in {x.id for x in ast.walk(l2.target) if isinstance(x, ast.Name)} and
                               l2.lineno > end and any(rd is x for x in ast.walk(l2))]
                if not between and not inner_loops:
                    yield rd, name, lp
                    break


# --------------------------------------------------------------------------- G4d


def loop_var_none_deref(fnode):
    """a loop variable that the loop body itself compares with None (so the sequence may hold
    None placeholders) has an attribute read on a path of the body on which no `is not None` fact
    holds.  Per path (E7).  Yields (attribute node, variable, path text)."""
    from . import symex
    for lp in [l for l in walk_fn(fnode) if isinstance(l, ast.For) and isinstance(l.target, ast.Name)]:
        v = lp.target.id
        if not any(isinstance(c, ast.Compare) and len(c.ops) == 1 and isinstance(c.ops[0], (ast.Is, ast.IsNot))
                   and isinstance(c.left, ast.Name) and c.left.id == v and isinstance(c.comparators[0], ast.Constant)
                   and c.comparators[0].value is None for st in lp.body for c in ast.walk(st)):
            continue
        if any(isinstance(x, ast.Name) and x.id == v and isinstance(x.ctx, ast.Store) for st in lp.body for x in ast.walk(st)):
            continue
        try:
            cases = symex.Walker(is_sink=lambda n: isinstance(n, ast.Attribute) and isinstance(n.value, ast.Name)
                                 and n.value.id == v and isinstance(n.ctx, ast.Load),
                                 sink_types=(ast.Attribute,)).run_block(lp.body)
        except (symex.TooManyPaths, RecursionError):
            continue
        seen = set()
        for cs in cases:
            if id(cs.node) in seen:
                continue
            atoms = []
            for t, pol in list(cs.conds) + [(t_, p_) for t_, p_ in short_circuit_facts(cs.node)]:
                atoms.extend((unparse(a), ap) for a, ap in symex._atoms(t, pol))
            ok = any((t == v + ' is not None' and p) or (t == v + ' is None' and not p) or (t == v and p)
                     or (t.startswith('isinstance(%s,' % v) and p) for t, p in atoms)
            if not ok:
                seen.add(id(cs.node))
                yield cs.node, v, ' & '.join(cs.cond_src())[-120:]


def _g4d(f, out):
    if not isinstance(f.node, (ast.FunctionDef, ast.AsyncFunctionDef)):
        return
    for x, v, path in loop_var_none_deref(f.node):
        out.append(Finding('G4', 'REFUTED', f.mod, enclosing_stmt(x) or x, f.key,
                           'the loop compares %s with None (the list may hold None placeholders) but reads %s on the path '
                           '[%s], where it may still be None: AttributeError' % (v, short(x, 40), path),
                           '%s: %s on a possibly-None element' % (f.qual, short(x, 40))))


# --------------------------------------------------------------------------- G5b

MAYBE_EMPTY = ('strip', 'lstrip', 'rstrip', 'replace')


def short_circuit_facts(node):
    """facts established by earlier operands of the and/or chains that contain `node` inside one
    expression: in `a or b`, b is evaluated only when a is false"""
    out = []
    child = node
    par = getattr(node, '_parent', None)
    while par is not None and isinstance(par, ast.expr):
        if isinstance(par, ast.BoolOp):
            idx = [i for i, v in enumerate(par.values) if v is child]
            if idx:
                for v in par.values[:idx[0]]:
                    out.append((v, isinstance(par.op, ast.And)))
        elif isinstance(par, ast.IfExp):
            if par.body is child:
                out.append((par.test, True))
            elif par.orelse is child:
                out.append((par.test, False))
        child, par = par, getattr(par, '_parent', None)
    return out


def _g5b(f, out):
    """x[<const>] where x is the result of strip()/replace() (may be empty) and no emptiness test
    of THAT value dominates (a test of the value before stripping does not count)"""
    if not isinstance(f.node, (ast.FunctionDef, ast.AsyncFunctionDef)):
        return
    subs = [x for x in walk_fn(f.node) if isinstance(x, ast.Subscript) and isinstance(x.ctx, ast.Load)
            and isinstance(x.slice, ast.Constant) and isinstance(x.slice.value, int)
            and not isinstance(x.slice.value, bool) and isinstance(x.value, ast.Name)]
    if not subs:
        return
    strips = [c for c in walk_fn(f.node) if isinstance(c, ast.Call) and call_name(c) in MAYBE_EMPTY]
    if not strips:
        return
    from . import symex
    try:
        cases = symex.Walker(is_sink=lambda n: any(n is x for x in subs), sink_types=(ast.Subscript,)).run(f.node)
    except (symex.TooManyPaths, RecursionError):
        return
    seen = set()
    for cs in cases:
        v = cs.sub.value
        d = symex.resolve(v, cs.env)
        if not (isinstance(d, ast.Call) and call_name(d) in MAYBE_EMPTY):
            continue
        sym = unparse(v)
        facts = symex.facts_of(list(cs.conds) + short_circuit_facts(cs.node))
        ok = any((t_ == sym and p_) or (t_ == 'len(%s) <= 2' % sym and not p_) or
                 (t_.startswith('len(%s) <' % sym) and not p_) or (t_ == 'len(%s)' % sym and p_) or
                 (t_.startswith('len(%s) ' % sym) and p_) or (t_ == "%s == ''" % sym and not p_)
                 for t_, p_ in facts)
        if ok or id(cs.node) in seen:
            continue
        seen.add(id(cs.node))
        out.append(Finding('G5', 'REFUTED', f.mod, enclosing_stmt(cs.node) or cs.node, f.key,
                           '%s indexes the result of %s, which is empty for an empty or whitespace-only '
                           'text, and no emptiness test of that result dominates (a test of the text '
                           'before it was stripped does not help): IndexError'
                           % (unparse(cs.node), short(d, 50)), '%s: %s' % (f.qual, unparse(cs.node))))


# --------------------------------------------------------------------------- G11

PARTIAL_UNICODEDATA = {'name': 'ValueError', 'decimal': 'ValueError', 'digit': 'ValueError',
                       'numeric': 'ValueError'}


def partial_calls(fnode):
    """calls of standard-library functions that raise for some arguments of their documented
    domain unless a default is passed: unicodedata.name(c) raises ValueError for every code point
    without a name (controls, private use, unassigned).  Yields (call, exception name)."""
    for x in walk_fn(fnode):
        if isinstance(x, ast.Call) and isinstance(x.func, ast.Attribute) and \
                isinstance(x.func.value, ast.Name) and x.func.value.id == 'unicodedata' and \
                x.func.attr in PARTIAL_UNICODEDATA and len(x.args) == 1 and not x.keywords:
            exc = PARTIAL_UNICODEDATA[x.func.attr]
            caught = False
            for p_ in parents(x):
                if isinstance(p_, ast.Try) and any(x is n_ for b in p_.body for n_ in ast.walk(b)) and any(
                        h.type is None or any(nm in unparse(h.type) for nm in (exc, 'Exception'))
                        for h in p_.handlers):
                    caught = True
            if not caught:
                yield x, exc


def _g11(f, out):
    for x, exc in partial_calls(f.node):
        out.append(Finding('G11', 'REFUTED', f.mod, enclosing_stmt(x) or x, f.key,
                           '%s has no default and is not inside a handler for %s: it raises for every '
                           'character without a Unicode name (control characters, private-use and '
                           'unassigned code points)' % (unparse(x), exc), '%s: %s' % (f.qual, unparse(x))))


# --------------------------------------------------------------------------- G16


_UNHASHABLE = ('dict', 'list', 'set')


def _maybe_unhashable_params(mod):
    """{function name: {parameter index: type name}} for module-level functions that test a
    parameter with isinstance(p, dict/list/set): their callers may pass such a value"""
    d = getattr(mod, '_g16_params', None)
    if d is None:
        d = {}
        for q, f in mod.functions.items():
            if '.' in q or not isinstance(f, ast.FunctionDef):
                continue
            ps = [a.arg for a in f.args.args]
            for c in ast.walk(f):
                if isinstance(c, ast.Call) and isinstance(c.func, ast.Name) and c.func.id == 'isinstance' and \
                        len(c.args) == 2 and isinstance(c.args[0], ast.Name) and c.args[0].id in ps:
                    tys = c.args[1].elts if isinstance(c.args[1], ast.Tuple) else [c.args[1]]
                    for t in tys:
                        if isinstance(t, ast.Name) and t.id in _UNHASHABLE:
                            d.setdefault(q, {})[ps.index(c.args[0].id)] = t.id
        mod._g16_params = d
    return d


def unhashable_keys(mod, fnode):
    """a local that the code itself treats as possibly a dict/list/set -- isinstance() test on it, or
    it is handed to a module function that tests the corresponding parameter that way -- is used
    as a dictionary key (D[k], `k in D` with a dict display / dict attribute created as {}).
    Yields (key use node, name, why)."""
    hp = _maybe_unhashable_params(mod)
    belief = {}
    for c in walk_fn(fnode):
        if isinstance(c, ast.Call) and isinstance(c.func, ast.Name):
            if c.func.id == 'isinstance' and len(c.args) == 2 and isinstance(c.args[0], ast.Name):
                tys = c.args[1].elts if isinstance(c.args[1], ast.Tuple) else [c.args[1]]
                for t in tys:
                    if isinstance(t, ast.Name) and t.id in _UNHASHABLE:
                        belief[c.args[0].id] = 'isinstance(%s, %s) is tested' % (c.args[0].id, t.id)
            elif c.func.id in hp:
                for i, a in enumerate(c.args):
                    if isinstance(a, ast.Name) and i in hp[c.func.id]:
                        belief.setdefault(a.id, 'it is passed to %s(), which tests isinstance(.., %s)'
                                          % (c.func.id, hp[c.func.id][i]))
    if not belief:
        return
    for x in walk_fn(fnode):
        if isinstance(x, ast.Subscript) and isinstance(x.slice, ast.Name) and x.slice.id in belief:
            base = x.value
            # only containers that are dictionaries by construction: an attribute / name that is
            # bound to {} or dict() somewhere in the module
            bn = base.attr if isinstance(base, ast.Attribute) else (base.id if isinstance(base, ast.Name) else None)
            if bn is None:
                continue
            isdict = any(isinstance(st, ast.Assign) and any(
                (isinstance(t, ast.Name) and t.id == bn) or (isinstance(t, ast.Attribute) and t.attr == bn)
                for t in st.targets) and (
                (isinstance(st.value, ast.Dict)) or (isinstance(st.value, ast.Call) and call_name(st.value) == 'dict'))
                for st in ast.walk(mod.tree))
            if not isdict:
                continue
            # path facts: under `not isinstance(k, dict)` or a positive test for another type the
            # key is not that container
            excluded = False
            for t, pol in atomic_facts(x):
                if isinstance(t, ast.Call) and isinstance(t.func, ast.Name) and t.func.id == 'isinstance' and \
                        len(t.args) == 2 and isinstance(t.args[0], ast.Name) and t.args[0].id == x.slice.id:
                    tys = [unparse(e) for e in (t.args[1].elts if isinstance(t.args[1], ast.Tuple) else [t.args[1]])]
                    if (not pol and any(ty in _UNHASHABLE for ty in tys)) or \
                            (pol and not any(ty in _UNHASHABLE for ty in tys)):
                        excluded = True
            if not excluded:
                yield x, x.slice.id, belief[x.slice.id]


def _g16(f, out):
    seen = set()
    for x, name, why in unhashable_keys(f.mod, f.node):
        if name in seen:
            continue
        seen.add(name)
        out.append(Finding('G16', 'REFUTED', f.mod, enclosing_stmt(x) or x, f.key,
                           '%s is used as a dictionary key (%s) although %s: when it is a dict the lookup raises '
                           'TypeError (unhashable type)' % (name, short(x, 50), why),
                           '%s: %s as dictionary key' % (f.qual, name)))


# --------------------------------------------------------------------------- G15


def unchecked_find(fnode):
    """the result of str.find()/rfind() bound to a local is used as a number (slice bound, index,
    operand of + or -, returned) on a path on which it was never compared with -1 / 0: "not found"
    (-1) is then used as a position.  Per path, with re-bound names told apart (E7).
    Yields (use node, variable, defining call, path text)."""
    from . import symex
    if not isinstance(fnode, (ast.FunctionDef, ast.AsyncFunctionDef)):
        return
    cands = set()
    for st in walk_fn(fnode):
        if isinstance(st, ast.Assign) and len(st.targets) == 1 and isinstance(st.targets[0], ast.Name) and \
                isinstance(st.value, ast.Call) and call_name(st.value) in ('find', 'rfind') and call_recv(st.value) is not None:
            cands.add(st.targets[0].id)
    if not cands:
        return

    def numeric_use(n):
        par = getattr(n, '_parent', None)
        if isinstance(par, ast.Slice):
            return True
        if isinstance(par, ast.BinOp) and isinstance(par.op, (ast.Add, ast.Sub)):
            return True
        if isinstance(par, ast.Subscript) and par.slice is n:
            return True
        if isinstance(par, ast.Return) or (isinstance(par, ast.Tuple) and isinstance(getattr(par, '_parent', None), ast.Return)):
            return True
        return False
    try:
        cases = symex.Walker(is_sink=lambda n: isinstance(n, ast.Name) and n.id in cands and isinstance(n.ctx, ast.Load)
                             and numeric_use(n), sink_types=(ast.Name,)).run(fnode)
    except (symex.TooManyPaths, RecursionError):
        return
    seen = set()
    for cs in cases:
        sym = cs.sub
        if not isinstance(sym, ast.Name):
            continue
        d = cs.env.get('#def', {}).get(sym.id)
        if not (isinstance(d, ast.Call) and call_name(d) in ('find', 'rfind')):
            continue
        checked = False
        recv_, arg0_ = unparse(call_recv(d)), (unparse(d.args[0]) if d.args else None)
        conds_ = list(cs.conds) + [(symex.subst(t_, cs.env), p_) for t_, p_ in short_circuit_facts(cs.node)]
        for t, pol in conds_:
            for a, ap in symex._atoms(t, pol):
                if isinstance(a, ast.Compare) and len(a.ops) == 1:
                    l_, r_ = a.left, a.comparators[0]
                    if isinstance(r_, ast.Name) and r_.id == sym.id:
                        l_, r_ = r_, l_
                    if isinstance(l_, ast.Name) and l_.id == sym.id:
                        rv = unparse(r_).replace(' ', '')
                        if rv in ('-1', '0') or rv.startswith('len('):
                            checked = True
                    # `R.count(A) >= k` (k >= 1) on the same receiver and argument: A occurs, find() succeeds
                    if ap and isinstance(a.left, ast.Call) and call_name(a.left) == 'count' and call_recv(a.left) is not None \
                            and unparse(call_recv(a.left)) == recv_ and a.left.args and unparse(a.left.args[0]) == arg0_ \
                            and isinstance(a.ops[0], (ast.GtE, ast.Gt)) and isinstance(a.comparators[0], ast.Constant) \
                            and isinstance(a.comparators[0].value, int) and \
                            a.comparators[0].value >= (1 if isinstance(a.ops[0], ast.GtE) else 0):
                        checked = True
        if not checked and id(cs.node) not in seen:
            seen.add(id(cs.node))
            yield cs.node, sym.id.split('@')[0], d, ' & '.join(cs.cond_src())[-120:]


def _g15(f, out):
    for use, name, d, path in unchecked_find(f.node):
        out.append(Finding('G15', 'REFUTED', f.mod, enclosing_stmt(use) or use, f.key,
                           '%s = %s is used as a position (%s) on the path [%s] without having been compared with -1: '
                           'when nothing is found the -1 is taken for a position (a slice that stops one character '
                           'early, a negative length that moves the reader backwards -- the same input is then parsed '
                           'again for ever)' % (name, short(d, 50), short(enclosing_stmt(use) or use, 60), path),
                           '%s: %s from %s' % (f.qual, name, short(d, 40))))


# --------------------------------------------------------------------------- G14


_LIT_TYPES = {ast.List: list, ast.Tuple: tuple, ast.Dict: dict, ast.Set: set}


def _literal_type(e):
    if type(e) in _LIT_TYPES:
        return _LIT_TYPES[type(e)]
    if isinstance(e, ast.Constant) and isinstance(e.value, (str, bytes, int, float)) and not isinstance(e.value, bool):
        return type(e.value)
    return None


def default_type_mismatch(fnode):
    """a local bound to `D.pop(k, <literal>)` / `D.get(k, <literal>)` / `getattr(o, n, <literal>)` and
    never re-bound has a method called on it that the literal's type does not have: AttributeError
    whenever the default is taken.  Yields (use node, variable, literal text, method)."""
    binds = {}
    for st in walk_fn(fnode):
        if isinstance(st, ast.Assign) and len(st.targets) == 1 and isinstance(st.targets[0], ast.Name):
            binds.setdefault(st.targets[0].id, []).append(st)
        elif isinstance(st, (ast.AugAssign, ast.For, ast.With)):
            for n in ast.walk(st.target if isinstance(st, (ast.AugAssign, ast.For)) else st):
                if isinstance(n, ast.Name) and isinstance(n.ctx, ast.Store):
                    binds.setdefault(n.id, []).append(st)
    for name, sts in binds.items():
        if len(sts) != 1 or not isinstance(sts[0], ast.Assign):
            continue
        v = sts[0].value
        lit = None
        if isinstance(v, ast.Call) and call_name(v) in ('pop', 'get') and len(v.args) == 2 and call_recv(v) is not None:
            lit = v.args[1]
        elif isinstance(v, ast.Call) and isinstance(v.func, ast.Name) and v.func.id == 'getattr' and len(v.args) == 3:
            lit = v.args[2]
        if lit is None:
            continue
        ty = _literal_type(lit)
        if ty is None:
            continue
        for x in walk_fn(fnode):
            if isinstance(x, ast.Attribute) and isinstance(x.ctx, ast.Load) and isinstance(x.value, ast.Name) \
                    and x.value.id == name and not hasattr(ty, x.attr):
                yield x, name, unparse(lit), x.attr, ty.__name__, sts[0]


def _g14(f, out):
    for x, name, lit, attr, tyname, bind in default_type_mismatch(f.node):
        out.append(Finding('G14', 'REFUTED', f.mod, enclosing_stmt(x) or x, f.key,
                           '%s is bound by `%s` and then %s.%s is used: the default %s is a %s, which has no '
                           'attribute %s -- AttributeError whenever the key is absent'
                           % (name, short(bind, 70), name, attr, lit, tyname, attr),
                           '%s: %s.%s with default %s' % (f.qual, name, attr, lit)))


# --------------------------------------------------------------------------- G10


def _module_dict_literals(mod):
    d = getattr(mod, '_g10_dicts', None)
    if d is None:
        d = {}
        for st in mod.tree.body:
            if isinstance(st, ast.Assign) and len(st.targets) == 1 and isinstance(st.targets[0], ast.Name) \
                    and isinstance(st.value, ast.Dict) and st.value.keys and \
                    all(isinstance(k, ast.Constant) for k in st.value.keys):
                d[st.targets[0].id] = {k.value for k in st.value.keys}
        # a table that is also written to (cache) is not a fixed table
        for n in ast.walk(mod.tree):
            if isinstance(n, ast.Subscript) and isinstance(n.ctx, (ast.Store, ast.Del)) and \
                    isinstance(n.value, ast.Name):
                d.pop(n.value.id, None)
            if isinstance(n, ast.Call) and call_name(n) in ('update', 'setdefault', 'pop', 'clear') and \
                    call_recv(n) is not None and isinstance(call_recv(n), ast.Name):
                d.pop(call_recv(n).id, None)
        mod._g10_dicts = d
    return d


def _g10(f, out):
    """D[k] on a fixed module-level table with a key that is not a literal member: KeyError
    unless a membership test dominates or KeyError is caught around it"""
    dicts = _module_dict_literals(f.mod)
    if not dicts:
        return
    for x in walk_fn(f.node):
        if not (isinstance(x, ast.Subscript) and isinstance(x.ctx, ast.Load)
                and isinstance(x.value, ast.Name) and x.value.id in dicts):
            continue
        keys = dicts[x.value.id]
        k = x.slice
        if isinstance(k, ast.Constant):
            if k.value in keys:
                continue
            out.append(Finding('G10', 'REFUTED', f.mod, enclosing_stmt(x) or x, f.key,
                               'the fixed table %s has no key %r: KeyError' % (x.value.id, k.value),
                               '%s: %s' % (f.qual, unparse(x))))
            continue
        kt = unparse(k)
        facts = atomic_facts(x)
        if any((pol and unparse(t) == '%s in %s' % (kt, x.value.id)) or
               ((not pol) and unparse(t) == '%s not in %s' % (kt, x.value.id)) for t, pol in facts):
            continue
        caught = False
        for p_ in parents(x):
            if isinstance(p_, ast.Try) and any(
                    h.type is None or any(nm in unparse(h.type) for nm in ('KeyError', 'LookupError', 'Exception'))
                    for h in p_.handlers) and any(x is n_ for b in p_.body for n_ in ast.walk(b)):
                caught = True
        if caught:
            continue
        # value set of the key: literals passed at every in-package call site (through
        # parameters, defaults and closure variables); a provably covered key is fine, an
        # unknown value set is not reported (only definite misses are)
        vals = _expr_values(_REPO[0], k, f.node, 0) if _REPO[0] is not None else None
        if vals is None:
            continue
        missing = sorted(str(v) for v in vals if v not in keys)
        if not missing:
            continue
        out.append(Finding('G10', 'REFUTED', f.mod, enclosing_stmt(x) or x, f.key,
                           'the fixed table %s (keys %s) is subscripted with %s, which takes the values '
                           '%s at the call sites in the package, without a membership test and without '
                           'catching KeyError: KeyError (sibling tables are read with .get and a default)'
                           % (x.value.id, sorted(map(str, keys))[:8], kt, missing[:8]),
                           '%s: %s' % (f.qual, unparse(x))))


def _all_calls(repo):
    idx = getattr(repo, '_g10_calls', None)
    if idx is None:
        idx = {}
        for mod in repo.modules.values():
            for n in ast.walk(mod.tree):
                if isinstance(n, ast.Call):
                    idx.setdefault(call_name(n), []).append(n)
        repo._g10_calls = idx
    return idx


def _expr_values(repo, e, fnode, depth):
    """set of constants the expression can evaluate to inside function fnode, or None"""
    if depth > 14:
        return None
    if isinstance(e, ast.Constant):
        return {e.value}
    if isinstance(e, ast.IfExp):
        a, b = _expr_values(repo, e.body, fnode, depth + 1), _expr_values(repo, e.orelse, fnode, depth + 1)
        return None if a is None or b is None else a | b
    if not isinstance(e, ast.Name) or fnode is None or isinstance(fnode, ast.Module):
        return None
    name = e.id
    args = fnode.args
    allp = list(getattr(args, 'posonlyargs', [])) + list(args.args) + list(args.kwonlyargs)
    pnames = [a.arg for a in allp]
    # re-bound inside the function: unknown
    for n in walk_fn(fnode):
        if isinstance(n, ast.Name) and n.id == name and isinstance(n.ctx, (ast.Store, ast.Del)):
            if name in pnames:
                return None
            # single constant assignment of a local
            defs = [s_ for s_ in walk_fn(fnode) if isinstance(s_, ast.Assign) and any(
                isinstance(t, ast.Name) and t.id == name for t in s_.targets)]
            if len(defs) == 1:
                return _expr_values(repo, defs[0].value, fnode, depth + 1)
            return None
    if name in pnames:
        return _param_values(repo, fnode, name, depth + 1)
    # free variable: parameter / local of an enclosing function
    outer = enclosing_func(fnode)
    if outer is not None:
        return _expr_values(repo, e, outer, depth + 1)
    return None


def _param_values(repo, fnode, pname, depth):
    if isinstance(fnode, ast.Lambda):
        return None
    args = fnode.args
    pos = [a.arg for a in list(getattr(args, 'posonlyargs', [])) + list(args.args)]
    is_method = bool(pos) and pos[0] in ('self', 'cls')
    # default value
    default = None
    if pname in pos:
        i = pos.index(pname)
        nd = len(args.defaults)
        if i >= len(pos) - nd:
            default = args.defaults[i - (len(pos) - nd)]
    else:
        for a, d in zip(args.kwonlyargs, args.kw_defaults):
            if a.arg == pname:
                default = d
    cls = getattr(fnode, '_parent', None)
    names = {fnode.name}
    if fnode.name == '__init__' and isinstance(cls, ast.ClassDef):
        names = {cls.name}
    sites = []
    calls = _all_calls(repo)
    for nm in names:
        sites += calls.get(nm, [])
    if fnode.name == '__init__':
        # super().__init__(...) in subclasses
        for c in calls.get('__init__', []):
            if isinstance(c.func, ast.Attribute) and isinstance(c.func.value, ast.Call) and \
                    call_name(c.func.value) == 'super':
                sites.append(c)
    if not sites:
        # a nested function that is only handed out as a value (a table callable): it is called
        # with the fixed argument names checked by C07 R07f, so another parameter keeps its default
        if default is not None and enclosing_func(fnode) is not None:
            return _expr_values(repo, default, enclosing_func(fnode), depth + 1)
        return None
    out = set()
    omitted = False
    for c in sites:
        if any(isinstance(a, ast.Starred) for a in c.args):
            return None
        a = None
        for k in c.keywords:
            if k.arg == pname:
                a = k.value
        if a is None and pname in pos:
            i = pos.index(pname) - (1 if is_method else 0)
            if 0 <= i < len(c.args):
                a = c.args[i]
        if a is None:
            if any(k.arg is None for k in c.keywords):
                # **kwargs forwarded: the value may come from the forwarding function's callers
                omitted = True
                continue
            omitted = True
            continue
        v = _expr_values(repo, a, enclosing_func(c), depth + 1)
        if v is None:
            return None
        out |= v
    if omitted:
        if default is None:
            return out or None
        v = _expr_values(repo, default, enclosing_func(fnode), depth + 1)
        if v is None:
            return None
        out |= v
    return out


# --------------------------------------------------------------------------- G9


def _g9(f, out):
    if not (f.mod.name.startswith('pylatexenc.latexnodes') or f.mod.name.startswith('pylatexenc.latexwalker')
            or f.mod.name.startswith('pylatexenc.macrospec') or f.mod.name == 'pylatexenc._util'):
        return
    for t, where in gcommon.truthiness_tests(f.node):
        if gcommon.is_truthiness_of_position(t):
            out.append(Finding('G9', 'REFUTED', f.mod, where, f.key,
                               'position value %s tested by truthiness: position 0 is treated like '
                               '"no position"' % short(t), '%s: %s' % (f.qual, short(where, 70))))



def swapped_arguments(mod):
    """calls of a function / method defined in the same module where a positional argument is a
    plain variable whose name is the name of ANOTHER positional parameter of the callee (and the
    parameter at its own position has a different name): the classic swapped-arguments slip.
    Yields (call, callee name, argument index, parameter index, name)."""
    for q, f in mod.functions.items():
        for c in iter_own(f):
            if not isinstance(c, ast.Call) or not c.args:
                continue
            callee, skip = None, 0
            if isinstance(c.func, ast.Name) and c.func.id in mod.functions and '.' not in c.func.id:
                callee = mod.functions[c.func.id]
            elif isinstance(c.func, ast.Attribute) and isinstance(c.func.value, ast.Name) and c.func.value.id == 'self' \
                    and '.' in q and (q.rsplit('.', 1)[0] + '.' + c.func.attr) in mod.functions:
                callee, skip = mod.functions[q.rsplit('.', 1)[0] + '.' + c.func.attr], 1
            if callee is None or not isinstance(callee, ast.FunctionDef):
                continue
            params = [a.arg for a in callee.args.args][skip:]
            for i, a in enumerate(c.args):
                if isinstance(a, ast.Name) and a.id in params and i < len(params) and params[i] != a.id:
                    j = params.index(a.id)
                    # the variable standing in its own parameter's position is a swap only when
                    # the displaced parameter's name is passed elsewhere positionally too
                    yield c, callee.name, i, j, a.id
                    break


# --------------------------------------------------------------------------- G19

IMMEDIATE_CONSUMERS = {'sorted', 'min', 'max', 'any', 'all', 'sum', 'next', 'sort', 'sub', 'subn', 'join', 'tuple', 'list',
                       'set', 'frozenset', 'dict', 'map', 'filter'}


def late_binding_closures(fnode):
    """a lambda / nested def created in a loop body reads a name that the loop re-binds on every iteration (not frozen
    as a default value), and the function object outlives the iteration: it is stored in a container, an attribute,
    or wrapped by a call whose result is.  When it is finally called the name denotes the value of the *last*
    iteration.  Yields (closure node, name, loop, escaping statement)."""
    if not isinstance(fnode, (ast.FunctionDef, ast.AsyncFunctionDef)):
        return
    for lp in [l for l in walk_fn(fnode) if isinstance(l, (ast.For, ast.While))]:
        rebound = set()
        if isinstance(lp, ast.For):
            rebound |= {n.id for n in ast.walk(lp.target) if isinstance(n, ast.Name)}
        own = []
        stack = list(lp.body)
        while stack:
            n = stack.pop()
            own.append(n)
            if isinstance(n, (ast.FunctionDef, ast.AsyncFunctionDef, ast.Lambda, ast.ClassDef)):
                continue
            stack.extend(ast.iter_child_nodes(n))
        for n in own:
            if isinstance(n, ast.Name) and isinstance(n.ctx, ast.Store):
                rebound.add(n.id)
        for cl in [n for n in own if isinstance(n, (ast.Lambda, ast.FunctionDef))]:
            a = cl.args
            bound = {x.arg for x in a.args + a.kwonlyargs + getattr(a, 'posonlyargs', [])}
            if a.vararg:
                bound.add(a.vararg.arg)
            if a.kwarg:
                bound.add(a.kwarg.arg)
            body = [cl.body] if isinstance(cl, ast.Lambda) else cl.body
            for st in body:
                for x in ast.walk(st):
                    if isinstance(x, ast.Name) and isinstance(x.ctx, ast.Store):
                        bound.add(x.id)
                    elif isinstance(x, (ast.Lambda, ast.FunctionDef)):
                        bound |= {y.arg for y in x.args.args}
                    elif isinstance(x, ast.comprehension):
                        bound |= {y.id for y in ast.walk(x.target) if isinstance(y, ast.Name)}
            free = {x.id for st in body for x in ast.walk(st) if isinstance(x, ast.Name) and isinstance(x.ctx, ast.Load)}
            late = sorted((free - bound) & rebound)
            if not late or (isinstance(cl, ast.FunctionDef) and cl.name in late and len(late) == 1):
                continue
            # where does the function object go?
            aliases = set()
            if isinstance(cl, ast.FunctionDef):
                aliases.add(cl.name)
            carriers = [cl]
            st0 = enclosing_stmt(cl)
            if isinstance(cl, ast.Lambda) and isinstance(st0, ast.Assign) and all(isinstance(t, ast.Name) for t in st0.targets) \
                    and not _through_immediate(cl, st0):
                aliases |= {t.id for t in st0.targets}
            esc = None
            for n in own:
                cands = [n] if n is cl and isinstance(cl, ast.Lambda) else (
                    [n] if isinstance(n, ast.Name) and n.id in aliases and isinstance(n.ctx, ast.Load)
                    and n.lineno >= cl.lineno else [])
                for c in cands:
                    st = enclosing_stmt(c)
                    if st is None or _through_immediate(c, st):
                        continue
                    if isinstance(st, ast.Assign) and any(isinstance(t, (ast.Subscript, ast.Attribute)) for t in st.targets):
                        esc = st
                    elif isinstance(st, ast.Expr) and isinstance(st.value, ast.Call) and \
                            call_name(st.value) in ('append', 'add', 'insert', 'extend', 'setdefault', 'update', 'appendleft') \
                            and any(c is y for arg in list(st.value.args) + [k.value for k in st.value.keywords]
                                    for y in ast.walk(arg)):
                        esc = st
                    elif isinstance(st, ast.Assign) and all(isinstance(t, ast.Name) for t in st.targets) and c is not st.value:
                        # wrapped (functools.partial(f, ..), Klass(callback=f)) and bound to a name: follow that name once
                        aliases2 = {t.id for t in st.targets}
                        for n2 in own:
                            if isinstance(n2, ast.Name) and n2.id in aliases2 and isinstance(n2.ctx, ast.Load) and n2.lineno > st.lineno:
                                st2 = enclosing_stmt(n2)
                                if st2 is None or _through_immediate(n2, st2):
                                    continue
                                if (isinstance(st2, ast.Assign) and any(isinstance(t, (ast.Subscript, ast.Attribute)) for t in st2.targets)) or (
                                        isinstance(st2, ast.Expr) and isinstance(st2.value, ast.Call) and
                                        call_name(st2.value) in ('append', 'add', 'insert', 'extend', 'setdefault', 'update')):
                                    esc = st2
                    elif isinstance(st, ast.Expr) and isinstance(st.value, (ast.Yield,)):
                        esc = None
                    if esc is not None:
                        break
                if esc is not None:
                    break
            if esc is not None:
                yield cl, late[0], lp, esc


def _through_immediate(node, stmt):
    """on the way from `node` up to `stmt` the value passes through a call that uses a function argument at once
    (sorted(key=..), re.sub(.., repl), max(..)) or is itself called"""
    child, par = node, getattr(node, '_parent', None)
    while par is not None and child is not stmt:
        if isinstance(par, ast.Call):
            if par.func is child:
                return True
            if call_name(par) in IMMEDIATE_CONSUMERS:
                return True
        child, par = par, getattr(par, '_parent', None)
    return False


# --------------------------------------------------------------------------- G20


def mismatched_field_source(fnode):
    """`self.A = B` (B a plain name other than A) in a function that also binds a local or parameter named A which
    is never read: the value meant for the field was prepared and then another, like-named one was stored (a
    copy-and-paste slip).  Yields (assignment, field, source name)."""
    if not isinstance(fnode, (ast.FunctionDef, ast.AsyncFunctionDef)):
        return
    a_ = fnode.args
    bound = {x.arg for x in a_.args + a_.kwonlyargs}
    reads = {}
    nodes = list(walk_fn(fnode))
    for n in nodes:
        if isinstance(n, ast.Assign):
            for t in n.targets:
                for tt in (t.elts if isinstance(t, (ast.Tuple, ast.List)) else [t]):
                    if isinstance(tt, ast.Name):
                        bound.add(tt.id)
        elif isinstance(n, ast.Name) and isinstance(n.ctx, ast.Load):
            reads[n.id] = reads.get(n.id, 0) + 1
    for n in nodes:
        if isinstance(n, ast.Assign) and len(n.targets) == 1 and isinstance(n.targets[0], ast.Attribute) and \
                isinstance(n.targets[0].value, ast.Name) and n.targets[0].value.id in ('self', 'cls') and \
                isinstance(n.value, ast.Name):
            fld, src = n.targets[0].attr, n.value.id
            if fld != src and fld in bound and not reads.get(fld):
                yield n, fld, src


# --------------------------------------------------------------------------- G21

_MUT_CALLS = {'append', 'extend', 'insert', 'pop', 'remove', 'clear', 'sort', 'reverse', 'update', 'setdefault', 'add',
              'discard', 'popitem', 'appendleft'}


def shared_class_containers(cls):
    """a class attribute bound in the class body to a mutable display ({} / [] / set() / dict() / list()) that a method
    changes in place through self (self.X[k] = v, self.X.append(..)) while no method ever re-binds self.X: the one
    container belongs to the class, so every instance -- every converter, every parser -- shares what one of them
    stored.  Yields (writing node, attribute, class-level assignment)."""
    level = {}
    for st in cls.body:
        if isinstance(st, ast.Assign) and len(st.targets) == 1 and isinstance(st.targets[0], ast.Name):
            v = st.value
            if (isinstance(v, (ast.Dict, ast.List, ast.Set)) and not getattr(v, 'elts', getattr(v, 'keys', None))) or (
                    isinstance(v, ast.Call) and isinstance(v.func, ast.Name) and v.func.id in (
                        'dict', 'list', 'set', 'OrderedDict', 'defaultdict') and not v.args and not v.keywords):
                level[st.targets[0].id] = st
    if not level:
        return
    rebound = set()
    writes = []
    for meth in [m for m in cls.body if isinstance(m, (ast.FunctionDef, ast.AsyncFunctionDef))]:
        for n in ast.walk(meth):
            if isinstance(n, (ast.Assign, ast.AugAssign)):
                for t in (n.targets if isinstance(n, ast.Assign) else [n.target]):
                    if isinstance(t, ast.Attribute) and isinstance(t.value, ast.Name) and t.value.id == 'self' and t.attr in level:
                        rebound.add(t.attr)
                    elif isinstance(t, ast.Subscript) and isinstance(t.value, ast.Attribute) and \
                            isinstance(t.value.value, ast.Name) and t.value.value.id == 'self' and t.value.attr in level:
                        writes.append((n, t.value.attr))
            elif isinstance(n, ast.Call) and isinstance(n.func, ast.Attribute) and n.func.attr in _MUT_CALLS and \
                    isinstance(n.func.value, ast.Attribute) and isinstance(n.func.value.value, ast.Name) and \
                    n.func.value.value.id == 'self' and n.func.value.attr in level:
                writes.append((n, n.func.value.attr))
    for n, a in writes:
        if a not in rebound:
            yield n, a, level[a]


# --------------------------------------------------------------------------- G22


def unguarded_affix_strips(fnode):
    """`X[:-len(Y)]` (or `X[len(Y):]`) on a path with no `X.endswith(Y)` (`X.startswith(Y)`) fact: when X does not
    end (start) with Y -- the input ended before the terminator -- that many characters of content are cut off.
    Yields (subscript, X text, Y text, kind)."""
    if not isinstance(fnode, (ast.FunctionDef, ast.AsyncFunctionDef)):
        return
    for x in walk_fn(fnode):
        if not (isinstance(x, ast.Subscript) and isinstance(x.slice, ast.Slice) and isinstance(x.ctx, ast.Load)):
            continue
        sl = x.slice
        kind = yv = None
        if sl.lower is None and isinstance(sl.upper, ast.UnaryOp) and isinstance(sl.upper.op, ast.USub) and \
                isinstance(sl.upper.operand, ast.Call) and unparse(sl.upper.operand.func) == 'len' and sl.upper.operand.args:
            kind, yv = 'endswith', sl.upper.operand.args[0]
        elif sl.upper is None and isinstance(sl.lower, ast.Call) and unparse(sl.lower.func) == 'len' and sl.lower.args:
            kind, yv = 'startswith', sl.lower.args[0]
        if kind is None:
            continue
        xt, yt = unparse(x.value), unparse(yv)
        facts = {(unparse(a), p) for t, pol in list(atomic_facts(x)) + list(short_circuit_facts(x)) for a, p in _atoms_of(t, pol)}
        ok = any(p and t in ('%s.%s(%s)' % (xt, kind, yt),) for t, p in facts) or any(
            (not p) and t == 'not %s.%s(%s)' % (xt, kind, yt) for t, p in facts)
        if not ok:
            yield x, xt, yt, kind


# --------------------------------------------------------------------------- G23


def accidental_ranges(pattern):
    """character-class ranges of a regular expression whose end points are not of one kind (both digits, both lower
    case, both upper case): `[A-Za-z0-9*.-_ ]` contains the range `.`-`_`, which takes in digits, upper case and a lot
    of punctuation -- and no longer the hyphen itself.  Returns [(lo char, hi char)]."""
    import re as _re
    try:
        import re._parser as sp
    except ImportError:            # Python < 3.11
        import sre_parse as sp
    try:
        tree = sp.parse(pattern)
    except Exception:
        return []
    out = []

    def walk(items):
        for op, av in items:
            name = str(op)
            if name == 'IN':
                for op2, av2 in av:
                    if str(op2) == 'RANGE':
                        lo, hi = chr(av2[0]), chr(av2[1])
                        same = (lo.isdigit() and hi.isdigit()) or (lo.islower() and hi.islower() and lo.isalpha() and hi.isalpha()) \
                            or (lo.isupper() and hi.isupper() and lo.isalpha() and hi.isalpha()) or (ord(lo) > 127 and ord(hi) > 127)
                        if not same:
                            out.append((lo, hi))
            elif name in ('MAX_REPEAT', 'MIN_REPEAT', 'POSSESSIVE_REPEAT'):
                walk(av[2])
            elif name == 'SUBPATTERN':
                walk(av[3])
            elif name == 'BRANCH':
                for alt in av[1]:
                    walk(alt)
            elif name in ('ASSERT', 'ASSERT_NOT'):
                walk(av[1])
            elif name == 'ATOMIC_GROUP':
                walk(av)
    walk(tree)
    return out


# ---------------------------------------------------------------------------
# G24: a caller-supplied callable wrapped in a memo
def memoised_callables(fnode):
    """Yield (closure, store, callee) for a nested function of `fnode` that stores the result of
    calling one of fnode's PARAMETERS (a callable handed in by the caller) in a container created in
    `fnode` and answers later calls from that container: the callable is then consulted once per
    key, not once per occurrence -- wrong for callables that count, collect or depend on state."""
    params = {a.arg for a in fnode.args.args + fnode.args.kwonlyargs}
    own = [n for n in iter_own(fnode)]
    containers = set()
    for st in own:
        if isinstance(st, ast.Assign) and len(st.targets) == 1 and isinstance(st.targets[0], ast.Name):
            v = st.value
            if isinstance(v, ast.Dict) or (isinstance(v, ast.Call) and isinstance(v.func, ast.Name) and
                                           v.func.id in ('dict', 'OrderedDict', 'defaultdict')):
                containers.add(st.targets[0].id)
    if not containers:
        return
    for g in own:
        if not isinstance(g, (ast.FunctionDef, ast.Lambda)) or g is fnode:
            continue
        for st in ast.walk(g):
            if isinstance(st, ast.Assign):
                for t in st.targets:
                    if isinstance(t, ast.Subscript) and isinstance(t.value, ast.Name) and t.value.id in containers:
                        for c in ast.walk(st.value):
                            if isinstance(c, ast.Call) and isinstance(c.func, ast.Name) and c.func.id in params:
                                yield g, st, c
            elif isinstance(st, ast.Call) and isinstance(st.func, ast.Attribute) and st.func.attr == 'setdefault' and \
                    isinstance(st.func.value, ast.Name) and st.func.value.id in containers:
                for c in ast.walk(st):
                    if c is not st and isinstance(c, ast.Call) and isinstance(c.func, ast.Name) and c.func.id in params:
                        yield g, st, c


# ---------------------------------------------------------------------------
# G25: a test computed once before a loop from a variable the loop moves
def stale_hoisted_tests(fnode):
    """Yield (assign, var, loop, use) where a boolean `X = <test mentioning V>` is computed once,
    outside every loop, V is re-assigned inside a later loop, and X is read as (part of) a branch
    condition inside that loop without being recomputed there: the test still speaks about the V of
    before the loop."""
    def is_test(v):
        if isinstance(v, (ast.BoolOp, ast.Compare)):
            return True
        if isinstance(v, ast.UnaryOp) and isinstance(v.op, ast.Not):
            return True
        if isinstance(v, ast.Call) and isinstance(v.func, ast.Attribute) and (
                v.func.attr.startswith('is') or v.func.attr in ('startswith', 'endswith')):
            return True
        return False
    own = list(iter_own(fnode))
    stores = {}
    for n in own:
        if isinstance(n, ast.Name) and isinstance(n.ctx, ast.Store):
            stores.setdefault(n.id, []).append(n)
    loops = [n for n in own if isinstance(n, (ast.For, ast.While))]
    def in_loop(n):
        return any(isinstance(p, (ast.For, ast.While)) for p in parents(n) if p is not fnode)
    for st in own:
        if not (isinstance(st, ast.Assign) and len(st.targets) == 1 and isinstance(st.targets[0], ast.Name)
                and is_test(st.value)):
            continue
        x = st.targets[0].id
        if len(stores.get(x, ())) != 1 or in_loop(st):
            continue
        vs = {n.id for n in ast.walk(st.value) if isinstance(n, ast.Name) and isinstance(n.ctx, ast.Load)}
        for lp in loops:
            if lp.lineno <= st.lineno:
                continue
            inner = [n for b in (lp.body, lp.orelse) for s_ in b for n in ast.walk(s_)]
            moved = sorted({n.id for n in inner if isinstance(n, ast.Name) and isinstance(n.ctx, ast.Store) and n.id in vs})
            if not moved:
                continue
            for n in inner:
                if isinstance(n, (ast.If, ast.While, ast.IfExp)) and any(
                        isinstance(y, ast.Name) and y.id == x and isinstance(y.ctx, ast.Load) for y in ast.walk(n.test)):
                    yield st, moved[0], lp, n
                    break


# --------------------------------------------------------------------------- G17
# a literal format string asks for arguments the .format() call does not pass


def format_arity(fnode):
    """`"<literal>".format(a, b, k=v)` whose replacement fields name a keyword that is not passed, or number (explicitly
    or by auto-numbering) more positional arguments than are passed: str.format raises KeyError / IndexError when the
    statement is reached.  Calls that forward *args / **kwargs are not decided.  Yields (call, reason)."""
    import string as _string
    for c in walk_fn(fnode) if isinstance(fnode, (ast.FunctionDef, ast.AsyncFunctionDef)) else ():
        if not (isinstance(c, ast.Call) and isinstance(c.func, ast.Attribute) and c.func.attr == 'format'
                and isinstance(c.func.value, ast.Constant) and isinstance(c.func.value.value, str)):
            continue
        if any(isinstance(a, ast.Starred) for a in c.args) or any(k.arg is None for k in c.keywords):
            continue
        try:
            fields = [f[1] for f in _string.Formatter().parse(c.func.value.value) if f[1] is not None]
        except ValueError:
            continue
        npos, kws = len(c.args), {k.arg for k in c.keywords}
        auto = 0
        for f in fields:
            head = re.split(r'[.\[]', f, 1)[0]
            if head == '':
                auto += 1
                if auto > npos:
                    yield c, 'replacement field number %d has no argument (%d passed)' % (auto, npos)
                    break
            elif head.isdigit():
                if int(head) >= npos:
                    yield c, 'replacement field {%s} has no argument (%d passed)' % (head, npos)
                    break
            elif head not in kws:
                yield c, 'replacement field {%s} is a keyword the call does not pass' % head
                break


def _g17(f, out):
    for c, why in format_arity(f.node):
        out.append(Finding('G17', 'REFUTED', f.mod, enclosing_stmt(c) or c, f.key,
                           '%s: %s -- str.format raises %s when this statement is reached (an error message being built on an '
                           'error path: the exception that escapes is not the parse error that was meant)'
                           % (short(c, 60), why, 'KeyError' if 'keyword' in why else 'IndexError'),
                           '%s: format %s' % (f.qual, short(c.func.value, 40))))
