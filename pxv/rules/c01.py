# -*- coding: utf-8 -*-
"""C01  Node tree is a lossless, exactly positioned cover of the source.

Decided per construction site (span algebra), plus a path analysis of the token
dispatcher for whitespace conservation.  Not decided: that the spans produced by
different cooperating parsers tile the input."""
import ast
from ..core import set_parents as set_parents_
from ..core import (AnalysisError, short, unparse, iter_own, call_name, call_recv, kwarg,
                    is_self_attr, atomic_facts, parents, enclosing_stmt, enclosing_func)
from .. import affine, symex, shapes

COLL = 'pylatexenc.latexnodes._nodescollector'
NODES = 'pylatexenc.latexnodes.nodes'
VERB = 'pylatexenc.latexnodes.parsers._verbatim'
DELIM = 'pylatexenc.latexnodes.parsers._delimited'
MATH = 'pylatexenc.latexnodes.parsers._math'
CALLP = 'pylatexenc.macrospec._macrocallparser'


def _node_class_of(call):
    """make_node(<Class>, ...) -> simple class name"""
    if call_name(call) == 'make_node' and call.args:
        return unparse(call.args[0]).rsplit('.', 1)[-1]
    return None



def verbatim_first_read_paths(fn, methods=None):
    """Syntax-directed walk of a parser method: for every path from the entry to the first call that reads characters or
    tokens from the reader (next_chars / peek_chars / next_token / peek_token), yield (events before it, the reading call);
    events are ('SKIP', call) for skip_space_chars and ('POS', call) for cur_pos().  Both arms of every `if`, zero or one
    iteration of every loop; a path that raises or returns before reading yields nothing."""
    READ = ('next_chars', 'peek_chars', 'next_token', 'peek_token')

    def calls_in(node):
        cs = [c for c in ast.walk(node) if isinstance(c, ast.Call)]
        return sorted(cs, key=lambda c: (c.end_lineno, c.end_col_offset))      # evaluation order: inner calls end first

    def scan(node, evs):
        """returns ('read', evs, call) or ('go', evs)"""
        for c in calls_in(node):
            nm = call_name(c)
            if nm in READ:
                return ('read', evs, c)
            if nm == 'skip_space_chars':
                evs = evs + [('SKIP', c)]
            elif nm == 'cur_pos':
                evs = evs + [('POS', c)]
        return ('go', evs)

    out = []
    depth = [0]

    def walk(stmts, evs):
        """returns list of event lists for paths that fall through"""
        paths = [evs]
        for st in stmts:
            nxt = []
            for ev in paths:
                if isinstance(st, ast.If):
                    r = scan(st.test, ev)
                    if r[0] == 'read':
                        out.append((r[1], r[2])); continue
                    nxt.extend(walk(st.body, r[1]))
                    nxt.extend(walk(st.orelse, r[1]))
                elif isinstance(st, (ast.While, ast.For)):
                    r = scan(st.test if isinstance(st, ast.While) else st.iter, ev)
                    if r[0] == 'read':
                        out.append((r[1], r[2])); continue
                    nxt.append(r[1])
                    nxt.extend(walk(st.body, r[1]))
                elif isinstance(st, (ast.Raise, ast.Return)):
                    r = scan(st, ev)
                    if r[0] == 'read':
                        out.append((r[1], r[2]))
                    elif isinstance(st, ast.Return) and depth[0]:
                        nxt.append(r[1])
                elif isinstance(st, (ast.Try, ast.With)):
                    nxt.extend(walk(st.body, ev))
                elif isinstance(st, (ast.FunctionDef, ast.ClassDef)):
                    nxt.append(ev)
                else:
                    # a statement that is one call of a method of the same class: its body is walked in place
                    # (a `return` inside it ends that level of the helper only -- an approximation)
                    v_ = getattr(st, 'value', None)
                    if methods and isinstance(st, (ast.Expr, ast.Assign)) and isinstance(v_, ast.Call) and \
                            isinstance(v_.func, ast.Attribute) and isinstance(v_.func.value, ast.Name) and \
                            v_.func.value.id == 'self' and v_.func.attr in methods and methods[v_.func.attr] is not fn \
                            and depth[0] < 2:
                        depth[0] += 1
                        nxt.extend(walk(methods[v_.func.attr].body, ev))
                        depth[0] -= 1
                        continue
                    r = scan(st, ev)
                    if r[0] == 'read':
                        out.append((r[1], r[2]))
                    else:
                        nxt.append(r[1])
            paths = nxt
            if len(paths) > 64:
                paths = paths[:64]
        return paths
    walk(fn.body, [])
    return out


def run(ctx):
    repo = ctx.repo
    ctx.rule('R01a', 'chars span: every LatexCharsNode is built with pos_end - pos == len(chars) '
                     '(affine normal form of the difference is 0)', 12)
    ctx.rule('R01b', 'every token carries the peeked leading whitespace unchanged (so that the '
                     'collector can attribute it to a chars node)', 10)
    ctx.rule('R01c', 'field forwarding: comment / macro / specials nodes take text, post-space, pos '
                     'and pos_end from one and the same token', 5)
    ctx.rule('R01d', 'delimited constructs start at their opening token and end at the reader '
                     'position taken after the content was parsed; the stop-token handler moves '
                     'past the closing token', 6)
    ctx.rule('R01f', 'whitespace conservation: on every path through process_one_token the leading '
                     'whitespace of the token is consumed exactly once (pushed to the pending chars, '
                     'emitted as its own chars node, or given back to the reader) unless it is empty', 6)
    ctx.rule('R01m', 'verbatim reading: the character that stops the reading is put back into the '
                     'stream only when the stop condition asks for it (mapping with put_back_char); a '
                     'delimited verbatim group counts its closing delimiter, so it must stay consumed', 1)
    ctx.rule('R01g', 'paired truncation: where a verbatim string is cut at the front by n characters '
                     'its start position advances by the same n; no other transformation of the '
                     'text; pos_end = pos_start + len(text)', 4)
    ctx.rule('R01h', 'tolerant recovery: the reader resumes at the end of the recovery node '
                     '(recovery_past_token for a node covering the token, recovery_at_token for a '
                     'zero-width node)', 3)
    ctx.rule('R01i', 'a node list spans from the first non-None child\'s pos to the last non-None '
                     'child\'s pos_end; latex_verbatim() is s[pos:pos_end] / the concatenation of '
                     'the children in order', 4)
    ctx.rule('R01k', 'pending chars: text is appended in arrival order and the start position is '
                     'set only by the first push', 2)

    # ------------------------------------------------------------ R01a
    n_sites = 0
    for mod in repo.modules.values():
        if mod.name.endswith('__main__') or mod.name == 'pylatexenc.latexwalker':
            continue
        for f in mod.functions.values():
            env = None
            for c in [c for c in iter_own(f) if isinstance(c, ast.Call)
                      and _node_class_of(c) == 'LatexCharsNode']:
                env = affine.reaching_env(f, c)
                n_sites += 1
                chars, pos = kwarg(c, 'chars'), kwarg(c, 'pos')
                pe, ln = kwarg(c, 'pos_end'), kwarg(c, 'len')
                cons = '%s: chars=%s pos=%s %s' % (f._qualname, short(chars, 40), short(pos, 30),
                                                   ('pos_end=' + short(pe, 30)) if pe is not None
                                                   else 'len=' + short(ln, 20))
                if chars is None or pos is None or (pe is None and ln is None):
                    ctx.unknown('R01a', mod, c, 'chars/pos/pos_end not all given by keyword', construct=cons)
                    continue
                # a private helper that only wraps the constructor (text, position and length are its
                # parameters): decided at each call site with the arguments substituted
                fparams = [a_.arg for a_ in f.args.args] if isinstance(f, ast.FunctionDef) else []
                used = {n_.id for e_ in (chars, pos, pe, ln) if e_ is not None for n_ in ast.walk(e_)
                        if isinstance(n_, ast.Name)}
                if f.name.startswith('_') and used and used <= set(fparams) and not affine.reaching_env(f, c):
                    pl = fparams[1:] if fparams and fparams[0] == 'self' else fparams
                    sites = [(g, c2) for g in mod.functions.values() if g is not f for c2 in iter_own(g)
                             if isinstance(c2, ast.Call) and call_name(c2) == f.name]
                    if sites and all(len(c2.args) + len(c2.keywords) >= len(used) for g, c2 in sites):
                        for g, c2 in sites:
                            ren = dict(zip(pl, c2.args))
                            ren.update((k_.arg, k_.value) for k_ in c2.keywords if k_.arg)
                            sub_ = lambda e_: symex.subst(e_, ren) if e_ is not None else None
                            _r01a_site(ctx, mod, g, c2, sub_(chars), sub_(pos), sub_(pe), sub_(ln),
                                       '%s via %s: chars=%s pos=%s' % (g._qualname, f.name, short(sub_(chars), 40),
                                                                       short(sub_(pos), 30)))
                        continue
                _r01a_site(ctx, mod, f, c, chars, pos, pe, ln, cons)
    ctx.analysed['chars_node_sites'] = n_sites

    # ------------------------------------------------------------ R01b (shared with C11 R11e)
    from . import c11
    trm = repo.mod(c11.TR)
    c11.prespace_forwarding(ctx, 'R01b', trm, trm.methods('LatexTokenReader'))
    # token fields tile the token (text, pre- and post-space against pos/pos_end): shared with C11 R11e
    c11._space_coherence(c11._Sub(ctx, 'R01b'), trm, trm.methods('LatexTokenReader'))

    # ------------------------------------------------------------ R01c
    for mod in repo.modules.values():
        if mod.name.endswith('__main__'):
            continue
        for f in mod.functions.values():
            for c in [c for c in iter_own(f) if isinstance(c, ast.Call) and _node_class_of(c) in (
                    'LatexCommentNode', 'LatexMacroNode', 'LatexSpecialsNode')
                    and kwarg(c, 'pos') is not None]:
                cls = _node_class_of(c)
                pos, pe = unparse(kwarg(c, 'pos')), unparse(kwarg(c, 'pos_end') or ast.Constant(None))
                if isinstance(kwarg(c, 'pos'), ast.Name):
                    # a local holding the start: its (single) definition is what the node gets
                    defs_ = [a_.value for a_ in iter_own(f) if isinstance(a_, ast.Assign) and len(a_.targets) == 1
                             and isinstance(a_.targets[0], ast.Name) and a_.targets[0].id == pos]
                    if len(defs_) == 1:
                        pos = unparse(defs_[0])
                if pos.endswith('.pos'):
                    tokv = pos[:-4]
                elif pe.endswith('.pos_end') and (pe[:-8] + '.') in pos:
                    tokv = pe[:-8]      # the end is the token's end: the start must be the token's start
                else:
                    continue
                want = {'pos_end': tokv + '.pos_end', 'pos': tokv + '.pos'}
                if cls == 'LatexCommentNode':
                    want.update(comment=tokv + '.arg', comment_post_space=tokv + '.post_space')
                if cls == 'LatexMacroNode':
                    want.update(macro_post_space=tokv + '.post_space')
                bad = []
                for k, w in want.items():
                    v = kwarg(c, k)
                    if k == 'pos':
                        if pos != w:
                            bad.append('pos=%s (expected %s: the white space in front of a token is not part of the node)'
                                       % (pos, w))
                        continue
                    if v is None or unparse(v) != w:
                        bad.append('%s=%s (expected %s)' % (k, short(v) if v is not None else 'missing', w))
                if cls == 'LatexMacroNode':
                    mn = kwarg(c, 'macroname')
                    okn = mn is not None and (unparse(mn) == tokv + '.arg' or _alias_of(f, mn, tokv + '.arg'))
                    if not okn:
                        bad.append('macroname=%s' % (short(mn) if mn is not None else 'missing'))
                ctx.decide('R01c', not bad, mod, c, 'all fields come from token %s' % tokv,
                           '%s is built from different sources: %s: the node\'s text/post-space '
                           'does not belong to the span it claims' % (cls, '; '.join(bad)),
                           construct='%s: %s from %s' % (f._qualname, cls, tokv))

    # ------------------------------------------------------------ R01d
    for modname, clsname in ((DELIM, 'LatexDelimitedExpressionParserInfo'), (MATH, 'LatexMathParserInfo')):
        mod = repo.mod(modname)
        f = mod.methods(clsname).get('make_group_node_and_parsing_state_delta')
        if f is None:
            raise AnalysisError('anchor vanished: %s.make_group_node_and_parsing_state_delta' % clsname)
        mk = [c for c in iter_own(f) if isinstance(c, ast.Call) and call_name(c) == 'make_node']
        spans = _node_spans(f, mod.methods(clsname))
        ok = bool(spans) and all(p_ == 'self.first_token.pos' and pe_ == 'token_reader.cur_pos()' for p_, pe_, _o in spans)
        ctx.decide('R01d', ok, mod, mk[0] if mk else f,
                   'pos=self.first_token.pos, pos_end=token_reader.cur_pos()',
                   '%s does not span from its opening token to the reader position after the '
                   'closing delimiter' % clsname, construct=clsname + ': group node span')
    mod = repo.mod(DELIM)
    hs = mod.methods('LatexDelimitedExpressionParserInfo').get('handle_stop_condition_token')
    ok = hs is not None and any(isinstance(c, ast.Call) and call_name(c) == 'move_past_token'
                                and unparse(c.args[0]) == hs.args.args[1].arg for c in iter_own(hs))
    ctx.decide('R01d', ok, mod, hs or mod.cls('LatexDelimitedExpressionParserInfo'),
               'closing token is consumed: move_past_token(token)',
               'the stop-token handler does not move past the closing token: the group ends before '
               'its closing delimiter', construct='handle_stop_condition_token')
    mcp = mod.methods('LatexDelimitedExpressionParserInfo').get('make_content_parser')
    ok = mcp is not None and any(
        isinstance(c, ast.Call) and call_name(c) == 'LatexGeneralNodesParser'
        and unparse(kwarg(c, 'handle_stop_condition_token') or ast.Constant(None)) == 'self.handle_stop_condition_token'
        and unparse(kwarg(c, 'stop_token_condition') or ast.Constant(None)) == 'self.stop_token_condition'
        for c in ast.walk(mcp))
    ctx.decide('R01d', ok, mod, mcp or mod.cls('LatexDelimitedExpressionParserInfo'),
               'content parser wired to the info object\'s stop predicate and handler',
               'make_content_parser does not wire stop_token_condition / '
               'handle_stop_condition_token of the info object', construct='make_content_parser wiring')
    cm = repo.mod(CALLP)
    pf = cm.methods('_LatexCallableParserBase').get('parse')
    if pf is None:
        raise AnalysisError('anchor vanished: _LatexCallableParserBase.parse')
    mk = [c for c in iter_own(pf) if isinstance(c, ast.Call) and call_name(c) == 'make_node']
    spans = _node_spans(pf, cm.methods('_LatexCallableParserBase'), order_calls=('parse_call_arguments', 'parse_call_body'))
    ok = bool(spans) and all(p_ == 'self.token_call.pos' and pe_ == 'token_reader.cur_pos()' and o_ for p_, pe_, o_ in spans)
    ctx.decide('R01d', bool(ok), cm, mk[0] if mk else pf,
               'call node: pos = call token, pos_end = reader position after arguments and body',
               'the call node does not span from its token to the reader position after its '
               'arguments/body were parsed', construct='_LatexCallableParserBase.parse: node span')
    # environment body handler
    for clsname in ('LatexEnvironmentCallParser',):
        h = cm.methods(clsname).get('_handle_stop_condition_token')
        if h is not None:
            ok = any(isinstance(c, ast.Call) and call_name(c) == 'move_past_token' for c in iter_own(h))
            ctx.decide('R01d', ok, cm, h, 'end-environment token is consumed',
                       '_handle_stop_condition_token does not move past the \\end token',
                       construct=clsname + '._handle_stop_condition_token')

    # ------------------------------------------------------------ R01f
    co = repo.mod(COLL)
    pot = co.methods('LatexNodesCollector').get('process_one_token')
    if pot is None:
        raise AnalysisError('anchor vanished: LatexNodesCollector.process_one_token')
    _whitespace_paths(ctx, co, pot)

    # ------------------------------------------------------------ R01g
    vm = repo.mod(VERB)
    for clsname in ('LatexVerbatimBaseParser', 'LatexVerbatimEnvironmentContentsParser'):
        f = vm.methods(clsname).get('finalize_verbatim_string')
        if f is None:
            raise AnalysisError('anchor vanished: %s.finalize_verbatim_string' % clsname)
        _paired_truncation(ctx, vm, clsname, f)
    # the node built from it
    rv = vm.methods('LatexVerbatimBaseParser').get('read_verbatim_content')
    if rv is None:
        raise AnalysisError('anchor vanished: LatexVerbatimBaseParser.read_verbatim_content')
    vi = [a.arg for a in rv.args.args][4] if len(rv.args.args) > 4 else 'verbatim_info'
    cases = symex.sink_cases(rv, lambda c: call_name(c) == 'make_node' and c.args
                             and unparse(c.args[0]) == 'LatexCharsNode')
    why = None if cases else 'no LatexCharsNode is built'
    for cs in cases:
        ch, po, pe = kwarg(cs.sub, 'chars'), kwarg(cs.sub, 'pos'), kwarg(cs.sub, 'pos_end')
        d = cs.env.get('#def', {}).get(ch.id) if isinstance(ch, ast.Name) else None
        if not (isinstance(d, ast.Call) and call_name(d) == 'finalize_verbatim_string'):
            why = 'the node text %s is not the result of finalize_verbatim_string' % short(ch)
        elif po is None or unparse(po) != vi + '.pos_start' or pe is None or unparse(pe) != vi + '.pos_end':
            why = 'the node span is (%s, %s), not (%s.pos_start, %s.pos_end) as set by ' \
                  'finalize_verbatim_string' % (short(po), short(pe), vi, vi)
    ctx.decide('R01g', why is None, vm, rv, 'node uses the text and the positions computed by '
                                            'finalize_verbatim_string',
               'read_verbatim_content: %s' % why, construct='read_verbatim_content: uses finalize result')
    # R01m: the stopping character is handed back to the reader only on request
    pb = symex.sink_cases(rv, lambda c: call_name(c) in ('move_to_pos_chars', 'move_to_token', '_advance_to_pos'))
    stop_syms = set()
    for cs in pb or symex.sink_cases(rv, lambda c: True)[:1]:
        for sym, d in cs.env.get('#def', {}).items():
            if isinstance(d, ast.Call) and call_name(d) == 'new_char_check_stop_condition':
                stop_syms.add(sym)
    bad = None
    for cs in pb:
        facts = set()
        for t, pol in cs.conds:
            for a, ap in symex._atoms(t, pol):
                facts.add((unparse(a), ap))
        req = [S for S in stop_syms if ("%s['put_back_char']" % S, True) in facts and (
            ('%s is not True' % S, True) in facts or ('%s is True' % S, False) in facts or
            ('isinstance(%s, dict)' % S, True) in facts)]
        if not req:
            bad = cs
            break
    ctx.decide('R01m', bad is None and bool(stop_syms), vm, (bad.node if bad else rv),
               'the reader is moved back over the stopping character only when the stop condition '
               'returned a mapping with put_back_char set (%d site path(s))' % len(pb),
               'read_verbatim_content moves the reader back on the path [%s] where the stop condition '
               'did not ask for it (a plain True means: the stopping character is consumed): the '
               'closing delimiter counted into the group node is read again, nodes overlap'
               % (' & '.join(bad.cond_src())[:200] if bad else 'stop-condition result not found'),
               construct='read_verbatim_content: put back on request only')

    # ------------------------------------------------------------ R01h
    n_rec = 0
    for mod in repo.modules.values():
        for f in mod.functions.values():
            env = None
            for c in [c for c in iter_own(f) if isinstance(c, ast.Call)
                      and call_name(c) == 'LatexWalkerNodesParseError']:
                rn = kwarg(c, 'recovery_nodes')
                at, past = kwarg(c, 'recovery_at_token'), kwarg(c, 'recovery_past_token')
                if rn is None or (at is None and past is None):
                    continue
                if env is None:
                    env = affine.single_assign_env(f)
                tokv = unparse(at if at is not None else past)
                spans = _recovery_spans(f, rn, env)
                if not spans:
                    continue
                n_rec += 1
                for (p, q, node) in spans:
                    covers = (p == tokv + '.pos' and q == tokv + '.pos_end')
                    zero = (p == q == tokv + '.pos')
                    if covers:
                        ok = past is not None
                        why = 'recovery node covers the token [%s, %s)' % (p, q)
                    elif zero:
                        ok = at is not None
                        why = 'recovery node is zero-width at %s' % p
                    else:
                        ctx.unknown('R01h', mod, c, 'recovery node span (%s, %s) not related to %s'
                                    % (p, q, tokv), construct='%s: recovery of %s' % (f._qualname, tokv))
                        continue
                    ctx.decide('R01h', ok, mod, c,
                               why + ', reader resumes %s it' % ('after' if past is not None else 'at'),
                               why + ' but the reader resumes %s the token: the same source text is '
                               '%s' % ('at' if at is not None else 'after',
                                       'parsed twice (the recovered node overlaps the following '
                                       'nodes and lies outside its parent)' if at is not None else
                                       'skipped'),
                               construct='%s: recovery of %s (%s)' % (f._qualname, tokv, short(node, 40)))
    ctx.analysed['recovery_sites'] = n_rec

    # ------------------------------------------------------------ R01i
    nm = repo.mod(NODES)
    up = nm.functions.get('_update_posposend_from_nodelist')
    if up is None:
        raise AnalysisError('anchor vanished: _update_posposend_from_nodelist')
    okf = _first_last_spans(nm, up)
    ctx.decide('R01i', okf, nm, up, 'pos from the first non-None child, pos_end from the last one',
               '_update_posposend_from_nodelist does not take pos from the first and pos_end from '
               'the last non-None child', construct='_update_posposend_from_nodelist')
    lv = nm.methods('LatexNode').get('latex_verbatim')
    llv = nm.methods('LatexNodeList').get('latex_verbatim')
    if lv is None or llv is None:
        raise AnalysisError('anchor vanished: latex_verbatim')
    rcs = symex.return_cases(lv)
    bad = [c for c in rcs if unparse(c.sub).replace(' ', '') != 'self.latex_walker.s[self.pos:self.pos_end]']
    ctx.decide('R01i', bool(rcs) and not bad, nm, lv, 'latex_verbatim() = s[pos:pos_end]',
               'LatexNode.latex_verbatim() returns %s, not latex_walker.s[pos:pos_end]'
               % (short(bad[0].sub) if bad else 'nothing'), construct='LatexNode.latex_verbatim')
    why = None
    rcs = symex.return_cases(llv)
    if len(rcs) != 1:
        why = '%d return cases' % len(rcs)
    else:
        v = rcs[0].node.value
        if not (isinstance(v, ast.Call) and call_name(v) == 'join' and isinstance(call_recv(v), ast.Constant)
                and call_recv(v).value == '' and len(v.args) == 1):
            why = 'the result %s is not the plain concatenation of a list' % short(v)
        else:
            ew = shapes.elementwise(llv, v.args[0])
            if ew is None:
                why = 'the list joined (%s) is not built element by element in a recognised way' % short(v.args[0])
            elif unparse(ew.iter_expr) != 'self.nodelist':
                why = 'iterates %s, not self.nodelist' % short(ew.iter_expr)
            else:
                for conds, apps in ew.outcomes:
                    facts = ew.facts_of(conds)
                    isnone = (ew.var + ' is None', True) in facts or (ew.var + ' is not None', False) in facts
                    if apps is None:
                        why = 'the loop is left early'
                    elif isnone and apps:
                        why = 'a None child contributes %s' % short(apps[0])
                    elif not isnone and not (len(apps) == 1 and apps[0] is not None and
                                             unparse(apps[0]) == ew.var + '.latex_verbatim()'):
                        why = 'a child contributes %s, not exactly its own latex_verbatim()' % (
                            [short(a) if a is not None else '?' for a in apps])
    ctx.decide('R01i', why is None, nm, llv, 'list verbatim = concatenation of the children in order',
               'LatexNodeList.latex_verbatim() is not the in-order concatenation of its children: %s' % why,
               construct='LatexNodeList.latex_verbatim')
    ln = nm.methods('LatexNode').get('len')
    ok = ln is not None and 'return self.pos_end - self.pos' in unparse(ln)
    ctx.decide('R01i', ok, nm, ln or nm.cls('LatexNode'), 'len = pos_end - pos',
               'LatexNode.len is not pos_end - pos', construct='LatexNode.len', trivial=True)

    # ------------------------------------------------------------ R01k
    cmeth = co.methods('LatexNodesCollector')
    pp = cmeth.get('push_pending_chars')
    fp = cmeth.get('flush_pending_chars')
    if pp is None or fp is None:
        raise AnalysisError('anchor vanished: push_pending_chars / flush_pending_chars')
    PC, PP = 'self._pending_chars', 'self._pending_chars_pos'
    # push: on every path the text grows by the chars parameter at the end; the start position
    # becomes the pos parameter only on a path where it was None, otherwise it is unchanged
    cpar, ppar = [a.arg for a in pp.args.args][1:3]
    why = None
    try:
        ends = [c for c in symex.Walker(want_exits=True, track_attrs=(PC, PP)).run_block(pp.body)
                if c.kind in ('end', 'return')]
    except symex.TooManyPaths as e:
        ends, why = [], str(e)
    for cs in ends:
        tv, pv = cs.env.get(PC), cs.env.get(PP)
        if not (isinstance(tv, ast.BinOp) and isinstance(tv.op, ast.Add) and unparse(tv.left) == PC
                and unparse(tv.right) == cpar):
            why = 'the pending text becomes %s, not %s + %s' % (short(tv) if tv is not None else 'unchanged', PC, cpar)
        facts = set()
        for t_, pol in cs.conds:
            for a, ap in symex._atoms(t_, pol):
                facts.add((unparse(a), ap))
        was_none = (PP + ' is None', True) in facts or (PP + ' is not None', False) in facts
        if pv is None:
            if was_none:
                why = 'the start position stays None on the first push'
        elif unparse(pv) == ppar:
            if not was_none:
                why = 'the start position is overwritten by a later push (path [%s])' % ' & '.join(cs.cond_src())
        elif unparse(pv) != PP:
            why = 'the start position becomes %s' % short(pv)
    if not ends and why is None:
        why = 'no exit found'
    ctx.decide('R01k', why is None, co, pp, 'append text; start position set by the first push only',
               'push_pending_chars: %s: the chars node built from the pending text starts at the wrong '
               'place or has its text out of order' % why, construct='push_pending_chars')
    # flush: the node carries the pending (position, text) pair as it was, and both are reset
    why = None
    try:
        w_ = symex.Walker(is_sink=lambda c: call_name(c) == 'make_node', want_exits=True, track_attrs=(PC, PP))
        cases = w_.run_block(fp.body)
    except symex.TooManyPaths as e:
        cases, why = [], str(e)
    mk = [c for c in cases if c.kind == 'call']
    if not mk and why is None:
        why = 'no chars node is built'
    for cs in mk:
        ch, po = kwarg(cs.sub, 'chars'), kwarg(cs.sub, 'pos')
        if ch is None or unparse(ch) != PC or po is None or unparse(po) != PP:
            why = 'the node gets chars=%s pos=%s, not the pending text and its start position' % (
                short(ch), short(po))
    for cs in [c for c in cases if c.kind in ('end', 'return')]:
        built = any(isinstance(d_, ast.Call) and call_name(d_) == 'make_node'
                    for d_ in cs.env.get('#def', {}).values())
        if not built:
            continue
        tv, pv = cs.env.get(PC), cs.env.get(PP)
        if not (isinstance(tv, ast.Constant) and tv.value == '' and isinstance(pv, ast.Constant) and pv.value is None):
            why = 'after building the node the pending pair is (%s, %s), not reset to (None, \'\')' % (
                short(pv) if pv is not None else 'unchanged', short(tv) if tv is not None else 'unchanged')
    ctx.decide('R01k', why is None, co, fp, 'flush emits (start, text) and resets both',
               'flush_pending_chars: %s: text is emitted twice or at the wrong position' % why,
               construct='flush_pending_chars')
    ctx.assume('the spans produced by different cooperating parsers tile the input (who owns the '
               'whitespace between two constructs) is a run-time relation and is not decided')
    # ---- R01n: a token given back to the reader keeps its leading whitespace unless the function
    # giving it back turns that whitespace into content itself
    ctx.rule('R01n', 'move_to_token(tok, rewind_pre_space=False) appears only in a function that itself reads '
                     'tok.pre_space (turns the whitespace into a node or pending characters); everywhere else a '
                     'token is put back together with its leading whitespace, so that the whitespace is not '
                     'attributed to the construct parsed before it', 6)
    n_mv = 0
    for mod_ in sorted(repo.modules.values(), key=lambda m_: m_.name):
        for q_, f_ in sorted(mod_.functions.items()):
            for c_ in iter_own(f_):
                if not (isinstance(c_, ast.Call) and call_name(c_) == 'move_to_token' and c_.args):
                    continue
                rw = kwarg(c_, 'rewind_pre_space') or (c_.args[1] if len(c_.args) > 1 else None)
                if rw is None or (isinstance(rw, ast.Constant) and rw.value is True):
                    continue
                n_mv += 1
                tokname = unparse(c_.args[0])
                reads = [a_ for a_ in ast.walk(f_) if isinstance(a_, ast.Attribute) and a_.attr == 'pre_space'
                         and isinstance(a_.ctx, ast.Load) and unparse(a_.value) == tokname]
                if not reads and tokname in [a_.arg for a_ in f_.args.args]:
                    # the token is handed in by callers of the same module that did the accounting
                    pi = [a_.arg for a_ in f_.args.args].index(tokname) - (1 if f_.args.args[0].arg == 'self' else 0)
                    callers = []
                    for q2, g_ in mod_.functions.items():
                        for c2 in iter_own(g_):
                            if isinstance(c2, ast.Call) and call_name(c2) == f_.name and g_ is not f_:
                                a2 = c2.args[pi] if pi < len(c2.args) else kwarg(c2, tokname)
                                callers.append(isinstance(a2, ast.Name) and any(
                                    isinstance(x_, ast.Attribute) and x_.attr == 'pre_space' and
                                    unparse(x_.value) == a2.id for x_ in ast.walk(g_)))
                    if callers and all(callers):
                        reads = [True]
                ctx.decide('R01n', bool(reads), mod_, c_,
                           '%s: %s.pre_space is used by the function that keeps it' % (q_, tokname),
                           '%s puts the token %s back without its leading whitespace (rewind_pre_space=%s) but '
                           'never reads %s.pre_space: the whitespace in front of the token stays consumed and is '
                           'attributed to the preceding construct (a macro without arguments then covers the '
                           'spaces after it, and a following no-space optional argument is accepted)'
                           % (q_, tokname, unparse(rw), tokname),
                           construct='%s: %s' % (q_, short(c_, 70)))

    # ---- R01o (C16 R16g): the legacy argument parser advances only to reported positions
    ctx.rule('R01o', 'the pylatexenc-2 argument parser advances its running position only to positions reported by the '
                     'sub-parse (never by arithmetic on the query position): argument nodes do not overlap (C16 R16g)', 4)
    from . import c16 as _c16
    from .. import core as _core
    _core.run_proxied(ctx, _c16, 'R01o', ('R16g',))

    # ---- R01p: a legacy args parser reports (arguments, start, length) with start + length = where it stopped
    ctx.rule('R01p', 'the (arguments, pos, len) triple of a pylatexenc-2 arguments parser is consistent: pos + len does not '
                     'depend on pos (it is the position reached), so the macro node ends where its arguments end', 3)
    for modn_ in ('pylatexenc.macrospec._pyltxenc2_argparsers._verbatimargsparser',
                  'pylatexenc.macrospec._pyltxenc2_argparsers._base'):
        lm_ = repo.mod(modn_)
        for q_, f_ in sorted(lm_.functions.items()):
            if not q_.endswith('.parse_args'):
                continue
            env_ = affine.single_assign_env(f_)
            for r_ in [x for x in iter_own(f_) if isinstance(x, ast.Return) and isinstance(x.value, ast.Tuple)
                       and len(x.value.elts) == 3]:
                p_, l_ = r_.value.elts[1], r_.value.elts[2]
                try:
                    tot = affine.norm(ast.BinOp(left=p_, op=ast.Add(), right=l_), env_)
                    pn = affine.norm(p_, env_)
                except affine.NotAffine:
                    ctx.unknown('R01p', lm_, r_, 'start/length not affine', construct='%s: %s' % (q_, short(r_, 50)))
                    continue
                left = sorted(k for k in pn[1] if tot[1].get(k, 0) != 0)
                ctx.decide('R01p', not left, lm_, r_, '%s: pos + len = %s' % (q_, affine.show(tot)),
                           '%s returns a start and a length whose sum %s still depends on the start (%s): the length was '
                           'measured from another position than the one returned, so the macro node ends inside or past '
                           'its own arguments and overlaps the next node' % (q_, affine.show(tot), left),
                           construct='%s: %s' % (q_, short(r_, 50)))
    # ---- R01q: a token reader starts at the beginning of the string
    ctx.rule('R01q', 'LatexTokenReader.__init__ starts at position 0 whatever the string contains (nothing is skipped '
                     'silently: the nodes cover the whole input)', 1)
    tri_ = trm.methods('LatexTokenReader').get('__init__')
    for st_ in [x for x in iter_own(tri_) if isinstance(x, ast.Assign) and any(is_self_attr(t_, '_pos') for t_ in x.targets)]:
        ctx.decide('R01q', isinstance(st_.value, ast.Constant) and st_.value.value == 0, trm, st_,
                   'the reader starts at 0', 'the reader starts at %s: characters before that position (a byte-order mark) '
                   'belong to no token and no node, so the top-level nodes no longer reproduce the input' % short(st_.value, 50),
                   construct='LatexTokenReader.__init__: start position')

    # ---- R01r: the white space in front of a token is never cut off an END position
    ctx.rule('R01r', '`tok.pos - len(tok.pre_space)` -- the place where the white space in front of a token begins -- is used as '
                     'a START (pos=, a position to move the reader to) only: that white space has been handed to the content '
                     'before the token (a chars / whitespace node), so an end position computed this way lies before the end of '
                     'the last child', 5)
    n_ws = 0
    for mod in sorted(repo.modules.values(), key=lambda m_: m_.name):
        if not mod.name.startswith('pylatexenc.latexnodes') and not mod.name.startswith('pylatexenc.macrospec'):
            continue
        for x_ in ast.walk(mod.tree):
            if not (isinstance(x_, ast.BinOp) and isinstance(x_.op, ast.Sub) and isinstance(x_.left, ast.Attribute)
                    and x_.left.attr == 'pos' and isinstance(x_.right, ast.Call) and unparse(x_.right.func) == 'len'
                    and len(x_.right.args) == 1 and unparse(x_.right.args[0]) == unparse(x_.left.value) + '.pre_space'):
                continue
            n_ws += 1
            par_ = getattr(x_, '_parent', None)
            role = None
            if isinstance(par_, ast.keyword):
                role = par_.arg
            elif isinstance(par_, ast.Assign):
                role = unparse(par_.targets[0])
            elif isinstance(par_, ast.Call):
                role = call_name(par_) + '()'
            fq = enclosing_func(x_)
            ctx.decide('R01r', not (role and 'end' in role.lower()), mod, x_,
                       'start of the leading white space used as %s' % (role or 'a value'),
                       '%s is set to %s: the white space in front of the token already belongs to the content before it, so this '
                       'end lies inside (before the end of) the last child: the parent no longer covers its children'
                       % (role, unparse(x_)), construct='%s: %s' % (getattr(fq, '_qualname', getattr(fq, 'name', '?')), role))

    # ---- R01u: a node that ends at its token's end leaves the reader there
    ctx.rule('R01u', 'expression parser: where a node is built with pos_end = <token>.pos_end, the reader stands at that token\'s '
                     'end when the node is built (last reader movement on the path: the next_token() that read the token, or a '
                     'move_past_token(token) with the post-space): a reader left in front of the white space that the node '
                     'already covers makes the next node overlap it', 2)
    exm = repo.mod('pylatexenc.latexnodes.parsers._expression')
    pst = exm.functions.get('LatexExpressionParser._parse_single_token')
    if pst is None:
        raise AnalysisError('anchor vanished: LatexExpressionParser._parse_single_token')
    MOVES = ('next_token', 'move_past_token', 'move_to_token', 'move_to_pos_chars', 'next_chars')
    try:
        ucs = symex.Walker(is_sink=lambda c_: call_name(c_) in MOVES or (
            call_name(c_) == 'make_node' and kwarg(c_, 'pos_end') is not None), trace=True).run(pst)
    except symex.TooManyPaths:
        ucs = []
    n_un, seen_u = 0, set()
    for cs in ucs:
        if call_name(cs.sub) != 'make_node':
            continue
        pe_ = unparse(kwarg(cs.node, 'pos_end'))
        if not pe_.endswith('.pos_end'):
            continue
        tokv = pe_[:-8]
        tr_ = [(call_name(sub_), sub_) for _n, sub_ in cs.env.get('#trace', ()) if call_name(sub_) in MOVES]
        last = tr_[-1] if tr_ else None
        ok = last is not None and (last[0] == 'next_token' or (
            # recovery: the reader is put where the placeholder token ends (C06 R06b: pos_end == recovery_token_at_pos)
            last[0] == 'move_to_pos_chars' and last[1].args and unparse(last[1].args[0]).endswith('.recovery_token_at_pos')) or (
            last[0] == 'move_past_token' and last[1].args and tokv in unparse(last[1].args[0]) and not any(
                k_.arg == 'fastforward_post_space' and isinstance(k_.value, ast.Constant) and k_.value.value is False
                for k_ in last[1].keywords)))
        key_ = (id(cs.node), ok)
        if key_ in seen_u:
            continue
        seen_u.add(key_)
        n_un += 1
        ctx.decide('R01u', ok, exm, cs.node, 'node ending at %s built with the reader at that position' % pe_,
                   'a node with pos_end=%s is built on the path [%s] after the reader was moved by %s: the reader is left in front '
                   'of white space that the node covers (its pos_end includes the post-space), so the parent ends before its '
                   'child and the next top-level node overlaps it' % (pe_, ' & '.join(cs.cond_src())[-100:],
                                                                  short(last[1], 60) if last else 'nothing'),
                   construct='_parse_single_token: node ending at %s' % pe_)
    if n_un < 2:
        ctx.unknown('R01u', exm, pst, 'only %d token-ended nodes found' % n_un, construct='_parse_single_token: token-ended nodes')

    # ---- R01t: the text of a char token is the source at its span
    ctx.rule('R01t', 'LatexTokenReader: every token of kind char is built with the source slice of its own span as text '
                     '(`s[P:E]` with pos=P and pos_end=E, `s[P]` with pos_end=P+1, or the text it was handed together with '
                     'its span), locals expanded: a literal in its place (a normalised paragraph break) makes the chars node '
                     'differ from the source it covers', 3)
    n_ct = 0
    for q_, f_ in sorted(trm.functions.items()):
        if not q_.startswith('LatexTokenReader.'):
            continue
        try:
            tcs = symex.Walker(is_sink=lambda c_: call_name(c_) == 'make_token' and kwarg(c_, 'tok') is not None
                               and isinstance(kwarg(c_, 'tok'), ast.Constant) and kwarg(c_, 'tok').value == 'char'
                               and kwarg(c_, 'arg') is not None and kwarg(c_, 'pos') is not None
                               and kwarg(c_, 'pos_end') is not None).run(f_)
        except symex.TooManyPaths:
            continue
        seen_t = set()
        params_ = {a_.arg for a_ in f_.args.args}
        for cs in tcs:
            a_ = symex.expand(kwarg(cs.sub, 'arg'), cs.env)
            p_ = unparse(symex.expand(kwarg(cs.sub, 'pos'), cs.env))
            e_ = unparse(symex.expand(kwarg(cs.sub, 'pos_end'), cs.env))
            ok = False
            if isinstance(a_, ast.Subscript) and unparse(a_.value) in ('s', 'self.s'):
                if isinstance(a_.slice, ast.Slice):
                    ok = a_.slice.lower is not None and a_.slice.upper is not None and \
                        unparse(a_.slice.lower) == p_ and unparse(a_.slice.upper) == e_
                else:
                    ok = unparse(a_.slice) == p_ and e_.replace(' ', '') == (p_ + '+1').replace(' ', '')
            elif isinstance(a_, ast.Name) and a_.id in params_ and p_ in params_ and e_ in params_:
                ok = True       # text and span handed in together (checked at the caller)
            key_ = (unparse(a_), p_, e_)
            if key_ in seen_t:
                continue
            seen_t.add(key_)
            n_ct += 1
            ctx.decide('R01t', ok, trm, cs.node, '%s: char token text %s over [%s, %s)' % (q_, short(a_, 30), p_[:30], e_[:30]),
                       '%s builds a char token with the text %s over the span [%s, %s): that is not the source slice of the '
                       'span, so the chars node made from it carries text that differs from the input at its position (a '
                       'paragraph break written as newline-blank-tab-newline comes out as two newlines)'
                       % (q_, short(a_, 40), p_[:50], e_[:50]), construct='%s: char token text %s' % (q_, short(a_, 30)))
    if n_ct < 3:
        ctx.unknown('R01t', trm, None, 'only %d char-token constructions found' % n_ct, construct='char token text')

    # ---- R01v: a span does not start at a position that was only peeked at
    ctx.rule('R01v', 'parsers: the position reported by peek_space_chars() (where the blanks in front of the reader END, nothing '
                     'being consumed) is never remembered as the start of a span (a *pos_start field, a pos= argument): the '
                     'content parsed next still begins with those blanks, so its first chars node would start before the node '
                     'built around it (exercised on a built-in example on every run)', 1)

    def _peeked_starts(fnode_):
        for st_ in iter_own(fnode_):
            if not (isinstance(st_, ast.Assign) and any(isinstance(c_, ast.Call) and call_name(c_) == 'peek_space_chars'
                                                        for c_ in ast.walk(st_.value))):
                continue
            tg_ = []
            for t_ in st_.targets:
                tg_ += list(t_.elts) if isinstance(t_, (ast.Tuple, ast.List)) else [t_]
            for t_ in tg_:
                tx_ = unparse(t_)
                if tx_ in ('_', '__'):
                    continue
                as_start = 'pos_start' in tx_ or any(
                    isinstance(k_, ast.keyword) and k_.arg in ('pos', 'pos_start') and unparse(k_.value) == tx_
                    for k_ in ast.walk(fnode_))
                if as_start:
                    yield st_, tx_
    ex1_ = ast.parse('def f(self, tr, ps):\n    _, _, self.elem_pos_start = tr.peek_space_chars(ps)\n')
    set_parents_(ex1_)
    if len(list(_peeked_starts(ex1_.body[0]))) != 1:
        raise AnalysisError('R01v: the peeked-start rule no longer fires on its built-in example')
    n_pf = 0
    for mn_, mod_ in sorted(repo.modules.items()):
        if not (mn_.startswith('pylatexenc.latexnodes.parsers') or mn_.startswith('pylatexenc.macrospec')):
            continue
        for q_, f_ in sorted(mod_.functions.items()):
            n_pf += 1
            for st_, tx_ in _peeked_starts(f_):
                ctx.refuted('R01v', mod_, st_, '%s remembers the end of the blanks reported by peek_space_chars() as the span start %s '
                            '(%s): nothing was consumed, so the content parsed next begins with those blanks and its first chars '
                            'node starts BEFORE the node that is built around it with this start -- a child outside its parent\'s span'
                            % (q_, tx_, short(st_, 60)), construct='%s: %s from peek_space_chars' % (q_, tx_))
    if n_pf < 20:
        raise AnalysisError('only %d parser functions scanned for R01v' % n_pf)
    ctx.holds('R01v', repo.mod('pylatexenc.latexnodes.parsers._stdarg'), None,
              'no span start taken from peek_space_chars in %d parser functions (built-in example flagged)' % n_pf,
              construct='peeked span start scan', trivial=True)

    # ---- R01w: a node ends at its token only when it has no content
    ctx.rule('R01w', 'parsers: where the end of a node is chosen between the end of its content (<content>.pos_end) and the end of '
                     'the token that introduces it (<tok>.pos_end), the token\'s end is taken exactly when there is no content '
                     '(`<content> is None`): under any further condition a node with content ends at its token, before its own '
                     'children', 1)
    n_ch = 0
    for mn_, mod_ in sorted(repo.modules.items()):
        if not mn_.startswith('pylatexenc.latexnodes.parsers'):
            continue
        for q_, f_ in sorted(mod_.functions.items()):
            cands = []
            for x_ in iter_own(f_):
                if isinstance(x_, ast.IfExp):
                    cands.append((x_, x_.test, x_.body, x_.orelse))
                elif isinstance(x_, ast.If) and len(x_.body) == 1 and len(x_.orelse) == 1 and \
                        isinstance(x_.body[0], ast.Assign) and isinstance(x_.orelse[0], ast.Assign) and \
                        unparse(x_.body[0].targets[0]) == unparse(x_.orelse[0].targets[0]):
                    cands.append((x_, x_.test, x_.body[0].value, x_.orelse[0].value))
            for x_, t_, a_, b_ in cands:
                if not all(isinstance(v_, ast.Attribute) and v_.attr == 'pos_end' and isinstance(v_.value, ast.Name) for v_ in (a_, b_)):
                    continue
                na_, nb_ = a_.value.id, b_.value.id
                # which arm is the content: the one whose variable the test speaks about
                tn_ = {n_.id for n_ in ast.walk(t_) if isinstance(n_, ast.Name)}
                if na_ in tn_ and nb_ not in tn_:
                    content, want = na_, ('%s is not None' % na_, na_)
                elif nb_ in tn_ and na_ not in tn_:
                    content, want = nb_, ('%s is None' % nb_, 'not %s' % nb_)
                else:
                    continue
                n_ch += 1
                ctx.decide('R01w', unparse(t_) in want, mod_, x_, '%s: token end only without content (%s)' % (q_, unparse(t_)),
                           '%s ends the node at %s or %s depending on `%s`, which is more than "there is no content": a node whose '
                           'content exists but fails the extra condition ends at its introducing token while its children lie '
                           'behind that position -- children outside the span of their parent'
                           % (q_, unparse(a_), unparse(b_), short(t_, 70)), construct='%s: end of node with optional content' % q_)
    if not n_ch:
        ctx.unknown('R01w', repo.mod('pylatexenc.latexnodes.parsers._stdarg'), None,
                    'no choice between content end and token end found in the parsers', construct='end of node with optional content')

    # ---- R01s: the marker text is the whole text of the tokens it spans
    ctx.rule('R01s', 'LatexOptionalCharsMarkerParser: what is added to the marker text for a token is the whole text of that token '
                     '(tok.arg, or the characters of a specials token), on every path of the reading loop: the chars node ends at '
                     'the token\'s pos_end, so a shortened text would not equal the source at its span', 1)
    om_ = repo.mod('pylatexenc.latexnodes.parsers._optionals')
    ps_ = om_.functions.get('LatexOptionalCharsMarkerParser._parse_single')
    lps_ = [l_ for l_ in iter_own(ps_) if isinstance(l_, ast.While)] if ps_ is not None else []
    toks_ = [t_.targets[0].id for l_ in lps_ for t_ in iter_own(l_) if isinstance(t_, ast.Assign) and isinstance(t_.value, ast.Call)
             and call_name(t_.value) == 'next_token' and isinstance(t_.targets[0], ast.Name)]
    accn_ = [a_.target.id for l_ in lps_ for a_ in iter_own(l_) if isinstance(a_, ast.AugAssign) and isinstance(a_.op, ast.Add)
             and isinstance(a_.target, ast.Name) and not isinstance(a_.value, ast.Constant)]
    if not lps_ or not toks_ or not accn_:
        ctx.unknown('R01s', om_, ps_, 'reading loop / token variable / accumulation not found', construct='chars marker: token text')
    else:
        tk_, acc_ = toks_[0], accn_[0]
        try:
            mcs = symex.Walker(want_exits=True, track_attrs=(tk_ + '.tok', tk_ + '.arg')).run_block(lps_[0].body)
        except symex.TooManyPaths as e:
            mcs = None
            ctx.unknown('R01s', om_, lps_[0], str(e), construct='chars marker: token text')
        if mcs is not None:
            pieces = {}
            for cs in mcs:
                v_ = cs.env.get(acc_)
                while isinstance(v_, ast.BinOp) and isinstance(v_.op, ast.Add):
                    if not isinstance(v_.right, ast.Constant):
                        pieces.setdefault(unparse(v_.right), cs)
                    v_ = v_.left
            whole = (tk_ + '.arg', tk_ + '.arg.specials_chars')
            badp = sorted(t_ for t_ in pieces if t_ not in whole)
            ctx.decide('R01s', bool(pieces) and not badp, om_, lps_[0],
                       'pieces added to the marker text: %s' % sorted(pieces),
                       'the marker text gets %s for a token, not the token\'s whole text (%s): the chars node still ends at the '
                       'token\'s pos_end, so its text is shorter than the source it spans (`--` read as the marker `-`, the second '
                       'dash belongs to no node)' % (badp[:2], ' / '.join(whole)), construct='chars marker: token text')

    # ---- R01x: the delimited verbatim argument starts at its opening delimiter
    ctx.rule('R01x', 'LatexDelimitedVerbatimParser.parse: on every path the start position of the group (the `cur_pos()` taken '
                     'before the first character is read) is taken after the white space in front of the argument has been '
                     'skipped (skip_space_chars) and nothing is skipped between taking it and reading the opening delimiter: '
                     'the group node spans `|b|`, not the blanks before it, which belong to no argument '
                     '(syntax-directed walk of the statement order, both arms of every branch)', 1)
    vm_ = repo.mod('pylatexenc.latexnodes.parsers._verbatim')
    vp_ = vm_.methods('LatexDelimitedVerbatimParser').get('parse')
    if vp_ is None:
        raise AnalysisError('anchor vanished: LatexDelimitedVerbatimParser.parse')
    n1x = 0
    for evs_, rd_ in verbatim_first_read_paths(vp_, vm_.methods('LatexDelimitedVerbatimParser')):
        kinds_ = [k_ for k_, _n in evs_]
        if 'POS' not in kinds_:
            continue
        n1x += 1
        ip_ = len(kinds_) - 1 - kinds_[::-1].index('POS')
        ok_ = 'SKIP' in kinds_[:ip_] and 'SKIP' not in kinds_[ip_ + 1:]
        ctx.decide('R01x', ok_, vm_, rd_, 'start position taken after the white space, right before the delimiter is read',
                   'LatexDelimitedVerbatimParser.parse: on the path [%s] the start position of the group is taken %s: the group '
                   'node of a verbatim argument that is preceded by white space starts in front of its opening delimiter and '
                   'overlaps the blanks that no argument owns' % (
                       ' > '.join(kinds_ + ['READ']),
                       'before the white space is skipped' if 'SKIP' in kinds_[ip_ + 1:] else 'without white space being skipped'),
                   construct='verbatim argument start [%s]' % ' > '.join(kinds_ + ['READ']))
    if not n1x:
        ctx.unknown('R01x', vm_, vp_, 'no path that takes cur_pos() before reading the delimiter', construct='verbatim argument start')

    return 'other', (
        'Span algebra at every construction site: for each chars node pos_end - pos - len(chars) '
        'normalises to 0 (affine normaliser with single-assignment inlining and the token-span '
        'lemma); comment/macro/specials nodes forward all fields of one token; delimited and call '
        'nodes end at the reader position taken after their content; a path analysis of '
        'process_one_token shows the leading whitespace of every token is consumed exactly once; '
        'verbatim truncations are paired with position updates; recovery nodes agree with the '
        'resume point.  Tiling across cooperating parsers is not decided.')


def _alias_of(f, expr, target):
    if isinstance(expr, ast.Name):
        for s in iter_own(f):
            if isinstance(s, ast.Assign) and unparse(s.targets[0]) == expr.id and unparse(s.value) == target:
                return True
    return False


def _caller_facts(mod, fn):
    """facts that dominate every call `self.<fn.name>(...)` / `<fn.name>(...)` in the module, with
    the argument names rewritten to the parameter names (private helpers only: their call sites
    are all in this module).  None if there is no call site or the helper is public."""
    if not fn.name.startswith('_') or fn.name.startswith('__'):
        return None
    params = [a.arg for a in fn.args.args]
    if params and params[0] in ('self', 'cls'):
        params = params[1:]
    sites = [c for c in ast.walk(mod.tree) if isinstance(c, ast.Call) and call_name(c) == fn.name]
    if not sites:
        return None
    common = None
    for c in sites:
        if c.keywords or len(c.args) != len(params) or not all(isinstance(a, ast.Name) for a in c.args):
            return None
        ren = dict((a.id, p) for a, p in zip(c.args, params))

        class R(ast.NodeTransformer):
            def visit_Name(self, n):
                return ast.Name(id=ren.get(n.id, n.id), ctx=n.ctx)
        fs = set()
        for t, pol in atomic_facts(c):
            fs.add((unparse(R().visit(symex.clone(t))), pol))
        common = fs if common is None else (common & fs)
    return common


def _token_lemma(call, chars, pos, pe, d, mod=None):
    """chars=T.arg, pos=T.pos, pos_end=T.pos_end under the fact T.tok == 'char' (C11 R11a/R01b:
    a char token's span equals the length of its text).  The fact may dominate the construction
    site itself or every call site of the private helper that contains it."""
    c, p = unparse(chars), unparse(pos)
    if pe is None or not c.endswith('.arg'):
        return None
    t = c[:-4]
    if p == t + '.pos' and unparse(pe) == t + '.pos_end':
        facts = [(unparse(x), pol) for x, pol in atomic_facts(call)]
        fn = enclosing_func(call)
        if mod is not None and fn is not None:
            cf = _caller_facts(mod, fn)
            if cf:
                facts = facts + list(cf)
        if any(pol and x in ("%s.tok == 'char'" % t,) for x, pol in facts):
            return "token-span lemma: %s is a 'char' token, pos_end - pos == len(arg)" % t
        # the math-delimiter recovery node: delimiter tokens also span exactly their text
        if any(pol and ("%s.tok in ('mathmode_inline', 'mathmode_display')" % t) in x
               for x, pol in facts):
            return 'token-span lemma: math delimiter tokens span exactly their delimiter text'
    return None


def _known_opaque(f, chars):
    """Sites whose text is not a source slice by design (reviewed)."""
    q = getattr(f, '_qualname', '')
    if q.endswith('LatexOptionalCharsMarkerParser._parse_single') and unparse(chars) == 'matched_chars':
        return ('reviewed: the marker text is whitespace-normalised by design (chars_list entries are '
                'joined with single blanks); span is [first token pos, last token pos_end)')
    if q.endswith('read_verbatim_content') and unparse(chars) == 'verbatim_string':
        return 'positions come from finalize_verbatim_string (decided by R01g)'
    if q.endswith('chars_to_node'):
        return 'helper: span and text are decided at its call sites (C18 R18a)'
    return None


def _recovery_spans(f, rn, env):
    """(pos, pos_end, node expr) for the recovery node(s) passed as recovery_nodes=."""
    exprs = []
    if isinstance(rn, ast.Call):
        exprs.append(rn)
    elif isinstance(rn, ast.Name):
        for s in iter_own(f):
            if isinstance(s, ast.Assign) and unparse(s.targets[0]) == rn.id and isinstance(s.value, ast.Call):
                exprs.append(s.value)
    out = []
    mod = getattr(f, '_module', None)
    for e in exprs:
        if call_name(e) not in ('make_node', 'make_nodelist'):
            # a private helper of the same module that builds the node: follow one level
            helper = None
            for cand in _same_module_functions(f).get(call_name(e), []):
                helper = cand
            if helper is None or e.keywords:
                continue
            hp = [a.arg for a in helper.args.args]
            if hp and hp[0] in ('self', 'cls'):
                hp = hp[1:]
            if len(hp) != len(e.args):
                continue
            ren = dict(zip(hp, e.args))
            for r in [r for r in iter_own(helper) if isinstance(r, ast.Return) and isinstance(r.value, ast.Call)
                      and call_name(r.value) in ('make_node', 'make_nodelist')]:
                p, q = kwarg(r.value, 'pos'), kwarg(r.value, 'pos_end')
                if p is None or q is None:
                    continue
                out.append((unparse(symex.subst(p, ren)), unparse(symex.subst(q, ren)), r.value))
            continue
        p, q = kwarg(e, 'pos'), kwarg(e, 'pos_end')
        if p is None or q is None:
            continue
        out.append((unparse(p), unparse(q), e))
    return out


def _same_module_functions(f):
    """name -> [function nodes] of the module that contains f (found through the parent links)"""
    root = f
    while getattr(root, '_parent', None) is not None:
        root = root._parent
    out = {}
    for n in ast.walk(root):
        if isinstance(n, ast.FunctionDef):
            out.setdefault(n.name, []).append(n)
    return out


def _paired_truncation(ctx, vm, clsname, f):
    """finalize_verbatim_string on every structural path (values substituted, E7):
    pos_end - pos_start == len(<returned text>), the returned text is the parameter cut by
    slices only, and pos_start minus the number of characters cut at the front is the same
    base position on all paths (a front cut is paired with an equal advance of the start)."""
    sparam = f.args.args[1].arg
    vi = f.args.args[2].arg
    PS_, PE_ = vi + '.pos_start', vi + '.pos_end'
    cons = clsname + '.finalize_verbatim_string'

    def front_cut(e):
        if isinstance(e, ast.Name) and e.id == sparam:
            return ast.Constant(value=0)
        if isinstance(e, ast.Subscript) and isinstance(e.slice, ast.Slice) and e.slice.step is None:
            inner = front_cut(e.value)
            if inner is None:
                return None
            lo = e.slice.lower
            if lo is None:
                return inner
            if isinstance(lo, ast.UnaryOp):
                return None            # negative start: counts from the end
            return ast.BinOp(left=inner, op=ast.Add(), right=lo)
        return None
    try:
        rcs = [c for c in symex.Walker(want_returns=True, track_attrs=(PS_, PE_)).run(f) if c.kind == 'return']
    except symex.TooManyPaths as e:
        ctx.unknown('R01g', vm, f, str(e), construct=cons)
        return
    bases = {}
    for cs in rcs:
        path = ' & '.join(cs.cond_src())[-90:]
        T, P, E = cs.sub, cs.env.get(PS_), cs.env.get(PE_)
        pc = '%s [%s]' % (cons, path)
        if P is None or E is None:
            ctx.refuted('R01g', vm, cs.node, 'pos_start / pos_end are not set on this path', construct=pc + ' span')
            continue
        fc = front_cut(T)
        if fc is None:
            ctx.refuted('R01g', vm, cs.node, 'the verbatim text is rebuilt as %s: characters are removed or '
                        'changed without a matching position update, so the node\'s text is not the source '
                        'slice at its position' % short(T, 70), construct=pc + ' text')
            continue
        try:
            d = affine.diff(E, P, {})
            ln = affine.norm_len(T, {})
            ok_len = d == (ln[0], dict((k, v) for k, v in ln[1].items() if v))
            base = affine.diff(P, fc, {})
        except affine.NotAffine as e:
            ctx.unknown('R01g', vm, cs.node, 'span not affine: %s' % e, construct=pc + ' span')
            continue
        ctx.decide('R01g', ok_len, vm, cs.node, 'pos_end = pos_start + len(returned text)',
                   'finalize_verbatim_string does not set pos_end = pos_start + len(<returned text>): '
                   'pos_end - pos_start is %s, the text has length %s' % (affine.show(d), affine.show(ln)),
                   construct=pc + ' pos_end')
        bases[affine.show(base)] = (cs, fc)
        ctx.holds('R01g', vm, cs.node, 'text is the parameter cut by slices; front cut %s' % short(fc),
                  construct=pc + ' text', trivial=True)
    if len(bases) > 1:
        shown = sorted(bases)
        cs, fc = bases[shown[-1]]
        ctx.refuted('R01g', vm, cs.node, 'the text is cut at the front by %s on one path but the start '
                    'position is not advanced by the same amount (start minus front cut is %s on different '
                    'paths): the chars node no longer equals the source slice at its position'
                    % (short(fc), ' / '.join(shown)), construct=cons + ': front cut paired with start')
    elif bases:
        ctx.holds('R01g', vm, f, 'start position = %s + characters cut at the front, on all %d path(s)'
                  % (list(bases)[0], len(rcs)), construct=cons + ': front cut paired with start')


def _block_of(st):
    p = getattr(st, '_parent', None)
    for fld in ('body', 'orelse', 'finalbody'):
        lst = getattr(p, fld, None)
        if isinstance(lst, list) and any(s is st for s in lst):
            return lst
    return [st]


# ---------------------------------------------------------------------------
# whitespace conservation: path analysis of process_one_token


def _whitespace_paths(ctx, mod, f):
    tokname = 'tok'
    PS = tokname + '.pre_space'

    class St(object):
        __slots__ = ('consumed', 'falsy', 'rewind', 'facts', 'rexpr')

        def __init__(self, consumed=0, falsy=False, rewind=None, facts=(), rexpr=None):
            self.consumed, self.falsy, self.rewind, self.facts = consumed, falsy, rewind, tuple(facts)
            self.rexpr = rexpr       # defining expression of the rewind flag when it is not a literal

        def copy(self):
            return St(self.consumed, self.falsy, self.rewind, self.facts, self.rexpr)

    exits = []

    def events(stmt, st):
        """Apply the consumption events of one simple statement."""
        for n in ast.walk(stmt):
            if isinstance(n, ast.Call):
                cn = call_name(n)
                if cn == 'push_pending_chars':
                    ch = kwarg(n, 'chars') or (n.args[0] if n.args else None)
                    if ch is not None and PS in unparse(ch):
                        st.consumed += 1
                elif cn == 'make_node' and kwarg(n, 'chars') is not None and \
                        unparse(kwarg(n, 'chars')) == PS:
                    st.consumed += 1
                elif cn == 'move_to_token' and n.args and unparse(n.args[0]) == tokname:
                    rw = kwarg(n, 'rewind_pre_space')
                    val = True
                    if isinstance(rw, ast.Constant):
                        val = bool(rw.value)
                    elif isinstance(rw, ast.Name):
                        val = st.rewind
                    if val is True:
                        st.consumed += 1     # given back to the reader
                    elif val is None:
                        st.consumed += 0
        if isinstance(stmt, ast.AugAssign) and unparse(stmt.target) == 'self._pending_chars' and \
                unparse(stmt.value) == PS:
            st.consumed += 1
        if isinstance(stmt, ast.Assign) and unparse(stmt.targets[0]) == 'rewind_pre_space':
            if isinstance(stmt.value, ast.Constant):
                st.rewind, st.rexpr = bool(stmt.value.value), None
            else:
                # flag computed from a condition: its value is learnt from the branch decisions
                st.rewind, st.rexpr = None, unparse(stmt.value)
                neg = st.rexpr[4:] if st.rexpr.startswith('not ') else 'not ' + st.rexpr
                for t_, pol in st.facts:
                    if t_ == st.rexpr:
                        st.rewind = pol
                    elif t_ == neg:
                        st.rewind = not pol

    def walk(stmts, states):
        for s in stmts:
            if not states:
                return []
            if isinstance(s, ast.If):
                t = unparse(s.test)
                tstates, fstates = [], []
                for st in states:
                    a, b = st.copy(), st.copy()
                    if t == PS:
                        b.falsy = True
                    a.facts += ((t, True),)
                    b.facts += ((t, False),)
                    if st.rewind is None:
                        rx = st.rexpr
                        negrx = (rx[4:] if rx.startswith('not ') else 'not ' + rx) if rx else None
                        if t in ('rewind_pre_space', rx):
                            a.rewind, b.rewind = True, False
                        elif t in ('not rewind_pre_space', negrx):
                            a.rewind, b.rewind = False, True
                    tstates.append(a)
                    fstates.append(b)
                out = walk(s.body, tstates)
                out += walk(s.orelse, fstates) if s.orelse else fstates
                states = out
            elif isinstance(s, ast.Try):
                # token acquisition: body and handlers both continue
                a = walk(s.body, [st.copy() for st in states])
                for h in s.handlers:
                    a += walk(h.body, [st.copy() for st in states])
                states = a
            elif isinstance(s, (ast.Return, ast.Raise)):
                for st in states:
                    events(s, st)
                    exits.append((s, st))
                states = []
            else:
                for st in states:
                    events(s, st)
        return states

    # start after the token acquisition: whole body, paths before `tok` exists are skipped below
    rest = walk(f.body, [St()])
    for st in rest:
        exits.append((f.body[-1], st))
    n_ok = n_bad = 0
    seen = set()
    for node, st in exits:
        # paths that end before a token was read (finalized check, end of stream) are exempt
        txt = unparse(node)
        pre_token = ("You already called finalize()" in txt) or ('raise exc' == txt.strip()
                                                                  and st.consumed == 0 and not st.facts)
        if any(t == 'self._finalized' and pol for t, pol in st.facts):
            continue
        if isinstance(node, ast.Raise) and any(t == 'final_space' and not pol for t, pol in st.facts):
            continue      # end of stream without trailing space: no token
        key = (node.lineno, st.consumed, st.falsy)
        if key in seen:
            continue
        seen.add(key)
        ok = st.consumed == 1 or (st.consumed == 0 and st.falsy)
        cons = 'process_one_token: exit `%s` [%s]' % (short(node, 50), ', '.join(
            ('' if pol else 'not ') + t[:40] for t, pol in st.facts[-3:]))
        if ok:
            n_ok += 1
            ctx.holds('R01f', mod, node, 'leading whitespace consumed %s' % (
                'once' if st.consumed == 1 else '0 times on the empty-whitespace edge'), construct=cons)
        else:
            n_bad += 1
            ctx.refuted('R01f', mod, node,
                        'on this path the token\'s leading whitespace is consumed %d times%s: '
                        'whitespace is %s' % (st.consumed, '' if not st.falsy else ' (and it is empty)',
                                              'dropped from the node tree' if st.consumed == 0
                                              else 'duplicated'), construct=cons)
    ctx.analysed['process_one_token_paths'] = n_ok + n_bad


def _r01a_site(ctx, mod, f, c, chars, pos, pe, ln, cons):
    env = affine.reaching_env(f, c)
    try:
        if pe is not None:
            width = affine.diff(pe, pos, env)
        else:
            width = affine.norm(ln, env)
        cl = affine.norm_len(chars, env)
    except affine.NotAffine as e:
        ctx.unknown('R01a', mod, c, 'not affine: %s' % e, construct=cons)
        return
    d = (width[0] - cl[0], {k: width[1].get(k, 0) - cl[1].get(k, 0)
                            for k in set(width[1]) | set(cl[1])})
    d = (d[0], {k: v for k, v in d[1].items() if v != 0})
    if d == (0, {}):
        ctx.holds('R01a', mod, c, 'span %s == len(chars)' % affine.show(width),
                  construct=cons, trivial=(affine.show(width) == '0'))
        return
    # token span lemma: a 'char' token satisfies pos_end - pos == len(arg)
    lemma = _token_lemma(c, chars, pos, pe, d, mod)
    if lemma:
        ctx.holds('R01a', mod, c, lemma, construct=cons)
    elif not d[1]:
        ctx.refuted('R01a', mod, c, 'span and text length differ by the constant %d: the '
                                    'chars node does not equal the source slice at its '
                                    'position' % d[0], construct=cons)
    elif d[1] and all(k.startswith('len(') for k in d[1]) and \
            (all(v > 0 for v in d[1].values()) and d[0] >= 0 or
             all(v < 0 for v in d[1].values()) and d[0] <= 0) and \
            any(pol and ('len(%s)' % unparse(t)) in d[1] for t, pol in atomic_facts(c)):
        ctx.refuted('R01a', mod, c, 'span - len(chars) = %s, and the site is guarded by '
                                    'that string being non-empty: the node\'s span never '
                                    'matches its text' % affine.show(d), construct=cons)
    elif _known_opaque(f, chars):
        ctx.holds('R01a', mod, c, _known_opaque(f, chars), construct=cons)
    else:
        fixed = _fixed_width_token_span(ctx, mod, f, c, chars, pos, d)
        if fixed is not None:
            ok_, why_ = fixed
            ctx.decide('R01a', ok_, mod, c, why_, why_, construct=cons)
            return
        ctx.unknown('R01a', mod, c, 'span - len(chars) = %s not decided' % affine.show(d),
                    construct=cons)


def _fixed_width_token_span(ctx, mod, f, c, chars, pos, d):
    """chars=<tok>.arg, pos=<tok>.pos and a span of the constant k: right exactly when every token
    of the kinds that reach the site is k characters wide.  Decided from the widths of the token
    construction sites of those kinds in the token reader."""
    if not (isinstance(chars, ast.Attribute) and chars.attr == 'arg' and isinstance(pos, ast.Attribute)
            and pos.attr == 'pos' and unparse(chars.value) == unparse(pos.value)):
        return None
    tname = unparse(chars.value)
    if set(d[1]) != {'len(%s.arg)' % tname} or d[1]['len(%s.arg)' % tname] != -1 or d[0] < 1:
        return None
    k = d[0]
    kinds = set()
    for t, pol in atomic_facts(c):
        if pol and isinstance(t, ast.Compare) and len(t.ops) == 1 and unparse(t.left) == tname + '.tok':
            if isinstance(t.ops[0], ast.Eq) and isinstance(t.comparators[0], ast.Constant):
                kinds.add(t.comparators[0].value)
            elif isinstance(t.ops[0], ast.In) and isinstance(t.comparators[0], (ast.Tuple, ast.List)):
                kinds |= {e.value for e in t.comparators[0].elts if isinstance(e, ast.Constant)}
    if not kinds:
        return None
    trm = ctx.repo.mod('pylatexenc.latexnodes._tokenreader')
    other = []
    n_sites = 0
    for q, g in trm.functions.items():
        env = affine.single_assign_env(g)
        for mk in [x for x in iter_own(g) if isinstance(x, ast.Call) and call_name(x) in ('make_token', 'LatexToken')]:
            tk = kwarg(mk, 'tok')
            if not (isinstance(tk, ast.Constant) and tk.value in kinds):
                continue
            n_sites += 1
            p_, pe_ = kwarg(mk, 'pos'), kwarg(mk, 'pos_end')
            try:
                w_ = affine.diff(pe_, p_, env) if p_ is not None and pe_ is not None else None
            except affine.NotAffine:
                w_ = None
            if w_ != (k, {}):
                other.append('%s line %d: width %s' % (q, mk.lineno, affine.show(w_) if w_ is not None else '?'))
    if not n_sites:
        return None
    if other:
        return False, ('the node is given the span %d but carries the whole text of a %s token: such tokens are not all '
                       '%d character(s) wide (%s) -- for those (a paragraph break read as one token) the node\'s text '
                       'is longer than the source slice at its position' % (k, '/'.join(sorted(kinds)), k, '; '.join(other[:2])))
    return True, 'every %s token is %d character(s) wide (%d construction sites)' % ('/'.join(sorted(kinds)), k, n_sites)


def _node_spans(fn, methods, order_calls=()):
    """[(pos text, pos_end text, ordered)] for every make_node() reached from `fn` -- directly, or in a helper method
    called on self with the span as arguments -- with locals expanded to their definitions in `fn`; `ordered` says
    that every call named in order_calls on that path came before the call that defines pos_end"""
    def is_helper(c):
        return is_self_attr(c.func) and c.func.attr in methods and methods[c.func.attr] is not fn and any(
            isinstance(x, ast.Call) and call_name(x) == 'make_node' for x in ast.walk(methods[c.func.attr]))
    watch = ('make_node', 'cur_pos') + tuple(order_calls)
    try:
        cases = symex.Walker(is_sink=lambda c: call_name(c) in watch or is_helper(c), trace=True).run(fn)
    except symex.TooManyPaths:
        return []
    out = []
    for cs in cases:
        c = cs.sub
        if call_name(c) == 'make_node':
            p, pe = kwarg(c, 'pos'), kwarg(c, 'pos_end')
        elif isinstance(cs.node, ast.Call) and is_helper(cs.node):
            h = methods[cs.node.func.attr]
            params = [a.arg for a in h.args.args][1:]
            ren = dict(zip(params, c.args))
            ren.update((k.arg, k.value) for k in c.keywords if k.arg)
            try:
                inner = symex.Walker(is_sink=lambda x: call_name(x) == 'make_node').run(h)
            except symex.TooManyPaths:
                inner = []
            if not inner:
                continue
            p = kwarg(inner[0].sub, 'pos')
            pe = kwarg(inner[0].sub, 'pos_end')
            p = symex.subst(p, ren) if p is not None else None
            pe = symex.subst(pe, ren) if pe is not None else None
        else:
            continue
        if p is None or pe is None:
            out.append(('?', '?', False))
            continue
        pe_sym = pe
        ptxt = unparse(symex.expand(p, cs.env))
        petxt = unparse(symex.expand(pe, cs.env))
        # order: the call defining pos_end is the last cur_pos() in the trace and comes after the parse calls
        tr = [call_name(sub) for _n, sub in cs.env.get('#trace', ())]
        ordered = True
        if order_calls:
            last_parse = max([i for i, n_ in enumerate(tr) if n_ in order_calls] or [-1])
            curs = [i for i, n_ in enumerate(tr) if n_ == 'cur_pos']
            ordered = bool(curs) and curs[-1] > last_parse
        out.append((ptxt, petxt, ordered))
    return out


def _first_last_spans(nm, up):
    """`pos` is taken from the first non-None element of the list and `pos_end` from the last one: as loop variables of
    `for n in L` / `for n in reversed(L)` guarded by `n is not None` and left by break, or as the result of a
    first-non-None search (a module-level helper `for x in it: if x is not None: return x`, or next(<generator>, None))
    over L / reversed(L)"""
    param = up.args.args[-1].arg if up.args.args else 'nodelist'

    def direction(it):
        t = unparse(it)
        if t == param:
            return 'fwd'
        if t in ('reversed(%s)' % param, '%s[::-1]' % param):
            return 'bwd'
        return None

    def is_first_non_none(h):
        loops = [l for l in iter_own(h) if isinstance(l, ast.For) and isinstance(l.target, ast.Name)]
        if len(loops) != 1 or not h.args.args or unparse(loops[0].iter) != h.args.args[0].arg:
            return False
        v = loops[0].target.id
        rets = [r for r in ast.walk(loops[0]) if isinstance(r, ast.Return)]
        return len(rets) == 1 and unparse(rets[0].value) == v and any(
            pol and unparse(t) == v + ' is not None' for t, pol in atomic_facts(rets[0]))

    src = {}
    for a in ast.walk(up):
        if not (isinstance(a, ast.Assign) and len(a.targets) == 1 and isinstance(a.targets[0], ast.Name)
                and a.targets[0].id in ('pos', 'pos_end') and isinstance(a.value, ast.Attribute)
                and a.value.attr == a.targets[0].id and isinstance(a.value.value, ast.Name)):
            continue
        var = a.value.value.id
        d = None
        for p_ in parents(a):
            if isinstance(p_, ast.For) and isinstance(p_.target, ast.Name) and p_.target.id == var:
                guarded = any(pol and unparse(t) == var + ' is not None' for t, pol in atomic_facts(a))
                left = any(isinstance(b, ast.Break) for b in ast.walk(p_))
                d = direction(p_.iter) if guarded and left else None
        if d is None:
            defs = [x.value for x in ast.walk(up) if isinstance(x, ast.Assign) and len(x.targets) == 1
                    and isinstance(x.targets[0], ast.Name) and x.targets[0].id == var]
            if len(defs) == 1 and isinstance(defs[0], ast.Call) and any(
                    pol and unparse(t) == var + ' is not None' for t, pol in atomic_facts(a)):
                c = defs[0]
                if isinstance(c.func, ast.Name) and c.func.id in nm.functions and len(c.args) == 1 and \
                        is_first_non_none(nm.functions[c.func.id]):
                    d = direction(c.args[0])
                elif isinstance(c.func, ast.Name) and c.func.id == 'next' and len(c.args) == 2 and \
                        isinstance(c.args[0], ast.GeneratorExp) and len(c.args[0].generators) == 1:
                    g = c.args[0].generators[0]
                    if isinstance(g.target, ast.Name) and unparse(c.args[0].elt) == g.target.id and \
                            [unparse(i) for i in g.ifs] == [g.target.id + ' is not None']:
                        d = direction(g.iter)
        src.setdefault(a.targets[0].id, []).append(d)
    return src.get('pos') == ['fwd'] and src.get('pos_end') == ['bwd']
