# -*- coding: utf-8 -*-
"""C02  Parsing recovers the structure a well-formed document was written with.

Dispatch / argument-kind exhaustiveness and slot alignment; closing predicates;
restoration of promoted delimiters for children; absent optional arguments
consume nothing; default-table facts the property names."""
import ast
import re
from ..core import (AnalysisError, short, unparse, iter_own, call_name, call_recv, kwarg,
                    is_self_attr, atomic_facts, split_conj, parents, enclosing_stmt, enclosing_func,
                    const_value)
from .. import tables, symex, affine

COLL = 'pylatexenc.latexnodes._nodescollector'
TR = 'pylatexenc.latexnodes._tokenreader'
PS = 'pylatexenc.latexnodes._parsingstate'
EXPR = 'pylatexenc.latexnodes.parsers._expression'
STD = 'pylatexenc.latexnodes.parsers._stdarg'
DELIM = 'pylatexenc.latexnodes.parsers._delimited'
OPT = 'pylatexenc.latexnodes.parsers._optionals'
ARGP = 'pylatexenc.macrospec._argumentsparser'

# xparse-style semantics named in the property: letter -> (parser class, optional?)
ARG_KINDS = {
    'm': ('LatexExpressionParser', False), '{': ('LatexExpressionParser', False),
    'o': ('LatexDelimitedGroupParser', True), '[': ('LatexDelimitedGroupParser', True),
    's': ('LatexOptionalCharsMarkerParser', True), '*': ('LatexOptionalCharsMarkerParser', True),
    't': ('LatexOptionalCharsMarkerParser', True),
    'r': ('LatexDelimitedGroupParser', False),
    'd': ('LatexDelimitedGroupParser', True),
    'v': ('LatexDelimitedVerbatimParser', None),   # verbatim: class only
}


def emitted_token_kinds(repo):
    tr = repo.mod(TR)
    kinds = set()
    for c in ast.walk(tr.tree):
        if isinstance(c, ast.Call) and call_name(c) in ('make_token', 'LatexToken'):
            t = kwarg(c, 'tok')
            if isinstance(t, ast.Constant):
                kinds.add(t.value)
            elif isinstance(t, ast.BinOp) and isinstance(t.right, ast.Constant) and \
                    t.right.value == '_environment':
                kinds |= {'begin_environment', 'end_environment'}
            elif t is not None:
                kinds.add('<%s>' % unparse(t))
    ps = repo.mod(PS)
    for n in ast.walk(ps.tree):
        if isinstance(n, ast.Constant) and isinstance(n.value, str) and n.value.startswith('mathmode_'):
            kinds.add(n.value)
    dyn = {k for k in kinds if k.startswith('<')}
    # the dynamic kinds are the `tok` entries of the math delimiter tables
    return (kinds - dyn), dyn


def handled_kinds(fn, tokvar='tok'):
    out = set()
    for n in iter_own(fn):
        if isinstance(n, ast.Compare) and unparse(n.left) == tokvar + '.tok':
            for c in n.comparators:
                if isinstance(c, ast.Constant):
                    out.add(c.value)
                elif isinstance(c, (ast.Tuple, ast.List)):
                    out |= {e.value for e in c.elts if isinstance(e, ast.Constant)}
    return out


def run(ctx):
    repo = ctx.repo
    ctx.rule('R02a', 'token-kind exhaustiveness: every kind the token reader can emit is handled by '
                     'the collector\'s dispatcher and by the expression parser before their final '
                     '"unknown token type" error; each kind is routed to its own parse_* method', 8)
    ctx.rule('R02b', 'argument-kind exhaustiveness: each standard signature letter (* [ { m o s t r d '
                     'v) selects a branch of get_arg_parser_instance returning the parser of that '
                     'kind with the optionality xparse gives the letter', 10)
    ctx.rule('R02c', 'slot alignment: the arguments parser appends exactly one entry per declared '
                     'argument, in order, and hands the same spec list to ParsedArguments', 2)
    ctx.rule('R02d', 'closing predicates: every stop_token_condition returns True only for a token '
                     'of the closing kind that also equals the expected closer; content parsers '
                     'require their stop condition', 6)
    ctx.rule('R02e', 'delimiters promoted for an optional/delimited argument are restored for its '
                     'children: make_child_parsing_state of the group parser returns the contents '
                     'state only for a nested group with the same opening delimiter, else the outer '
                     'state', 2)
    ctx.rule('R02f', 'an absent optional argument consumes nothing: the reader is moved back to the '
                     'first token including its leading whitespace', 2)
    ctx.rule('R02m', 'the tokenizer\'s specials test and the by-name lookup agree: longest match, and among '
                     'equally long ones the first category in lookup order (an overriding category also '
                     'overrides the argument signature used for parsing)', 3)
    ctx.rule('R02l', 'no mutable default argument is mutated: the argument list of one \\verb / verbatim call '
                     'must not be shared with (and grow by) every other call of the process', 5)
    ctx.rule('R02k', 'a parser that collects results in a loop does not lose what it has collected when the '
                     'input ends: every token read of the helper it calls per iteration is inside a handler '
                     'for LatexWalkerEndOfStream (otherwise parse_content turns the escaping end-of-stream into '
                     '"no result" -- a star read just before the end of the input is reported absent)', 2)
    ctx.rule('R02j', 'a ReplaceParsingState delta never installs the state recorded on a node (the state the '
                     'node was parsed in) as the state for what follows', 2)
    ctx.rule('R02i', 'sibling agreement: every argument parser built by get_arg_parser_instance whose class '
                     'takes allow_pre_space receives the standard parser\'s own allow_pre_space', 8)
    ctx.rule('R02h', 'the escape character followed by begin/end starts an environment token only when '
                     'the next character is not a macro-name letter (\\endgroup, \\beginx are macros), for '
                     'both words alike', 1)
    ctx.rule('R02g', 'default table: the line-break macro takes its optional argument only without '
                     'leading whitespace; \\begin/\\end names; paragraph specials', 2)

    co = repo.mod(COLL)
    cm = co.methods('LatexNodesCollector')
    pot = cm.get('process_one_token')
    ex = repo.mod(EXPR)
    pst = ex.methods('LatexExpressionParser').get('_parse_single_token')
    if pot is None or pst is None:
        raise AnalysisError('anchor vanished: process_one_token/_parse_single_token')
    pot_raw = pot
    pot = symex.inline_stmt_helpers(pot, cm)      # checks extracted into a private helper are followed
    kinds, dyn = emitted_token_kinds(repo)
    ctx.analysed['emitted_token_kinds'] = sorted(kinds)
    for fn, mod, label in ((pot, co, 'process_one_token'), (pst, ex, '_parse_single_token')):
        h = handled_kinds(fn)
        missing = sorted(kinds - h)
        if label == '_parse_single_token':
            # environments are disabled in the expression state: \begin/\end arrive as macros
            missing = [k for k in missing if not k.endswith('_environment')]
        ctx.decide('R02a', not missing, mod, fn, 'handles %s' % sorted(h),
                   'token kind(s) %s can be emitted by the reader but are not handled by %s: such '
                   'tokens end in the "unknown token type" error' % (missing, label),
                   construct=label + ': handled token kinds')
    # routing
    want = {'comment': 'parse_comment_node', 'brace_open': 'parse_latex_group', 'macro': 'parse_macro',
            'begin_environment': 'parse_environment', 'specials': 'parse_specials',
            'mathmode_inline': 'parse_math', 'mathmode_display': 'parse_math'}
    got = {}
    for i in [n for n in iter_own(pot) if isinstance(n, ast.If)]:
        ks = set()
        t = i.test
        if isinstance(t, ast.Compare) and unparse(t.left) == 'tok.tok':
            c = t.comparators[0]
            if isinstance(c, ast.Constant):
                ks = {c.value}
            elif isinstance(c, (ast.Tuple, ast.List)):
                ks = {e.value for e in c.elts if isinstance(e, ast.Constant)}
        for s in i.body:
            if isinstance(s, ast.Expr) and isinstance(s.value, ast.Call) and is_self_attr(s.value.func) \
                    and s.value.func.attr.startswith('parse_'):
                for k in ks:
                    got[k] = s.value.func.attr
    for k, w in sorted(want.items()):
        ctx.decide('R02a', got.get(k) == w, co, pot, '%s -> %s' % (k, w),
                   'token kind %s is routed to %s instead of %s' % (k, got.get(k), w),
                   construct='dispatch of ' + k)

    # ------------------------------------------------------------ R02b
    sm = repo.mod(STD)
    gai = sm.methods('LatexStandardArgumentParser').get('get_arg_parser_instance')
    if gai is None:
        raise AnalysisError('anchor vanished: get_arg_parser_instance')
    branches = _arg_branches(gai)
    for letter, (cls, optional) in sorted(ARG_KINDS.items()):
        br = branches.get(letter)
        if br is None:
            ctx.refuted('R02b', sm, gai, 'no branch for the standard argument letter %r' % letter,
                        construct='argument kind %r' % letter)
            continue
        call = br
        okc = call_name(call) == cls
        opt = _optionality(repo, call)
        ctx.decide('R02b', okc and (optional is None or opt == optional), sm, call,
                   '%r -> %s, %s' % (letter, cls, 'optional' if optional else 'mandatory'),
                   'argument letter %r builds %s (%s) but the signature letter means %s (%s)'
                   % (letter, call_name(call), {True: 'optional', False: 'mandatory', None: '?'}[opt],
                      cls, 'optional' if optional else 'mandatory'),
                   construct='argument kind %r' % letter)
    # o/[ uses square brackets; r/d take their delimiters from the spec string
    for letter in ('o', '['):
        br = branches.get(letter)
        if br is not None:
            d = kwarg(br, 'delimiters')
            ok = d is not None and unparse(d).replace(' ', '') in ("('[',']')", "('[',']',)")
            ctx.decide('R02b', ok, sm, br, "optional argument delimited by [ ]",
                       'the optional argument is delimited by %s' % (short(d) if d is not None else '?'),
                       construct='argument kind %r delimiters' % letter, trivial=True)

    # ------------------------------------------------------------ R02c
    am = repo.mod(ARGP)
    ap = am.methods('LatexArgumentsParser').get('parse')
    if ap is None:
        raise AnalysisError('anchor vanished: LatexArgumentsParser.parse')
    loops = [l for l in iter_own(ap) if isinstance(l, ast.For)]
    ok = False
    why = ''
    if len(loops) == 1:
        l = loops[0]
        it = unparse(l.iter)
        over = 'self.arguments_spec_list' in it and 'reversed' not in it and 'sorted' not in it
        apps = [c for c in ast.walk(l) if isinstance(c, ast.Call) and call_name(c) == 'append'
                and unparse(call_recv(c)) == 'argnlist']
        top_app = [s for s in l.body if isinstance(s, ast.Expr) and isinstance(s.value, ast.Call)
                   and s.value in apps]
        early = [n for n in ast.walk(l) if isinstance(n, (ast.Continue, ast.Break))]
        ok = over and len(apps) == 1 and len(top_app) == 1 and not early
        why = 'iterates %s; %d append(s) (%d unconditional); early exits: %d' % (
            it, len(apps), len(top_app), len(early))
    ctx.decide('R02c', ok, am, loops[0] if loops else ap,
               'one unconditional append per declared argument, in order',
               'the arguments parser does not produce exactly one slot per declared argument in '
               'order (%s): argument slots shift against the declared signature' % why,
               construct='LatexArgumentsParser.parse: loop')
    pa = [c for c in iter_own(ap) if isinstance(c, ast.Call) and call_name(c) == 'ParsedArguments']
    ok = bool(pa) and unparse(kwarg(pa[0], 'arguments_spec_list') or ast.Constant(None)) == \
        'self.arguments_spec_list' and unparse(kwarg(pa[0], 'argnlist') or ast.Constant(None)) == 'argnlist'
    ctx.decide('R02c', ok, am, pa[0] if pa else ap, 'ParsedArguments(spec list, argnlist)',
               'ParsedArguments is not built from the declared spec list and the collected slots',
               construct='LatexArgumentsParser.parse: result')

    # ------------------------------------------------------------ R02d
    closing_predicates(ctx, repo, 'R02d')

    # ------------------------------------------------------------ R02e
    _rest(ctx, repo)
    # ------------------------------------------------------------ R02h
    _begin_end_word_boundary(ctx, repo)
    first_tokens_complete(ctx, repo, 'R02f')
    # ------------------------------------------------------------ R02m (shared with C14 M6 / C11 R11f)
    from . import c14
    cm_ = repo.mod(c14.MODULE)
    tfs_ = cm_.methods(c14.CLASS).get('test_for_specials')
    if tfs_ is None:
        raise AnalysisError('anchor vanished: test_for_specials')
    from . import c05 as _c05
    c14._check_test_for_specials(_c05._Sub(ctx, 'R02m'), cm_, tfs_)
    # ------------------------------------------------------------ R02l (shared with C09 R09c)
    from . import c09, c05
    c09._mutable_defaults(c05._Sub(ctx, 'R02l'), repo)
    # ------------------------------------------------------------ R02k (end of input after a partial read)
    _eos_after_partial_read(ctx, repo)
    # ------------------------------------------------------------ R02j (who may replace the state)
    n_rep = 0
    for mod_ in sorted(repo.modules.values(), key=lambda m_: m_.name):
        for c in ast.walk(mod_.tree):
            if not (isinstance(c, ast.Call) and call_name(c) == 'ParsingStateDeltaReplaceParsingState'):
                continue
            v = kwarg(c, 'set_parsing_state') or (c.args[0] if c.args else None)
            if v is None:
                continue
            n_rep += 1
            fn_ = enclosing_func(c)
            exprs = [v]
            if isinstance(v, ast.Name) and fn_ is not None:
                exprs += [s_.value for s_ in iter_own(fn_) if isinstance(s_, ast.Assign) and any(
                    isinstance(t_, ast.Name) and t_.id == v.id for t_ in s_.targets)]
            node_state = [a for e in exprs for a in ast.walk(e) if isinstance(a, ast.Attribute)
                          and a.attr == 'parsing_state' and isinstance(a.value, ast.Name)
                          and a.value.id not in ('self',)]
            ctx.decide('R02j', not node_state, mod_, c,
                       'the replacing state is one computed for what follows (%s)' % short(v, 40),
                       'the state that replaces the collector\'s current state is taken from %s, the state a '
                       'node was PARSED in: inside an optional/delimited argument that is the outer state, '
                       'without the promoted delimiters, so after such a macro the closing `]` of the '
                       'argument is no longer recognised' % short(node_state[0]) if node_state else '',
                       construct='%s: %s' % (getattr(fn_, '_qualname', '<module>'), short(c, 70)))
    if n_rep < 2:
        raise AnalysisError('only %d ParsingStateDeltaReplaceParsingState constructions found' % n_rep)
    # ------------------------------------------------------------ R02i (sibling agreement)
    sm_ = repo.mod(STD)
    gi_ = sm_.methods('LatexStandardArgumentParser').get('get_arg_parser_instance')
    if gi_ is None:
        raise AnalysisError('anchor vanished: get_arg_parser_instance')
    ctors = [c for c in iter_own(gi_) if isinstance(c, ast.Call) and isinstance(c.func, ast.Name)
             and c.func.id.endswith('Parser') and isinstance(getattr(c, '_parent', None), ast.Return)]
    takes = {c.func.id for c in ctors if kwarg(c, 'allow_pre_space') is not None}
    for c in ctors:
        if c.func.id not in takes:
            continue
        v = kwarg(c, 'allow_pre_space')
        ctx.decide('R02i', v is not None and unparse(v) == 'self.allow_pre_space', sm_, c,
                   '%s receives allow_pre_space=self.allow_pre_space' % c.func.id,
                   'this %s is built %s while its siblings in get_arg_parser_instance receive '
                   'allow_pre_space=self.allow_pre_space: for this argument type whitespace before the '
                   'argument changes the structure (the argument is reported absent and its opening '
                   'delimiter becomes a plain character)' % (
                       c.func.id, 'without allow_pre_space' if v is None else 'with allow_pre_space=%s' % short(v)),
                   construct='get_arg_parser_instance: %s' % short(c, 70))
    ctx.assume('equality of the produced tree with the grammar derivation of the document is not '
               'decided; only dispatch, slot and delimiter discipline are')
    # ---- R02n (C09 R09a): parser objects are shared between parses (cached argument parsers): a
    # parser that changes its own configuration while parsing reads the next call differently
    ctx.rule('R02n', 'argument and node parsers keep their configuration while parsing (the standard argument '
                     'parsers are cached and shared): no store or in-place change on a parser object or on an '
                     'alias of one of its attributes (C09 R09a)', 20)
    from . import c09 as _c09
    from .. import core as _core
    _core.run_proxied(ctx, _c09, 'R02n', ('R09a',))

    # ---- R02o
    ctx.rule('R02o', 'a token position derived from a regular-expression match is the end of the whole match '
                     '(m.end()) or provably equal to it from the pattern', 1)
    if match_extent(ctx, 'R02o', repo, TR) == 0:
        ctx.unknown('R02o', repo.mod(TR), None, 'no position derived from a regex match found',
                    construct='match extent')

    # ---- R02q
    ctx.rule('R02q', 'the name given to a call node and to the parser of an environment body is the name carried by '
                     'the token (token.arg), not the name of the specification object', 3)
    _names_from_token(ctx, repo)

    # ---- R02p
    ctx.rule('R02p', 'a delimited verbatim argument nests only on its own pair of delimiters', 1)
    _verbatim_nesting(ctx, repo)

    # ---- R02r (C09 R09b): cached argument parsers are keyed by everything they were built from
    ctx.rule('R02r', 'the cache of standard argument parsers is keyed by a one-to-one function of the argument kind and '
                     'of every option value: a declared signature is parsed by the parser built for it (C09 R09b)', 1)
    _c09._module_state(ctx, repo, 'R02r', lambda name: name.startswith('pylatexenc.latexnodes.parsers'))

    # ---- R02s (C10 R10g), R02t (C11 R11b)
    ctx.rule('R02s', 'the state in which the contents of a delimited argument are parsed is derived from the state given for '
                     'this very parse (no remembered state of another document) (C10 R10g)', 2)
    ctx.rule('R02t', 'peeking a token does not change the reader and remembers nothing (C11 R11b)', 4)
    from . import c10 as _c10, c11 as _c11
    from .. import core as _core
    _core.run_proxied(ctx, _c10, 'R02s', ('R10g',))
    _core.run_proxied(ctx, _c11, 'R02t', ('R11b',))

    # ---- R02u: a specials token counts as marker characters
    ctx.rule('R02u', 'LatexOptionalCharsMarkerParser: a token of kind specials is read as marker characters: on no feasible '
                     'path of the reading loop does a specials token leave the loop before its characters were added to the '
                     'text compared with the marker list (path conditions evaluated with tok.tok = \'specials\')', 1)
    om = repo.mod('pylatexenc.latexnodes.parsers._optionals')
    ps = om.functions.get('LatexOptionalCharsMarkerParser._parse_single')
    lps = [l for l in iter_own(ps) if isinstance(l, ast.While)] if ps is not None else []
    if not lps:
        ctx.unknown('R02u', om, ps, 'reading loop of the chars-marker parser not found', construct='chars marker: specials')
    else:
        lp = lps[0]
        toks = [t_.targets[0].id for t_ in iter_own(lp) if isinstance(t_, ast.Assign) and isinstance(t_.value, ast.Call)
                and call_name(t_.value) == 'next_token' and isinstance(t_.targets[0], ast.Name)]
        accs = [a_ for a_ in iter_own(lp) if isinstance(a_, ast.AugAssign) and isinstance(a_.op, ast.Add)
                and isinstance(a_.target, ast.Name)]
        # the accumulator is the name compared with the marker list
        cmpn = {c_.left.id for c_ in iter_own(lp) if isinstance(c_, ast.Compare) and isinstance(c_.left, ast.Name)
                and isinstance(c_.ops[0], ast.In) and 'chars_list' in unparse(c_.comparators[0])}
        accs = [a_ for a_ in accs if a_.target.id in cmpn and not isinstance(a_.value, ast.Constant)]
        if not toks or not accs:
            ctx.unknown('R02u', om, lp, 'token variable or accumulation not found', construct='chars marker: specials')
        else:
            tk = toks[0]
            acc_line = min(a_.lineno for a_ in accs)
            try:
                lcs = symex.Walker(want_exits=True, track_attrs=(tk + '.tok', tk + '.arg')).run_block(lp.body)
            except symex.TooManyPaths as e:
                lcs = None
                ctx.unknown('R02u', om, lp, str(e), construct='chars marker: specials')
            if lcs is not None:
                bad = None
                n_early = 0
                for cs in lcs:
                    if cs.kind not in ('break', 'continue') or cs.node.lineno > acc_line:
                        continue
                    # only paths on which a token was read
                    if not any(tk + '.' in t_ for t_ in cs.cond_src()):
                        continue
                    n_early += 1
                    if not symex.infeasible(cs.conds, {tk + '.tok': 'specials'}) and bad is None:
                        bad = cs
                ctx.decide('R02u', bad is None and n_early > 0, om, bad.node if bad else lp,
                           'no early exit of the loop is feasible for a specials token (%d early exit path(s) examined)' % n_early,
                           'with %s.tok == \'specials\' the path [%s] leaves the loop before the token\'s characters are added: '
                           'a marker character that the context also declares as specials (~, &) is reported absent and turns up '
                           'as a separate node or as the next argument' % (tk, ' & '.join(bad.cond_src())[-150:] if bad else ''),
                           construct='chars marker: specials')

    # ---- R02w: one character class for macro names
    ctx.rule('R02w', 'impl_read_macro: the loop that extends a macro name accepts a further character under the same test as '
                     'the first letter -- membership in parsing_state.macro_alpha_chars -- and bounds tests only: a wider class '
                     '(str.isalpha) makes the name swallow following text (`\\alphaβ`), so names, text and arguments differ from '
                     'the written structure', 1)
    trm_ = repo.mod('pylatexenc.latexnodes._tokenreader')
    irm = trm_.functions.get('LatexTokenReader.impl_read_macro')
    if irm is None:
        raise AnalysisError('anchor vanished: LatexTokenReader.impl_read_macro')
    first_cls = {unparse(c_.comparators[0]) for c_ in iter_own(irm) if isinstance(c_, ast.Compare) and len(c_.ops) == 1
                 and isinstance(c_.ops[0], ast.In) and 'alpha' in unparse(c_.comparators[0])
                 and not any(isinstance(p_, ast.While) and any(c_ is y_ for y_ in ast.walk(p_.test)) for p_ in parents(c_))}
    nloops = 0
    for lp_ in [l_ for l_ in iter_own(irm) if isinstance(l_, ast.While)]:
        if not any(isinstance(a_, ast.AugAssign) and isinstance(a_.op, ast.Add) and isinstance(a_.value, ast.Subscript)
                   for a_ in ast.walk(lp_)):
            continue
        nloops += 1
        leaves = list(_bool_leaves2(lp_.test))
        odd = []
        for lf in leaves:
            if isinstance(lf, ast.Compare) and len(lf.ops) == 1 and isinstance(lf.ops[0], (ast.Lt, ast.LtE, ast.Gt, ast.GtE)) \
                    and 'len(' in unparse(lf):
                continue
            if isinstance(lf, ast.Compare) and len(lf.ops) == 1 and isinstance(lf.ops[0], ast.In) and \
                    unparse(lf.comparators[0]) in first_cls:
                continue
            odd.append(short(lf, 50))
        ctx.decide('R02w', not odd and len(first_cls) == 1, trm_, lp_,
                   'name characters tested against %s only' % sorted(first_cls),
                   'the loop that extends the macro name also continues on %s, while the first letter is tested against %s only: '
                   'characters outside the configured macro alphabet are swallowed into the name' % (odd, sorted(first_cls)),
                   construct='impl_read_macro: name character class')
    if not nloops:
        ctx.unknown('R02w', trm_, irm, 'loop extending the macro name not found', construct='impl_read_macro: name character class')

    # ---- R02x (C14 M2e): where a category registered before / after another one goes
    ctx.rule('R02x', 'a category added with insert_before / insert_after lands on the stated side of the named category: the '
                     'specification found for a macro is the one of the category with priority (C14 M2e)', 4)
    from . import c14 as _c14
    _core.run_proxied(ctx, _c14, 'R02x', ('M2e',))

    # ---- R02ac: character classes of the reader's patterns
    ctx.rule('R02ac', 'no regular expression of the parser layer has a character-class range whose end points are of different '
                      'kinds (`.-_`): such a range is an accident of where a hyphen was put -- it admits a block of unrelated '
                      'characters and drops the literal hyphen, so \\begin{my-env} is no longer an environment name '
                      '(grules.accidental_ranges, on the parsed pattern)', 1)
    from .. import grules as _grx
    if _grx.accidental_ranges(r'[A-Za-z0-9*.-_ ]+') != [('.', '_')] or _grx.accidental_ranges(r'[A-Za-z0-9*._ -]+'):
        raise AnalysisError('R02ac: the range finder no longer separates its built-in examples')
    n_rx = 0
    for mod_ in sorted(repo.modules.values(), key=lambda m_: m_.name):
        if not mod_.name.startswith(('pylatexenc.latexnodes', 'pylatexenc.macrospec', 'pylatexenc.latexwalker')):
            continue
        for c_ in ast.walk(mod_.tree):
            if isinstance(c_, ast.Call) and call_name(c_) in ('compile', 'match', 'search', 'sub', 'fullmatch', 'split',
                                                              'findall', 'finditer') and c_.args and \
                    isinstance(c_.args[0], ast.Constant) and isinstance(c_.args[0].value, str) and \
                    call_recv(c_) is not None and unparse(call_recv(c_)) == 're':
                n_rx += 1
                bad_ = _grx.accidental_ranges(c_.args[0].value)
                ctx.decide('R02ac', not bad_, mod_, c_, 'pattern %s: ranges of one kind only' % short(c_.args[0], 40),
                           'the pattern %s contains the range %r-%r, whose end points are not both digits / lower case / upper '
                           'case: it matches every character between them (and not a literal hyphen) -- environment names '
                           'with a hyphen are rejected ("Bad \\begin call"), names with other punctuation accepted'
                           % (short(c_.args[0], 70), bad_[0][0] if bad_ else '', bad_[0][1] if bad_ else ''),
                           construct='%s: regex %s' % (mod_.relpath, short(c_.args[0], 30)))
    if not n_rx:
        ctx.unknown('R02ac', trm_, None, 'no regular expression literal found in the parser layer', construct='regex scan')

    # ---- R02ad: a specification asked for by name is used only if it is the one asked for
    ctx.rule('R02ad', 'the token reader turns the result of latex_context.get_specials_spec(specials_chars=<c>) into a specials '
                      'token only on a path that has compared `<result>.specials_chars == <c>`: get_specials_spec() answers a '
                      'failed lookup with the database\'s unknown-specials fallback (or None), so without the comparison a blank '
                      'line in a document whose context does not define the paragraph specials becomes a specials node carrying '
                      'the fallback specification instead of staying part of the text', 1)
    n_gs = 0
    for q_, f_ in sorted(trm_.functions.items()):
        ld_ = {}
        for a_ in ast.walk(f_):
            if isinstance(a_, ast.Assign) and len(a_.targets) == 1 and isinstance(a_.targets[0], ast.Name):
                ld_.setdefault(a_.targets[0].id, []).append(a_.value)
        for nm_, vals_ in sorted(ld_.items()):
            gets_ = [v_ for v_ in vals_ if isinstance(v_, ast.Call) and call_name(v_) == 'get_specials_spec']
            if not gets_:
                continue
            asked_ = kwarg(gets_[0], 'specials_chars') or (gets_[0].args[0] if gets_[0].args else None)
            if asked_ is None:
                continue
            at_ = unparse(asked_)
            for c_ in iter_own(f_):
                if not (isinstance(c_, ast.Call) and call_name(c_) in ('make_token', 'LatexToken')):
                    continue
                uses_ = [k_ for k_ in list(c_.args) + [k2_.value for k2_ in c_.keywords]
                         if isinstance(k_, ast.Name) and k_.id == nm_]
                if not uses_:
                    continue
                # the definition that reaches the use: the latest earlier assignment (a `= None` of an except arm aside)
                prev_ = [v_ for v_ in vals_ if v_.lineno < c_.lineno and not (isinstance(v_, ast.Constant) and v_.value is None)]
                if not prev_ or max(prev_, key=lambda v_: v_.lineno) not in gets_:
                    continue
                n_gs += 1
                facts_ = {(unparse(t_), pol_) for t_, pol_ in atomic_facts(c_)}
                ok_ = any((txt_, pol_) in facts_ for txt_, pol_ in (
                    ('%s.specials_chars == %s' % (nm_, at_), True), ('%s == %s.specials_chars' % (at_, nm_), True),
                    ('%s.specials_chars != %s' % (nm_, at_), False), ('%s != %s.specials_chars' % (at_, nm_), False)))
                ctx.decide('R02ad', ok_, trm_, c_, '%s: token built from %s only after comparing its specials_chars with %s'
                           % (q_, nm_, at_),
                           '%s builds a token from %s = get_specials_spec(%s) on a path that has not compared %s.specials_chars '
                           'with %s: when the context does not define these specials the lookup hands back the unknown-specials '
                           'fallback, and the text (a blank line) is reported as a specials token with that specification '
                           'instead of as characters' % (q_, nm_, at_, nm_, at_), construct='%s: token from get_specials_spec' % q_)
    if not n_gs:
        ctx.unknown('R02ad', trm_, None, 'no token built from a get_specials_spec() result in the token reader',
                    construct='get_specials_spec use')

    # ---- R02ae: any white space may precede a delimited verbatim argument
    ctx.rule('R02ae', 'LatexDelimitedVerbatimParser.parse: on every path the first character read from the input (the opening '
                      'delimiter, given or auto-detected) is read after skip_space_chars(): like every other argument, a '
                      'verbatim argument may be separated from what precedes it by blanks, tabs and a single line break -- a '
                      'hand-written skip of some white-space characters only makes a newline the "delimiter" and the structure '
                      'depend on the layout (syntax-directed walk shared with C01 R01x)', 1)
    from . import c01 as _c01v
    vm_ = repo.mod('pylatexenc.latexnodes.parsers._verbatim')
    vp_ = vm_.methods('LatexDelimitedVerbatimParser').get('parse')
    if vp_ is None:
        raise AnalysisError('anchor vanished: LatexDelimitedVerbatimParser.parse')
    n2e = 0
    for evs_, rd_ in _c01v.verbatim_first_read_paths(vp_, vm_.methods('LatexDelimitedVerbatimParser')):
        n2e += 1
        kinds_ = [k_ for k_, _n in evs_]
        ctx.decide('R02ae', 'SKIP' in kinds_, vm_, rd_, 'white space skipped before the delimiter is read',
                   'LatexDelimitedVerbatimParser.parse reads from the input (%s) on a path [%s] on which skip_space_chars() has '
                   'not been called: white space the token reader would skip (a line break before the argument) is taken for '
                   'the opening delimiter or compared with it' % (short(rd_, 50), ' > '.join(kinds_ + ['READ'])),
                   construct='verbatim argument: first read [%s]' % ' > '.join(kinds_ + ['READ']))
    if not n2e:
        ctx.unknown('R02ae', vm_, vp_, 'no path that reads the opening delimiter found', construct='verbatim argument: first read')

    # ---- R02aa (C17 P2/P4), R02ab (C10 R10h)
    ctx.rule('R02aa', 'the lookup tables cached on a parsing state are reused from the parent only when no field they depend on '
                      'changes: math opened inside math (`\\[ a \\hbox{if $x$ then} b \\]`) otherwise expects the OUTER closing '
                      'delimiter, and the inner `$` is read as another opener (C17 P2, P4)', 4)
    from . import c17 as _c17, c05 as _c05b
    _c17.run(_c05b._filtered(_c05b._Sub(ctx, 'R02aa'), ('P2', 'P4')))
    ctx.rule('R02ab', 'each argument is parsed in the state of the call updated by that argument\'s own delta, and the body in '
                      'the call state updated by the body delta: an argument never inherits the state of the argument before '
                      'it (C10 R10h)', 3)
    _core.run_proxied(ctx, _c10, 'R02ab', ('R10h',))

    # ---- R02z: an opening and a closing delimiter come from two places of the specification
    ctx.rule('R02z', 'get_arg_parser_instance: a delimiter pair taken from the argument specification (r<c1><c2>, d<c1><c2>, '
                     'v<c1><c2>) reads its two characters from two different positions (locals substituted, per path): a pair '
                     'whose halves are the same subscript looks for the opening character as closing delimiter', 1)
    sam = repo.mod('pylatexenc.latexnodes.parsers._stdarg')
    gap = sam.functions.get('LatexStandardArgumentParser.get_arg_parser_instance')
    if gap is None:
        raise AnalysisError('anchor vanished: LatexStandardArgumentParser.get_arg_parser_instance')
    try:
        pcs = symex.Walker(is_sink=lambda c_: any(k_.arg in ('delimiters', 'delimiter_chars') for k_ in c_.keywords)).run(gap)
    except symex.TooManyPaths:
        pcs = []
    n_dp, badp = 0, None
    for cs in pcs:
        for k_ in cs.sub.keywords:
            if k_.arg in ('delimiters', 'delimiter_chars'):
                v_ = symex.resolve(k_.value, cs.env)
                if isinstance(v_, ast.Tuple) and len(v_.elts) == 2 and all(isinstance(e_, ast.Subscript) for e_ in v_.elts):
                    n_dp += 1
                    if unparse(v_.elts[0]) == unparse(v_.elts[1]) and badp is None:
                        badp = (cs, v_)
    ctx.decide('R02z', badp is None and n_dp > 0, sam, badp[0].node if badp else gap,
               '%d delimiter pair(s) read from two positions of the specification' % n_dp,
               'on the path [%s] the delimiter pair is %s: both halves are the same character of the specification, so the '
               'argument `v{}` / `r()` is read up to the next OPENING character (a parse error, or a wrong extent)'
               % (' & '.join(badp[0].cond_src())[-100:] if badp else '', unparse(badp[1]) if badp else ''),
               construct='get_arg_parser_instance: delimiter pairs')

    # ---- R02y: one notion of paragraph break
    ctx.rule('R02y', 'the token reader decides "this white space contains a paragraph break" in one way -- at least two newline '
                     'characters, `V.count(NL) >= 2` -- at every site that acts on it: where the paragraph token is produced '
                     '(impl_peek_token) and where the white space after a macro or comment is cut back to its first line; a '
                     'site with another test (a blank-line pattern that knows blanks and tabs only) lets a macro swallow a '
                     'break that the other sites see, and the paragraph node vanishes', 3)
    n_pb = 0
    for q_, f_ in sorted(trm_.functions.items()):
        if not q_.startswith('LatexTokenReader.'):
            continue
        for st_ in iter_own(f_):
            cut = isinstance(st_, ast.Assign) and len(st_.targets) == 1 and isinstance(st_.targets[0], ast.Name) and \
                isinstance(st_.value, ast.Subscript) and isinstance(st_.value.slice, ast.Slice) and \
                st_.value.slice.lower is None and isinstance(st_.value.value, ast.Name) and \
                st_.value.value.id == st_.targets[0].id and 'space' in st_.targets[0].id
            par = isinstance(st_, ast.If) and any(isinstance(c_, ast.Call) and call_name(c_) == 'rfind' for c_ in ast.walk(st_)) \
                and 'enable_double_newline_paragraphs' in unparse(st_.test)
            if not (cut or par):
                continue
            n_pb += 1
            v_ = st_.targets[0].id if cut else None
            if cut:
                atoms = {(unparse(a_), ap_) for t_, p_ in atomic_facts(st_) for a_, ap_ in symex._atoms(t_, p_)}
            else:
                atoms = {(unparse(a_), ap_) for a_, ap_ in symex._atoms(st_.test, True)}
            okp = any(ap_ and re.match(r"^\w+\.count\('\\n'\) (>= 2|> 1)$", t_) and (v_ is None or t_.startswith(v_ + '.'))
                      for t_, ap_ in atoms)
            ctx.decide('R02y', okp, trm_, st_, '%s: paragraph break = two newlines' % q_,
                       '%s acts on a paragraph break in %s under the test [%s], not `%s.count(NL) >= 2` like the other sites of '
                       'the token reader: white space that the other sites take for a paragraph break (a blank line holding a '
                       'carriage return or a form feed) is swallowed as the macro\'s trailing space here, and the paragraph '
                       'break disappears from the tree' % (q_, v_ or 'the leading white space',
                                                           ' & '.join(sorted(t_ for t_, ap_ in atoms if ap_))[:120], v_ or 'V'),
                       construct='%s: paragraph-break test' % q_)
    if n_pb < 3:
        ctx.unknown('R02y', trm_, None, 'only %d paragraph-break sites found in the token reader' % n_pb,
                    construct='paragraph-break sites')

    # ---- R02v: one notion of white space
    ctx.rule('R02v', 'code of the parser layer that looks at a raw source character to decide "is this white space" uses '
                     'str.isspace(), like the token reader: a comparison with a literal of blanks that lacks the newline makes a '
                     'line break count as "no space" (an optional argument is then read across a line break where the reader '
                     'and the other parsers see space)', 3)
    n_ws = 0
    for mod_ in sorted(repo.modules.values(), key=lambda m_: m_.name):
        if not mod_.name.startswith(('pylatexenc.macrospec', 'pylatexenc.latexnodes._tokenreader', 'pylatexenc.latexnodes.parsers',
                                     'pylatexenc.latexwalker._walker', 'pylatexenc.latexwalker._legacy')):
            continue
        for q_, f_ in sorted(mod_.functions.items()):
            srcnames = {t_.targets[0].id for t_ in iter_own(f_) if isinstance(t_, ast.Assign) and len(t_.targets) == 1
                        and isinstance(t_.targets[0], ast.Name) and _is_source_char(t_.value)}
            for c_ in iter_own(f_):
                if isinstance(c_, ast.Call) and isinstance(c_.func, ast.Attribute) and c_.func.attr == 'isspace' and (
                        _is_source_char(c_.func.value) or (isinstance(c_.func.value, ast.Name) and c_.func.value.id in srcnames)):
                    n_ws += 1
                    ctx.holds('R02v', mod_, c_, 'white space decided by isspace()', construct='%s: %s' % (q_, short(c_, 40)))
                elif isinstance(c_, ast.Compare) and len(c_.ops) == 1 and isinstance(c_.comparators[0], ast.Constant) and \
                        isinstance(c_.comparators[0].value, str) and c_.comparators[0].value and \
                        not c_.comparators[0].value.strip() and isinstance(c_.ops[0], (ast.In, ast.NotIn, ast.Eq, ast.NotEq)) and (
                        _is_source_char(c_.left) or (isinstance(c_.left, ast.Name) and c_.left.id in srcnames)):
                    n_ws += 1
                    lit = c_.comparators[0].value
                    ctx.decide('R02v', '\n' in lit and ' ' in lit and '\t' in lit, mod_, c_,
                               'literal white-space class with blank, tab and newline',
                               '%s decides white space by %s: the class %r lacks %s, so that character after a macro counts as '
                               '"no space here" although the token reader (isspace) treats it as space: an optional argument is '
                               'read across it' % (q_, short(c_, 40), lit, 'the newline' if '\n' not in lit else 'blank or tab'),
                               construct='%s: %s' % (q_, short(c_, 40)))

    return 'other', (
        'Decides the dispatch skeleton of the parser: every token kind the reader emits has a '
        'handler, every standard argument letter builds the parser of its kind and optionality, one '
        'slot per declared argument, closing predicates test kind and closer, promoted delimiters '
        'are restored for children, absent optional arguments consume nothing.  These are necessary '
        'for well-formed documents to be parsed into their written structure; equality with the '
        'derivation tree is not decided.')


def _regex_paths(items):
    """expand a parsed regex (re._parser) into its alternative linear sequences"""
    import re._parser as sp
    paths = [[]]
    for op, av in items:
        opn = str(op)
        if opn == 'BRANCH':
            alts = []
            for br in av[1]:
                alts.extend(_regex_paths(list(br)))
            paths = [p + a for p in paths for a in alts]
        elif opn == 'SUBPATTERN':
            sub = _regex_paths(list(av[3]))
            paths = [p + a for p in paths for a in sub]
        else:
            paths = [p + [(opn, av)] for p in paths]
    return paths


def _regex_word_boundary_verdict(pattern):
    """for a regex used to recognise begin/end after the escape character: (ok, reason).  ok is
    True when every alternative spells begin or end and is followed by a negative look-ahead for
    a letter (or end of input); False when some alternative lacks it; None if not understood."""
    import re._parser as sp
    try:
        parsed = sp.parse(pattern)
    except Exception as e:                      # malformed pattern: not ours to judge
        return None, 'pattern not parsed: %s' % e
    seen = set()
    for path in _regex_paths(list(parsed)):
        word = ''
        i = 0
        while i < len(path) and path[i][0] == 'LITERAL':
            word += chr(path[i][1])
            i += 1
        if word not in ('begin', 'end'):
            return None, 'alternative %r is not the word begin or end' % word
        seen.add(word)
        rest = path[i:]
        guarded = False
        if rest and rest[0][0] == 'ASSERT_NOT' and rest[0][1][0] == 1:
            inner = list(rest[0][1][1])
            if len(inner) == 1 and str(inner[0][0]) == 'IN':
                rng = [(str(o), a) for o, a in inner[0][1]]
                low = any(o == 'RANGE' and a[0] <= ord('a') and a[1] >= ord('z') for o, a in rng)
                up = any(o == 'RANGE' and a[0] <= ord('A') and a[1] >= ord('Z') for o, a in rng)
                guarded = low and up
        if not guarded:
            return False, ('the alternative %r is not followed by a negative look-ahead for a '
                           'letter: \\%sgroup-like macro names are read as environment tokens' % (word, word))
    if seen != {'begin', 'end'}:
        return None, 'alternatives cover %s' % sorted(seen)
    return True, 'begin|end each followed by (?![A-Za-z])'


_NEG_OP = {ast.In: ast.NotIn, ast.NotIn: ast.In, ast.Lt: ast.GtE, ast.GtE: ast.Lt, ast.Gt: ast.LtE, ast.LtE: ast.Gt,
           ast.Eq: ast.NotEq, ast.NotEq: ast.Eq, ast.Is: ast.IsNot, ast.IsNot: ast.Is}


def _alternatives(a, pol):
    """the disjuncts that a decided test guarantees one of: `A or B` taken true -> [A, B];
    `A and B` taken false -> [not A, not B] (comparisons negated by operator); a plain test -> itself"""
    def neg(e):
        if isinstance(e, ast.Compare) and len(e.ops) == 1 and type(e.ops[0]) in _NEG_OP:
            return ast.Compare(left=e.left, ops=[_NEG_OP[type(e.ops[0])]()], comparators=e.comparators)
        if isinstance(e, ast.UnaryOp) and isinstance(e.op, ast.Not):
            return e.operand
        return ast.UnaryOp(op=ast.Not(), operand=e)
    if pol:
        return list(a.values) if isinstance(a, ast.BoolOp) and isinstance(a.op, ast.Or) else [a]
    if isinstance(a, ast.BoolOp) and isinstance(a.op, ast.And):
        return [neg(v) for v in a.values]
    return [neg(a)]


def _begin_end_word_boundary(ctx, repo):
    pass
    tm = repo.mod(TR)
    ip = tm.methods('LatexTokenReader').get('impl_peek_token')
    if ip is None:
        raise AnalysisError('anchor vanished: impl_peek_token')
    try:
        cases = symex.sink_cases(ip, lambda c: call_name(c) == 'impl_read_environment')
    except symex.TooManyPaths as e:
        ctx.unknown('R02h', tm, ip, str(e), construct='environment token: word boundary')
        return
    if not cases:
        raise AnalysisError('anchor vanished: impl_read_environment is not called from impl_peek_token')
    for cs in cases:
        be = kwarg(cs.sub, 'beginend')
        if be is None and len(cs.sub.args) > 3:
            be = cs.sub.args[3]
        posx = kwarg(cs.sub, 'pos') or (cs.sub.args[1] if len(cs.sub.args) > 1 else None)
        word = be.value if isinstance(be, ast.Constant) else None
        cons = 'impl_peek_token: environment token for %s' % (word or short(be))
        atoms = []
        for t, pol in cs.conds:
            atoms.extend(symex._atoms(t, pol))
        if word in ('begin', 'end'):
            has_word = any(ap and isinstance(a, ast.Call) and call_name(a) == 'startswith' and a.args
                           and isinstance(a.args[0], ast.Constant) and a.args[0].value == word
                           for a, ap in atoms)
            boundary = False
            for a, ap in atoms:
                for x in _alternatives(a, ap):
                    if isinstance(x, ast.Compare) and len(x.ops) == 1 and isinstance(x.ops[0], ast.NotIn) \
                            and unparse(x.comparators[0]).endswith('.macro_alpha_chars') \
                            and isinstance(x.left, ast.Subscript):
                        try:
                            d = affine.diff(x.left.slice, posx, {})
                        except affine.NotAffine:
                            continue
                        if d == (1 + len(word), {}):
                            boundary = True
            if has_word and boundary:
                ctx.holds('R02h', tm, cs.node, 'after %r the next character is tested against '
                                               'macro_alpha_chars' % word, construct=cons)
                continue
            if has_word and not boundary:
                ctx.refuted('R02h', tm, cs.node, 'an environment token is produced for %r without '
                            'testing that the character after the word is not a macro-name letter: '
                            'macros such as \\%sgroup are read as environment tokens' % (word, word),
                            construct=cons)
                continue
        # helper form: beginend = <module-level helper>(s, pos) returning the word found or None
        bd = symex.resolve(be, cs.env) if be is not None else None
        h = None
        if isinstance(be, ast.Name) and isinstance(bd, ast.Call):
            if isinstance(bd.func, ast.Name) and bd.func.id in tm.functions:
                h = tm.functions[bd.func.id]
            elif isinstance(bd.func, ast.Attribute) and isinstance(bd.func.value, ast.Name) and \
                    bd.func.value.id == 'self':
                h = tm.methods('LatexTokenReader').get(bd.func.attr)
        if h is not None:
            hp = [a.arg for a in h.args.args]
            if hp and hp[0] == 'self':
                hp = hp[1:]
            ren = dict(zip(hp, bd.args))
            words_ok = True
            words = set()
            for hc in symex.return_cases(h):
                if isinstance(hc.sub, ast.Constant) and hc.sub.value is None:
                    continue
                if not (isinstance(hc.sub, ast.Constant) and hc.sub.value in ('begin', 'end')):
                    words_ok = False
                    continue
                words.add(hc.sub.value)
                hat = [(a_, ap_) for t_, p_ in hc.conds for a_, ap_ in symex._atoms(symex.subst(t_, ren), p_)]
                if not any(ap_ and isinstance(a_, ast.Call) and call_name(a_) == 'startswith' and a_.args
                           and isinstance(a_.args[0], ast.Constant) and a_.args[0].value == hc.sub.value
                           for a_, ap_ in hat):
                    words_ok = False
            boundary = False
            for a, ap in atoms:
                for x in _alternatives(a, ap):
                    if isinstance(x, ast.Compare) and len(x.ops) == 1 and isinstance(x.ops[0], ast.NotIn) \
                            and unparse(x.comparators[0]).endswith('.macro_alpha_chars') \
                            and isinstance(x.left, ast.Subscript):
                        try:
                            d = affine.diff(x.left.slice, posx, {})
                        except affine.NotAffine:
                            continue
                        if d == (1, {'len(%s)' % be.id: 1}):
                            boundary = True
            present = any(ap and unparse(a) in (be.id, be.id + ' is not None') for a, ap in atoms) or \
                any((not ap) and unparse(a) == be.id + ' is None' for a, ap in atoms)
            if words_ok and words == {'begin', 'end'} and present:
                ctx.decide('R02h', boundary, tm, cs.node,
                           'the word found by %s() is followed by a non-letter test at pos + 1 + len(word)' % h.name,
                           'an environment token is produced for the word found by %s() without testing that the '
                           'character after it is not a macro-name letter' % h.name, construct=cons)
                continue
        # regex form: beginend = m.group() of a compiled pattern
        rx = None
        for sym, d in cs.env.get('#def', {}).items():
            if isinstance(d, ast.Call) and call_name(d) in ('match', 'search', 'fullmatch') and \
                    call_recv(d) is not None:
                rx = unparse(call_recv(d)).split('.')[-1]
        pat = None
        if rx:
            for st in ast.walk(tm.tree):
                if isinstance(st, ast.Assign) and any(unparse(t).split('.')[-1] == rx for t in st.targets) \
                        and isinstance(st.value, ast.Call) and call_name(st.value) == 'compile' \
                        and st.value.args and isinstance(st.value.args[0], ast.Constant):
                    pat = st.value.args[0].value
        if pat is None:
            ctx.unknown('R02h', tm, cs.node, 'begin/end detection not in a recognised form',
                        construct=cons)
            continue
        ok, why = _regex_word_boundary_verdict(pat)
        if ok is None:
            ctx.unknown('R02h', tm, cs.node, 'pattern %r: %s' % (pat, why), construct=cons)
        elif ok:
            ctx.holds('R02h', tm, cs.node, 'pattern %r: %s' % (pat, why), construct=cons)
        else:
            ctx.refuted('R02h', tm, cs.node, 'begin/end are recognised with the pattern %r: %s'
                        % (pat, why), construct=cons)


def _eos_after_partial_read(ctx, repo):
    READS = ('peek_token', 'next_token', 'next_chars', 'peek_chars')
    n = 0
    for mod in sorted(repo.modules.values(), key=lambda m_: m_.name):
        if 'parsers' not in mod.name:
            continue
        for q, f in sorted(mod.functions.items()):
            if not q.endswith('.parse'):
                continue
            cls = q.rsplit('.', 1)[0]
            for lp in [l for l in iter_own(f) if isinstance(l, (ast.While, ast.For))]:
                calls = [c for c in ast.walk(lp) if isinstance(c, ast.Call)]
                acc = [c for c in calls if call_name(c) in ('append', 'extend')] + \
                    [a for a in ast.walk(lp) if isinstance(a, ast.AugAssign)]
                if not acc:
                    continue
                for hc in calls:
                    if not (isinstance(hc.func, ast.Attribute) and isinstance(hc.func.value, ast.Name)
                            and hc.func.value.id == 'self'):
                        continue
                    h = mod.functions.get('%s.%s' % (cls, hc.func.attr))
                    if h is None:
                        continue
                    for rd in [c for c in iter_own(h) if isinstance(c, ast.Call) and call_name(c) in READS
                               and call_recv(c) is not None and 'reader' in unparse(call_recv(c))]:
                        n += 1
                        prot = False
                        for p_ in parents(rd):
                            if isinstance(p_, ast.Try) and any(rd is x for b in p_.body for x in ast.walk(b)) and any(
                                    hd.type is None or any(nm in unparse(hd.type) for nm in (
                                        'LatexWalkerEndOfStream', 'LatexWalkerError', 'Exception'))
                                    for hd in p_.handlers):
                                prot = True
                        ctx.decide('R02k', prot, mod, rd,
                                   'read inside a handler for end of stream',
                                   '%s is called once per iteration of the collecting loop of %s and reads a token '
                                   'outside any handler for LatexWalkerEndOfStream: when the input ends after an '
                                   'earlier iteration has matched (e.g. the star of \\cmd* at the very end of the '
                                   'input), the exception leaves parse() and the argument already read is reported '
                                   'absent' % (hc.func.attr, q), construct='%s.%s: %s' % (cls, hc.func.attr, short(rd, 60)))
    if n < 2:
        raise AnalysisError('end-of-stream protection: only %d reads in per-iteration helpers found' % n)


def first_tokens_complete(ctx, repo, rule):
    """parse_initial(): when the opening delimiter is not found, the exception lists every token
    that was read (the caller resets the reader to first_tokens[0], so a token read but not listed
    -- e.g. a skipped comment -- is lost when the optional argument turns out to be absent)"""
    pass
    dm = repo.mod(DELIM)
    n = 0
    for q, f in sorted(dm.functions.items()):
        if f.name != 'parse_initial':
            continue
        rd = [a.arg for a in f.args.args if 'reader' in a.arg]
        if not rd:
            continue
        rd = rd[0]
        reads = [c for c in ast.walk(f) if isinstance(c, ast.Call) and call_name(c) in ('next_token', 'peek_token')
                 and call_recv(c) is not None and unparse(call_recv(c)) == rd and call_name(c) == 'next_token']
        in_loop = [c for c in reads if any(isinstance(p_, (ast.While, ast.For)) for p_ in parents(c)
                                           if any(x is p_ for x in ast.walk(f)))]
        try:
            w = symex.Walker(is_sink=lambda c: call_name(c) == 'next_token' and call_recv(c) is not None
                             and unparse(call_recv(c)) == rd, want_raises=True, trace=True)
            cases = [c for c in w.run(f) if c.kind == 'raise' and isinstance(c.sub, ast.Call)
                     and call_name(c.sub).endswith('OpeningDelimiterNotFound')]
        except symex.TooManyPaths as e:
            ctx.unknown(rule, dm, f, str(e), construct='%s: first_tokens' % q)
            continue
        for cs in cases:
            n += 1
            ft = kwarg(cs.sub, 'first_tokens') or (cs.sub.args[0] if cs.sub.args else None)
            nread = len(cs.env.get('#trace', ()))
            listed = len(ft.elts) if isinstance(ft, (ast.List, ast.Tuple)) else None
            cons = '%s: first_tokens of the not-found error' % q
            if in_loop:
                ctx.refuted(rule, dm, in_loop[0], 'tokens are read in a loop (%s) but the not-found error lists %s: '
                            'when the optional argument is absent the reader is reset to the first listed '
                            'token, so the tokens read before it (e.g. skipped comments) are lost'
                            % (short(in_loop[0], 50), short(ft) if ft is not None else 'no tokens'), construct=cons)
            elif listed is None:
                ctx.unknown(rule, dm, cs.node, 'first_tokens is %s' % (short(ft) if ft is not None else 'missing'),
                            construct=cons)
            else:
                ctx.decide(rule, listed == nread, dm, cs.node,
                           '%d token(s) read, %d listed for the reset' % (nread, listed),
                           '%d token(s) were read but %d are listed in first_tokens: the others are lost '
                           'when the reader is reset' % (nread, listed), construct=cons)
    if not n:
        raise AnalysisError('no parse_initial raising OpeningDelimiterNotFound found')


def closing_predicates(ctx, repo, rule):
    dm = repo.mod(DELIM)
    n_pred = 0
    for mod in repo.modules.values():
        for q, f in mod.functions.items():
            nm = f.name
            if nm not in ('stop_token_condition', '_parse_body_token_stop_condition'):
                continue
            if any(isinstance(s, ast.Raise) for s in f.body):
                continue        # abstract stub
            if q.startswith('_pyltxenc2_') or 'get_latex_nodes' in q:
                continue        # legacy closure, decided by C16
            n_pred += 1
            tok = f.args.args[-1].arg
            from .. import symex
            helpers = dict((qq.rsplit('.', 1)[-1], ff) for qq, ff in mod.functions.items())
            try:
                rcs = symex.return_cases(f)
            except symex.TooManyPaths as e:
                ctx.unknown(rule, mod, f, str(e), construct='%s: return True' % q)
                continue
            for cs in rcs:
                v = cs.sub
                if isinstance(v, ast.Constant) and not v.value:
                    continue
                also = [] if isinstance(v, ast.Constant) else [v]
                facts = symex.facts_of(cs.conds, cs.env, methods=helpers, also=also)
                kind = [t for t, pol in facts if pol and t.startswith(tok + '.tok ')]
                eq = [t for t, pol in facts if pol and t.startswith(tok + '.arg == ')]
                ctx.decide(rule, bool(kind) and bool(eq), mod, cs.node,
                           'closes on %s and %s' % (kind, eq),
                           '%s accepts a token as the closing delimiter on the facts %s only: it '
                           'must test the token kind AND equality with the expected closer, '
                           'otherwise a different closing delimiter ends the construct'
                           % (q, sorted(t for t, pol in facts if pol)),
                           construct='%s: return True' % q)
    ctx.analysed['closing_predicates'] = n_pred
    mcp = dm.methods('LatexDelimitedExpressionParserInfo').get('make_content_parser')
    ok = mcp is not None and any(
        isinstance(c, ast.Call) and call_name(c) == 'LatexGeneralNodesParser' and
        isinstance(kwarg(c, 'require_stop_condition_met'), ast.Constant) and
        kwarg(c, 'require_stop_condition_met').value is True for c in ast.walk(mcp))
    ctx.decide(rule, ok, dm, mcp or dm.cls('LatexDelimitedExpressionParserInfo'),
               'content parser requires the closing delimiter',
               'the content parser of delimited constructs does not require its stop condition: an '
               'unclosed group is accepted', construct='make_content_parser: require_stop_condition_met')



def _rest(ctx, repo):
    dm = repo.mod(DELIM)
    # ------------------------------------------------------------ R02e
    gm = dm.methods('LatexDelimitedGroupParserInfo').get('make_child_parsing_state')
    if gm is None:
        raise AnalysisError('anchor vanished: LatexDelimitedGroupParserInfo.make_child_parsing_state')
    tokp = gm.args.args[-1].arg
    pass
    helpers = dict((qq.rsplit('.', 1)[-1], ff) for qq, ff in dm.functions.items())
    for cs in symex.return_cases(gm):
        r = cs.node
        v = unparse(cs.sub)
        facts = symex.facts_of(cs.conds, cs.env, methods=helpers)
        if v == 'self.contents_parsing_state':
            ok = ("%s.tok == 'brace_open'" % tokp, True) in facts and \
                ('%s.arg == self.parsed_delimiters[0]' % tokp, True) in facts
            ctx.decide('R02e', ok, dm, r, 'contents state only for a nested group with the same opener',
                       'the contents state (promoted delimiters active) is handed to a child that '
                       'is not a nested group with the same opening delimiter',
                       construct='make_child_parsing_state: ' + short(r))
        elif v == 'self.parsing_state':
            ctx.holds('R02e', dm, r, 'outer state restored for the child',
                      construct='make_child_parsing_state: ' + short(r))
        else:
            ctx.refuted('R02e', dm, r, 'a child receives %s: inside an optional/delimited argument '
                                       'the promoted delimiters stay active for math, macro and '
                                       'environment children (e.g. `]` inside $...$ closes the '
                                       'argument)' % v,
                        construct='make_child_parsing_state: ' + short(r))

    # ------------------------------------------------------------ R02f
    om = repo.mod(OPT)
    psf = om.methods('LatexOptionalCharsMarkerParser').get('_parse_single')
    if psf is None:
        raise AnalysisError('anchor vanished: LatexOptionalCharsMarkerParser._parse_single')
    for c in [c for c in iter_own(psf) if isinstance(c, ast.Call) and call_name(c) == 'move_to_token'
              and unparse(c.args[0]) == 'orig_pos_tok']:
        rw = kwarg(c, 'rewind_pre_space')
        ok = rw is None or (isinstance(rw, ast.Constant) and rw.value is True)
        nf = any((not pol) and unparse(t) == 'match_found' for t, pol in atomic_facts(c))
        ctx.decide('R02f', ok and nf, om, c, 'reader restored to the start of the leading whitespace',
                   'when the optional marker is absent the reader is restored with %s: the '
                   'whitespace before the next token is swallowed, so a following '
                   'no-leading-space argument (\\\\ [..]) or the text loses/gains structure'
                   % short(c), construct='_parse_single: restore reader')
    dp = dm.methods('LatexDelimitedExpressionParser').get('parse')
    for c in [c for c in iter_own(dp) if isinstance(c, ast.Call) and call_name(c) == 'move_to_token']:
        rw = kwarg(c, 'rewind_pre_space')
        opt = any(pol and unparse(t) == 'self.optional' for t, pol in atomic_facts(c))
        if not opt:
            continue
        ok = rw is None or (isinstance(rw, ast.Constant) and rw.value is True)
        ctx.decide('R02f', ok, dm, c, 'absent optional group: reader restored including whitespace',
                   'absent optional delimited argument restores the reader with %s' % short(c),
                   construct='LatexDelimitedExpressionParser.parse: restore reader')

    # ------------------------------------------------------------ R02g
    wt = tables.WalkerTable(repo)
    e = wt.macros.get('\\')
    ok = False
    if e is not None:
        al = e['rec'].arg(1, 'arguments_spec_list', [])
        for x in al if isinstance(al, list) else []:
            if isinstance(x, tables.Rec) and x.name == 'LatexArgumentSpec':
                p = x.arg(0, 'parser')
                if isinstance(p, tables.Rec) and p.name == 'LatexStandardArgumentParser' and \
                        p.arg(0, 'arg_spec') == '[' and p.kwargs.get('allow_pre_space') is False:
                    ok = True
    ctx.decide('R02g', ok, wt.mod, e['rec'].node if e else None,
               "\\\\ declares its [ ] argument with allow_pre_space=False",
               'the line-break macro no longer refuses an optional argument after whitespace',
               construct='walker table: \\\\ optional argument')
    # whitespace changes the structure only where LaTeX says so: in the default table the only argument
    # that refuses leading whitespace is the bracket argument of the line-break macro
    for c_ in ast.walk(wt.mod.tree):
        if isinstance(c_, ast.Call) and any(k.arg == 'allow_pre_space' and isinstance(k.value, ast.Constant)
                                            and k.value.value is False for k in c_.keywords):
            spec_ = c_.args[0].value if c_.args and isinstance(c_.args[0], ast.Constant) else None
            owner = None
            for p_ in parents(c_):
                if isinstance(p_, ast.Call) and call_name(p_) in ('MacroSpec', 'EnvironmentSpec', 'SpecialsSpec',
                                                                  'std_macro', 'std_environment') and p_.args \
                        and isinstance(p_.args[0], ast.Constant):
                    owner = p_.args[0].value
                    break
            ctx.decide('R02g', owner == '\\' and spec_ == '[', wt.mod, c_,
                       'allow_pre_space=False on the [ ] argument of the line-break macro',
                       'the default table declares the %r argument of %r with allow_pre_space=False: whitespace in front '
                       'of that argument (`\\\\ *[2mm]`) makes the argument be reported absent, although only the '
                       'bracket argument of the line-break macro is whitespace-sensitive' % (spec_, owner),
                       construct='walker table: allow_pre_space=False on %r of %r' % (spec_, owner))
    ok = '\n\n' in wt.specials
    ctx.decide('R02g', ok, wt.mod, wt.specials.get('\n\n', {}).get('rec').node if ok else None,
               'paragraph break specials declared', 'no specials declared for the paragraph break',
               construct='walker table: paragraph specials')


def _arg_branches(gai):
    """letter -> returned constructor Call, from the if/elif chain of get_arg_parser_instance."""
    out = {}
    p = gai.args.args[1].arg

    def walk(stmts):
        for s in stmts:
            if isinstance(s, ast.If):
                letters = []
                t = s.test
                if isinstance(t, ast.Compare) and unparse(t.left) == p and isinstance(t.ops[0], ast.In):
                    letters = [e.value for e in t.comparators[0].elts if isinstance(e, ast.Constant)]
                elif isinstance(t, ast.Compare) and unparse(t.left) == p and isinstance(t.ops[0], ast.Eq) \
                        and isinstance(t.comparators[0], ast.Constant):
                    letters = [t.comparators[0].value]
                elif isinstance(t, ast.Call) and call_name(t) == 'startswith' and \
                        unparse(call_recv(t)) == p and isinstance(t.args[0], ast.Constant):
                    letters = [t.args[0].value]
                rets = [r for r in s.body if isinstance(r, ast.Return) and isinstance(r.value, ast.Call)]
                for l in letters:
                    if rets and l not in out:
                        out[l] = rets[-1].value
                walk(s.orelse)
    walk(gai.body)
    return out


def _optionality(repo, call):
    cn = call_name(call)
    if cn == 'LatexDelimitedGroupParser':
        o = kwarg(call, 'optional')
        return o.value if isinstance(o, ast.Constant) else None
    if cn == 'LatexOptionalCharsMarkerParser':
        return True
    if cn in ('LatexExpressionParser', 'LatexDelimitedVerbatimParser'):
        # contents_can_be_empty() of the class: False -> mandatory
        c = repo.find_class(cn)
        if c is None:
            return None
        cc, m = repo.lookup_method(cn, 'contents_can_be_empty')
        if m is None:
            return False
        rets = [r for r in iter_own(m) if isinstance(r, ast.Return)]
        if rets and isinstance(rets[0].value, ast.Constant):
            return bool(rets[0].value.value)
        return False
    return None



def _group_context_width(pat, group):
    """(prefix+suffix width, fixed?) of the pattern outside the named group, via re._parser"""
    import re._parser as sp
    try:
        parsed = sp.parse(pat)
    except Exception:
        return None, False
    items = list(parsed)
    idx = None
    gi = parsed.state.groupdict.get(group) if group is not None else None
    for k, (op, av) in enumerate(items):
        if str(op) == 'SUBPATTERN' and (av[0] == gi):
            idx = k
    if idx is None:
        return None, False
    total, fixed = 0, True
    for k, (op, av) in enumerate(items):
        if k == idx:
            continue
        sub = sp.SubPattern(parsed.state, [(op, av)])
        lo, hi = sub.getwidth()
        if lo != hi:
            fixed = False
        total += lo
    return total, fixed


def match_extent(ctx, rule, repo, modname):
    """R02o: a position computed from a regular-expression match is the end of the whole match
    (m.end()), or is provably equal to it from the pattern (captured group + fixed-width context)"""
    tm = repo.mod(modname)
    n = 0
    for q, f in sorted(tm.functions.items()):
        ms = [st for st in iter_own(f) if isinstance(st, ast.Assign) and len(st.targets) == 1
              and isinstance(st.targets[0], ast.Name) and isinstance(st.value, ast.Call)
              and call_name(st.value) in ('match', 'search') and call_recv(st.value) is not None
              and unparse(call_recv(st.value)).split('.')[-1].startswith('rx')]
        for st in ms:
            mname = st.targets[0].id
            rxname = unparse(call_recv(st.value)).split('.')[-1]
            pat = None
            for a_ in ast.walk(tm.tree):
                if isinstance(a_, ast.Assign) and any(unparse(t).split('.')[-1] == rxname for t in a_.targets) \
                        and isinstance(a_.value, ast.Call) and call_name(a_.value) == 'compile' \
                        and a_.value.args and isinstance(a_.value.args[0], ast.Constant):
                    pat = a_.value.args[0].value
            try:
                cases = symex.Walker(want_returns=True, pure=('end', 'start', 'group', 'span')).run(f)
            except symex.TooManyPaths:
                ctx.unknown(rule, tm, f, 'too many paths', construct=q + ': match extent')
                continue
            for cs in cases:
                if cs.kind != 'return':
                    continue
                elts = cs.sub.elts if isinstance(cs.sub, ast.Tuple) else [cs.sub]
                for e in elts:
                    try:
                        c0, terms = affine.norm(e)
                    except affine.NotAffine:
                        continue
                    mterms = dict((k, v) for k, v in terms.items() if (mname + '.') in k)
                    if not mterms or not all(k.startswith('len(') or k.endswith('.end()') or k.endswith('.start()')
                                             for k in mterms):
                        continue            # not a position (the matched text itself)
                    n += 1
                    cons = '%s: position after the match of %s' % (q, rxname)
                    if mterms == {mname + '.end()': 1}:
                        ctx.holds(rule, tm, cs.node, 'position = base + %s.end(): the whole match' % mname,
                                  construct=cons)
                        continue
                    ok = False
                    why = 'it is computed as %s' % short(e, 90)
                    if len(mterms) == 1 and pat is not None:
                        k_, v_ = list(mterms.items())[0]
                        m_ = re.match(r"len\(%s\.group\((?:'(\w+)'|\"(\w+)\")\)\)$" % re.escape(mname), k_)
                        if m_ and v_ == 1:
                            width, fixed = _group_context_width(pat, m_.group(1) or m_.group(2))
                            ok = fixed and width == c0
                            why += '; the pattern %r has %s around the group (%s character(s) at least), the ' \
                                   'expression adds %d' % (pat, 'a fixed-width context' if fixed else
                                                           'variable-width parts', width, c0)
                    ctx.decide(rule, ok, tm, cs.node,
                               'length of the captured group plus the fixed width of the rest of the pattern',
                               '%s does not report the end of the regular-expression match: %s -- the token ends '
                               'before the text that was recognised (whitespace allowed by the pattern), and the '
                               'rest is read as stray characters' % (q, why), construct=cons)
    return n



def _names_from_token(ctx, repo):
    """R02q: the name a call node (and the parser that waits for its \\end) is given comes from the
    token that was read, not from the specification object -- the fallback specification for
    unknown macros/environments has the empty name"""
    n = 0
    for modname in ('pylatexenc.macrospec._macrocallparser', 'pylatexenc.macrospec._specclasses'):
        mod = repo.mod(modname)
        for q, f in sorted(mod.functions.items()):
            tparams = [a.arg for a in f.args.args if a.arg.startswith('token')]
            if not tparams:
                continue
            try:
                cases = symex.Walker(is_sink=lambda c: isinstance(c, ast.Call) and any(
                    k.arg in ('environmentname', 'macroname') for k in list(c.keywords) + [
                        k2 for k1 in c.keywords if isinstance(k1.value, ast.Call) and call_name(k1.value) == 'dict'
                        for k2 in k1.value.keywords])).run(f)
            except symex.TooManyPaths:
                continue
            seen = set()
            for cs in cases:
                kws = list(cs.sub.keywords) + [k2 for k1 in cs.sub.keywords if isinstance(k1.value, ast.Call)
                                               and call_name(k1.value) == 'dict' for k2 in k1.value.keywords]
                for k in kws:
                    if k.arg not in ('environmentname', 'macroname'):
                        continue
                    key = (id(cs.node), k.arg)
                    if key in seen:
                        continue
                    seen.add(key)
                    n += 1
                    v = k.value
                    ok = isinstance(v, ast.Attribute) and v.attr == 'arg' and isinstance(v.value, ast.Name) \
                        and v.value.id in tparams
                    ctx.decide('R02q', ok, mod, cs.node, '%s: %s is %s' % (q, k.arg, unparse(v)),
                               '%s gives %s=%s, not the name carried by the token that was read (%s.arg): for the '
                               'fallback specification of unknown names the two differ (the spec is named \'\'), so the '
                               'body parser waits for \\end{} and the real \\end{name} is an error in strict mode'
                               % (q, k.arg, short(v, 40), tparams[0]), construct='%s: %s=' % (q, k.arg))
    return n



def _verbatim_nesting(ctx, repo):
    """R02p: the nesting depth of a delimited verbatim argument changes only at the argument's own
    delimiters: +1 exactly on the paths where the character equals the opening delimiter that was
    read, -1 exactly where it equals the closing one"""
    vm = repo.mod('pylatexenc.latexnodes.parsers._verbatim')
    f = vm.methods('LatexDelimitedVerbatimParser').get('new_char_check_stop_condition')
    if f is None:
        raise AnalysisError('anchor vanished: LatexDelimitedVerbatimParser.new_char_check_stop_condition')
    ch = f.args.args[1].arg
    info = [a.arg for a in f.args.args if 'info' in a.arg]
    if not info:
        ctx.unknown('R02p', vm, f, 'verbatim info parameter not found', construct='verbatim nesting')
        return
    dc = info[0] + '.depth_counter'
    try:
        cases = symex.Walker(want_exits=True, want_returns=False, track_attrs=(dc,)).run(f)
    except symex.TooManyPaths as e:
        ctx.unknown('R02p', vm, f, str(e), construct='verbatim nesting')
        return
    bad = None
    n_up = n_down = 0
    for cs in cases:
        v = cs.env.get(dc)
        if not isinstance(v, ast.AST) or unparse(v) == dc:
            continue
        try:
            d = affine.diff(v, ast.parse(dc, mode='eval').body, {})
        except affine.NotAffine:
            d = None
        facts = symex.facts_of(cs.conds, cs.env)
        opener = ('%s == %s.parsed_delimiters[0]' % (ch, info[0]), True) in facts
        closer = ('%s == %s.parsed_delimiters[1]' % (ch, info[0]), True) in facts
        if d == (1, {}):
            n_up += 1
            if not opener and bad is None:
                bad = (cs, 'the depth is increased on the path [%s], which does not test that the character is the '
                           'opening delimiter that was read' % ' & '.join(cs.cond_src())[:160])
        elif d == (-1, {}):
            n_down += 1
            if not closer and bad is None:
                bad = (cs, 'the depth is decreased on the path [%s], which does not test that the character is the '
                           'closing delimiter' % ' & '.join(cs.cond_src())[:160])
        elif bad is None:
            bad = (cs, 'the depth becomes %s' % short(v))
    ctx.decide('R02p', bad is None and n_up > 0 and n_down > 0, vm, bad[0].node if bad else f,
               'depth +1 only at the opening delimiter read, -1 only at its closing delimiter',
               'delimited verbatim argument: %s: a bracket of another kind inside the argument changes the nesting '
               'depth and the argument never closes (or closes early)' % (bad[1] if bad else 'no path changes the depth'),
               construct='verbatim nesting')


def _is_source_char(e):
    """`<x>.s[i]` / `s[i]` -- one character of the source string"""
    return isinstance(e, ast.Subscript) and not isinstance(e.slice, ast.Slice) and (
        (isinstance(e.value, ast.Attribute) and e.value.attr == 's') or (isinstance(e.value, ast.Name) and e.value.id == 's'))


def _bool_leaves2(e):
    if isinstance(e, ast.BoolOp):
        for v in e.values:
            for x in _bool_leaves2(v):
                yield x
    else:
        yield e
