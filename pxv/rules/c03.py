# -*- coding: utf-8 -*-
"""C03  latex2text renders the core sublanguage by its documented rules (thin).

Decides the policy tables and the dispatch/shape of the functions through which
the documented rules are applied; no rendered string is computed."""
import ast
from .. import symex
from ..core import (AnalysisError, short, unparse, iter_own, call_name, call_recv, kwarg,
                    is_self_attr, atomic_facts, parents, enclosing_stmt, const_value, enclosing_func)
from .. import tables

L2T = 'pylatexenc.latex2text'
L2TD = 'pylatexenc.latex2text._defaultspecs'
UTIL = 'pylatexenc._util'
NODES = 'pylatexenc.latexnodes.nodes'

# documented semantics of the presets (class docstring of LatexNodes2Text): sentence -> values
PRESET_ORACLE = {
    'based-on-source': {'between-macro-and-chars': False, 'between-latex-constructs': False,
                        'after-comment': False, 'in-equations': None},
    'macros': {'between-macro-and-chars': True, 'between-latex-constructs': True,
               'after-comment': False, 'in-equations': 'based-on-source'},
    'except-in-equations': {'between-macro-and-chars': True, 'between-latex-constructs': True,
                            'after-comment': True, 'in-equations': 'based-on-source'},
}
FORMATTING = ('emph', 'textrm', 'textit', 'textbf', 'textsc', 'textsl', 'text')
SPECIALS_ORACLE = {'~': ' ', '``': '“', "''": '”', '--': '–', '---': '—',
                   '!`': '¡', '?`': '¿'}


def _shared_preset_writes(ctx, m):
    MUT = {'update', 'pop', 'setdefault', 'clear', 'popitem', '__setitem__', '__delitem__'}
    tables_ = {st.targets[0].id for st in m.tree.body if isinstance(st, ast.Assign) and len(st.targets) == 1
               and isinstance(st.targets[0], ast.Name) and isinstance(st.value, ast.Dict)}
    # functions that can return (an entry of) a module-level table without copying it
    sharing = {}
    for q, f in m.functions.items():
        if '.' in q:
            continue
        for r in iter_own(f):
            if isinstance(r, ast.Return) and r.value is not None:
                v = r.value
                root = v
                while isinstance(root, ast.Subscript):
                    root = root.value
                if isinstance(root, ast.Name) and root.id in tables_ and not isinstance(v, ast.Call):
                    sharing[q] = (r, root.id)
    # attributes that receive such a result
    shared_attrs = {}
    for n in ast.walk(m.tree):
        if isinstance(n, ast.Assign) and isinstance(n.value, ast.Call) and isinstance(n.value.func, ast.Name) \
                and n.value.func.id in sharing:
            for t in n.targets:
                if isinstance(t, ast.Attribute):
                    shared_attrs[t.attr] = (n, n.value.func.id)
    n_w = 0
    for n in ast.walk(m.tree):
        tgt = None
        if isinstance(n, ast.Subscript) and isinstance(n.ctx, (ast.Store, ast.Del)) and \
                isinstance(n.value, ast.Attribute) and n.value.attr in shared_attrs:
            tgt = n.value
        elif isinstance(n, ast.Call) and call_name(n) in MUT and isinstance(call_recv(n), ast.Attribute) \
                and call_recv(n).attr in shared_attrs:
            tgt = call_recv(n)
        if tgt is None:
            continue
        n_w += 1
        src, fnname = shared_attrs[tgt.attr]
        ctx.refuted('R03k', m, enclosing_stmt(n) or n,
                    '%s is written in place, but it may be one of the module-level presets (%s() returns %s '
                    'entries without copying them and its result is stored in .%s): the preset itself is '
                    'changed, so every converter created later with that preset -- the default included -- '
                    'follows the modified rule' % (unparse(tgt), fnname, sharing[fnname][1], tgt.attr),
                    construct='in-place write: ' + short(enclosing_stmt(n) or n, 70))
    ctx.holds('R03k', m, None, '%d function(s) return preset tables uncopied into %d attribute(s); no in-place '
              'write to those attributes' % (len(sharing), len(shared_attrs)),
              construct='shared preset scan', trivial=True)


def _concat_parts(e):
    """flatten a + b + c into parts, merging adjacent string constants"""
    parts = []

    def rec(x):
        if isinstance(x, ast.BinOp) and isinstance(x.op, ast.Add):
            rec(x.left)
            rec(x.right)
        elif isinstance(x, ast.Constant) and isinstance(x.value, str) and parts and \
                isinstance(parts[-1], ast.Constant):
            parts[-1] = ast.Constant(value=parts[-1].value + x.value)
        else:
            parts.append(x)
    rec(e)
    return parts


def indented_block_shape(fb):
    """(True, '') when every structural path of _fmt_indented_block returns
    NL* + indent + contents.replace(NL, NL + indent) + NL*  (every line of the contents,
    empty ones included, starts with the indent; with indent='' the contents are unchanged);
    (False, reason) for a recognised deviation; (None, reason) when the shape is not understood."""
    pass
    params = [a.arg for a in fb.args.args]
    if len(params) < 3:
        return None, 'signature changed'
    cpar, ipar = params[1], params[2]
    try:
        cases = symex.return_cases(fb, pure=('replace', 'indent', 'join', 'splitlines', 'split'))
    except symex.TooManyPaths as e:
        return None, str(e)
    if not cases:
        return None, 'no return'
    for cs in cases:
        parts = _concat_parts(cs.sub)
        path = ' & '.join(cs.cond_src())[:80]
        for x in parts:
            for c in ast.walk(x):
                if isinstance(c, ast.Call) and call_name(c) == 'indent' and 'textwrap' in unparse(c.func):
                    pred = kwarg(c, 'predicate') or (c.args[2] if len(c.args) > 2 else None)
                    if pred is None:
                        return False, ('textwrap.indent() leaves empty and whitespace-only lines '
                                       'unindented: an empty display formula or a blank line inside one '
                                       'is not indented (path [%s])' % path)
                    return None, 'textwrap.indent with a predicate'
        if len(parts) != 4:
            return None, 'returned value %s is not NL + indent + body + NL' % short(cs.sub, 90)
        a, b, c, d = parts
        nl = lambda x: isinstance(x, ast.Constant) and isinstance(x.value, str) and x.value and set(x.value) == {'\n'}
        if not (nl(a) and nl(d)):
            return False, 'the block is not delimited by newlines only (%s ... %s)' % (short(a), short(d))
        if not (isinstance(b, ast.Name) and b.id == ipar):
            return False, 'the first line is prefixed by %s, not by the indent parameter' % short(b)
        okc = isinstance(c, ast.Call) and call_name(c) == 'replace' and unparse(call_recv(c)) == cpar and \
            len(c.args) == 2 and isinstance(c.args[0], ast.Constant) and c.args[0].value == '\n'
        if okc:
            rp = _concat_parts(c.args[1])
            okc = len(rp) == 2 and isinstance(rp[0], ast.Constant) and rp[0].value == '\n' and \
                isinstance(rp[1], ast.Name) and rp[1].id == ipar
        if not okc:
            return False, ('the body is %s, not %s.replace(NL, NL + %s): some lines of a display '
                           'formula are not indented by the indent' % (short(c, 80), cpar, ipar))
    return True, ''


def _stmt_of(n):
    while n is not None and not isinstance(n, ast.stmt):
        n = getattr(n, '_parent', None)
    return n


def run(ctx):
    repo = ctx.repo
    m = repo.mod(L2T)
    meths = m.methods('LatexNodes2Text')
    ctx.rule('R03a', 'the whitespace-policy presets equal the documented semantics '
                     '(based-on-source: all off; macros: macro/construct rules on, after-comment off, '
                     'equations based-on-source; except-in-equations: all on, equations '
                     'based-on-source); True = all on; False = macros; None = all off', 6)
    ctx.rule('R03b', 'every policy key that is read exists in every preset and in the default dict', 3)
    ctx.rule('R03c', 'node_to_text has a branch for every concrete node class and routes it to its '
                     'own <kind>_node_to_text method', 7)
    ctx.rule('R03d', 'the equation whitespace policy is scoped: _PushEquationContext is only used as '
                     'a with-item and PushPropOverride restores the saved value on exit', 3)
    ctx.rule('R03e', 'font/formatting macros are transparent: declared discard=False without '
                     'replacement in latex2text and with exactly one argument in the walker', 7)
    ctx.rule('R03f', 'math rendering: content is the rendered body, stripped, computed inside the '
                     'equation context; inline math returns it as is, display math / environments '
                     'return the indented block', 4)
    ctx.rule('R03g', 'accents are composed with canonical normalisation (NFC); dotless i/j are '
                     'replaced by i/j first', 2)
    ctx.rule('R03h', 'nodelist_to_text concatenates the renderings in order; the post-space of a bare '
                     'macro is re-inserted before following text exactly when the '
                     'between-macro-and-chars rule is off', 3)
    ctx.rule('R03i', 'whitespace-only chars nodes are dropped exactly when the '
                     'between-latex-constructs rule is off; comment post-space follows after-comment', 3)
    ctx.rule('R03l', 'sibling agreement in apply_simplify_repl: the %s, %(n)s and environment branches all render '
                     'a macro argument through _groupnodecontents_to_text (groups and formatting are '
                     'transparent in every replacement style)', 3)
    ctx.rule('R03k', 'the whitespace-policy presets are process-wide tables: a value that may be one of them '
                     '(returned uncopied by the policy parser and stored on the converter) is never written '
                     'in place -- one converter\'s options must not change the rules of the next', 1)
    ctx.rule('R03j', 'specials table: tie, quotes and dashes map to their Unicode characters', 7)

    # ------------------------------------------------------------ R03a
    predef = m.toplevel_assign('_strict_latex_spaces_predef')
    presets = {}
    if isinstance(predef, ast.Dict):
        for k, v in zip(predef.keys, predef.values):
            if isinstance(v, ast.Dict):
                try:
                    presets[const_value(k)] = {const_value(a): ast.literal_eval(b)
                                               for a, b in zip(v.keys, v.values)}
                except Exception:
                    raise AnalysisError('preset table is not literal')
    for name, want in sorted(PRESET_ORACLE.items()):
        got = presets.get(name)
        ctx.decide('R03a', got == want, m, predef, 'preset %r = %s' % (name, want),
                   'preset %r is %s but the documentation of strict_latex_spaces says %s'
                   % (name, got, want), construct='preset ' + name)
    pf = m.functions.get('_parse_strict_latex_spaces_dict')
    if pf is None:
        raise AnalysisError('anchor vanished: _parse_strict_latex_spaces_dict')
    p = pf.args.args[0].arg
    pass
    ok_false = ok_true = ok_none = False
    for cs in symex.return_cases(pf):
        facts = symex.facts_of(cs.conds)
        v = cs.sub
        if (p + ' is False', True) in facts:
            ok_false = unparse(v).replace('"', "'") == "_strict_latex_spaces_predef['macros']"
        elif (p + ' is True', True) in facts:
            comp = v.args[0] if isinstance(v, ast.Call) and call_name(v) == 'dict' and v.args else v
            if isinstance(comp, (ast.ListComp, ast.GeneratorExp)) and isinstance(comp.elt, ast.Tuple) and \
                    len(comp.elt.elts) == 2:
                kx, vx = comp.elt.elts
            elif isinstance(comp, ast.DictComp):
                kx, vx = comp.key, comp.value
            else:
                kx = vx = None
            ok_true = vx is not None and isinstance(vx, ast.Constant) and vx.value is True and \
                len(comp.generators) == 1 and unparse(kx) == unparse(comp.generators[0].target) and \
                unparse(comp.generators[0].iter) in ('d.keys()', 'd', 'd.items()') and not comp.generators[0].ifs
            if not ok_true and isinstance(cs.node.value, ast.Name):
                # accumulator form: acc = {}; for k in d[.keys()]: acc[k] = True; return acc
                acc = cs.node.value.id
                inits = [s_ for s_ in iter_own(pf) if isinstance(s_, ast.Assign) and unparse(s_.targets[0]) == acc]
                loops_ = [l_ for l_ in iter_own(pf) if isinstance(l_, ast.For) and any(
                    isinstance(x_, ast.Subscript) and isinstance(x_.ctx, ast.Store) and unparse(x_.value) == acc
                    for x_ in ast.walk(l_))]
                if len(inits) == 1 and ((isinstance(inits[0].value, ast.Dict) and not inits[0].value.keys) or
                                        unparse(inits[0].value) == 'dict()') and len(loops_) == 1:
                    l_ = loops_[0]
                    body_ = [b_ for b_ in l_.body if not isinstance(b_, ast.Pass)]
                    ok_true = unparse(l_.iter) in ('d.keys()', 'd') and isinstance(l_.target, ast.Name) and \
                        len(body_) == 1 and isinstance(body_[0], ast.Assign) and \
                        unparse(body_[0].targets[0]) == '%s[%s]' % (acc, l_.target.id) and \
                        isinstance(body_[0].value, ast.Constant) and body_[0].value.value is True and not l_.orelse
        elif (p + ' is None', True) in facts:
            ok_none = isinstance(v, ast.Dict) or unparse(v) == 'd'
    dflt = None
    for s in iter_own(pf):
        if isinstance(s, ast.Assign) and unparse(s.targets[0]) == 'd' and isinstance(s.value, ast.Dict):
            dflt = {const_value(a): ast.literal_eval(b) for a, b in zip(s.value.keys, s.value.values)}
    ctx.decide('R03a', ok_false, m, pf, "False -> the 'macros' preset", 'strict_latex_spaces=False no '
               "longer means the 'macros' preset", construct='policy False')
    ctx.decide('R03a', ok_true, m, pf, 'True -> every rule on', 'strict_latex_spaces=True no longer '
               'switches every rule on', construct='policy True')
    ctx.decide('R03a', ok_none and dflt == PRESET_ORACLE['based-on-source'], m, pf,
               'None / custom dict start from all rules off',
               'the default dictionary is %s' % dflt, construct='policy default dict')
    init = meths.get('__init__')
    ok = init is not None and "flags.pop('strict_latex_spaces', False)" in unparse(init)
    ctx.decide('R03a', ok, m, init or m.cls('LatexNodes2Text'), "default policy is False (= 'macros')",
               'the default of strict_latex_spaces is no longer False', construct='policy default value')

    # ------------------------------------------------------------ R03b
    used = set()
    for n in ast.walk(m.tree):
        if isinstance(n, ast.Subscript) and isinstance(n.value, ast.Attribute) and \
                n.value.attr == 'strict_latex_spaces' and isinstance(n.slice, ast.Constant):
            used.add(n.slice.value)
    for k in sorted(used):
        missing = [pn for pn, ks in presets.items() if k not in ks] + ([] if dflt and k in dflt else ['<default>'])
        ctx.decide('R03b', not missing, m, predef, 'key %r present everywhere' % k,
                   'policy key %r is read but missing in %s' % (k, missing), construct='policy key ' + k)

    # ------------------------------------------------------------ R03c
    nm = repo.mod(NODES)
    lnt = nm.toplevel_assign('latex_node_types')
    concrete = [unparse(e) for e in lnt.elts if unparse(e) != 'LatexNode'] if isinstance(lnt, ast.Tuple) else []
    ntt = meths.get('node_to_text')
    if ntt is None:
        raise AnalysisError('anchor vanished: node_to_text')
    from .. import shapes
    disp = shapes.node_dispatch(ntt)
    want = {'LatexCharsNode': 'chars_node_to_text', 'LatexGroupNode': 'group_node_to_text',
            'LatexCommentNode': 'comment_node_to_text', 'LatexMacroNode': 'macro_node_to_text',
            'LatexEnvironmentNode': 'environment_node_to_text', 'LatexSpecialsNode': 'specials_node_to_text',
            'LatexMathNode': 'math_node_to_text'}
    for cls in sorted(concrete):
        ctx.decide('R03c', disp.get(cls) == want.get(cls) and cls in want, m, ntt,
                   '%s -> %s' % (cls, want.get(cls)),
                   'node class %s is rendered by %s (expected %s): nodes of that kind are dropped or '
                   'rendered by the wrong rule' % (cls, disp.get(cls), want.get(cls)),
                   construct='dispatch of ' + cls)

    # ------------------------------------------------------------ R03d
    uses = [n for n in ast.walk(m.tree) if isinstance(n, ast.Call) and call_name(n) == '_PushEquationContext']
    ok = bool(uses) and all(isinstance(getattr(n, '_parent', None), ast.withitem) for n in uses)
    ctx.decide('R03d', ok, m, uses[0] if uses else m.cls('_PushEquationContext'),
               '_PushEquationContext used only as `with` item (%d uses)' % len(uses),
               '_PushEquationContext is used outside a with statement: the equation policy stays '
               'active after the formula', construct='_PushEquationContext uses')
    um = repo.mod(UTIL)
    pp = um.methods('PushPropOverride')
    en, exi = pp.get('__enter__'), pp.get('__exit__')
    te, tx = (unparse(en) if en else ''), (unparse(exi) if exi else '')
    ok = 'self.initval = getattr(self.obj, self.propname)' in te and \
        'setattr(self.obj, self.propname, self.new_value)' in te and \
        'setattr(self.obj, self.propname, self.initval)' in tx and 'if self.new_value is not None' in tx
    ctx.decide('R03d', ok, um, exi or um.cls('PushPropOverride'),
               'saved value restored on exit (under the same condition it was saved)',
               'PushPropOverride does not restore the saved value on exit', construct='PushPropOverride')
    pe = m.methods('_PushEquationContext').get('__init__')
    if pe is None:
        raise AnalysisError('anchor vanished: _PushEquationContext.__init__')
    pass
    lp = pe.args.args[1].arg
    pol_src = "%s.strict_latex_spaces['in-equations']" % lp
    why = None
    cases = symex.sink_cases(pe, lambda c: call_name(c) == '__init__' and isinstance(c.func, ast.Attribute)
                             and isinstance(c.func.value, ast.Call) and call_name(c.func.value) == 'super')
    if not cases:
        why = 'the override is never installed (no super().__init__ call)'
    for cs in cases:
        a_ = cs.sub.args
        if len(a_) != 3 or unparse(a_[0]) != lp or not (isinstance(a_[1], ast.Constant)
                                                        and a_[1].value == 'strict_latex_spaces'):
            why = 'the override is installed as %s' % short(cs.sub, 80)
            break
        v = symex.expand(a_[2], cs.env)
        facts = symex.facts_of(cs.conds, cs.env)
        isnone = (pol_src.replace("'", "'") + ' is None', True) in {(t_.replace('"', "'"), p_) for t_, p_ in facts}
        if isinstance(v, ast.Constant) and v.value is None:
            if not isnone:
                why = 'no override is pushed although an in-equations policy may be set'
        elif unparse(v).replace('"', "'") == '_parse_strict_latex_spaces_dict(%s)' % pol_src:
            pass
        else:
            why = 'the value pushed is %s, not the parsed in-equations policy' % short(v, 70)
    ctx.decide('R03d', why is None, m, pe,
               'in-equations policy parsed like a top-level policy and pushed on strict_latex_spaces',
               '_PushEquationContext does not push the parsed in-equations policy: %s' % why,
               construct='_PushEquationContext.__init__')

    # ------------------------------------------------------------ R03e
    lt = tables.L2TTable(repo)
    wt = tables.WalkerTable(repo)
    for name in FORMATTING:
        e = lt.macros.get(name)
        w = wt.macros.get(name)
        ok = e is not None and not e['repl'] and e['discard'] is False and w is not None and \
            w['args'] is not None and len(w['args']) == 1
        ctx.decide('R03e', ok, lt.mod, e['rec'].node if e else None,
                   '\\%s: discard=False, no replacement, one argument' % name,
                   '\\%s is not transparent: latex2text spec %s, walker arguments %s' % (
                       name, (short(e['rec'].node, 50) if e else None), w['args'] if w else None),
                   construct='formatting macro ' + name)

    # ------------------------------------------------------------ R03f
    mf = meths.get('math_node_to_text')
    if mf is None:
        raise AnalysisError('anchor vanished: math_node_to_text')
    np_ = mf.args.args[1].arg
    for mode in ('text', 'with-delimiters'):
        defs = [s for s in iter_own(mf) if isinstance(s, ast.Assign) and unparse(s.targets[0]) == 'content'
                and any(pol and unparse(t_) == "self.math_mode == '%s'" % mode for t_, pol in atomic_facts(s))]
        ok = len(defs) == 1 and unparse(defs[0].value) == 'self.nodelist_to_text(%s.nodelist).strip()' % np_ \
            and any(isinstance(p_, ast.With) and any(call_name(it.context_expr) == '_PushEquationContext'
                                                     for it in p_.items if isinstance(it.context_expr, ast.Call))
                    for p_ in parents(defs[0]))
        ctx.decide('R03f', ok, m, defs[0] if defs else mf,
                   "%s: content = nodelist_to_text(body).strip() inside the equation context" % mode,
                   "math_mode=%r: the content is not the stripped rendering of the body computed inside "
                   "the equation context (%s): whitespace just inside the delimiters leaks into the "
                   "text / the equation policy is not applied" % (mode, [short(d, 70) for d in defs]),
                   construct='math content (%s)' % mode)
    pass
    disp_txt = "%s.isNodeType(latexwalker.LatexEnvironmentNode) or %s.displaytype == 'display'" % (np_, np_)
    why = None
    n_disp = n_inl = 0
    for cs in symex.return_cases(mf):
        facts = symex.facts_of(cs.conds, cs.env, methods=meths)
        if ("self.math_mode == 'text'", True) not in facts:
            continue
        v = symex.expand(cs.sub, cs.env)
        disp = [p_ for t_, p_ in facts if t_ == disp_txt]
        if not disp:
            # De Morgan form of the negative branch: both disjuncts known false
            if (("%s.isNodeType(latexwalker.LatexEnvironmentNode)" % np_, False) in facts and
                    ("%s.displaytype == 'display'" % np_, False) in facts):
                disp = [False]
        if not disp:
            why = 'a text-mode result (%s) is not selected by the display test' % short(v, 60)
            break
        body = 'self.nodelist_to_text(%s.nodelist).strip()' % np_
        if disp[0]:
            n_disp += 1
            if unparse(v) != 'self._fmt_indented_block(%s)' % body:
                why = 'display math / math environments give %s, not the indented block of the content' % short(v, 70)
        else:
            n_inl += 1
            if unparse(v) != body:
                why = 'inline math gives %s, not the content itself' % short(v, 70)
    if why is None and not (n_disp and n_inl):
        why = 'text mode does not distinguish inline and display math'
    ctx.decide('R03f', why is None, m, mf,
               'text mode: inline -> content, display/environment -> indented block',
               'math_node_to_text (math_mode=text): %s' % why, construct='math text-mode returns')
    fb = meths.get('_fmt_indented_block')
    if fb is not None:
        v, why = indented_block_shape(fb)
        if v is None:
            ctx.unknown('R03f', m, fb, why, construct='_fmt_indented_block: every line indented')
        else:
            ctx.decide('R03f', v, m, fb, 'block = newline + indent + contents with every newline followed '
                                         'by the indent + newline', '_fmt_indented_block: %s' % why,
                       construct='_fmt_indented_block: every line indented')
    d = fb.args.defaults[0] if fb is not None and fb.args.defaults else None
    ok = d is not None and unparse(d).replace('"', "'") in ("' ' * 4", "'    '")
    ctx.decide('R03f', ok, m, fb or mf, 'display math is indented by four spaces',
               'default indent of the display block is %s' % (unparse(d) if d is not None else '?'),
               construct='_fmt_indented_block default indent', trivial=True)

    # ------------------------------------------------------------ R03g
    dm = repo.mod(L2TD)
    mac = dm.functions.get('make_accented_char')
    if mac is None:
        raise AnalysisError('anchor vanished: make_accented_char')
    # the composition may live in make_accented_char itself or in a module-level helper it calls
    acc_scope = [mac] + [dm.functions[c_.func.id] for c_ in ast.walk(mac) if isinstance(c_, ast.Call)
                         and isinstance(c_.func, ast.Name) and c_.func.id in dm.functions
                         and '.' not in c_.func.id and dm.functions[c_.func.id] is not mac]
    norm = [c for f_ in acc_scope for c in ast.walk(f_) if isinstance(c, ast.Call) and call_name(c) == 'normalize']
    ok = len(norm) == 1 and isinstance(norm[0].args[0], ast.Constant) and norm[0].args[0].value == 'NFC'
    ctx.decide('R03g', ok, dm, norm[0] if norm else mac, "unicodedata.normalize('NFC', base + combining)",
               'accented characters are composed with %s instead of NFC: compatibility normalisation '
               'changes the base symbol (e.g. the phi / epsilon variants) when it is accented'
               % (short(norm[0]) if norm else 'no normalisation'), construct='make_accented_char: normal form')
    t = unparse(mac)
    srcs = ''.join(mac_src(dm, f_) for f_ in acc_scope)
    ok = "LATIN SMALL LETTER DOTLESS I" in srcs and "LATIN SMALL LETTER DOTLESS J" in srcs
    ctx.decide('R03g', ok, dm, mac, 'dotless i/j replaced before composing',
               'dotless i/j are no longer replaced before the accent is applied',
               construct='make_accented_char: dotless letters', trivial=True)

    # the dotless letters are looked for character by character: the compared variable is the per-character one
    # (parameter of the helper applied to each character, or the variable of the loop/comprehension over the argument)
    for f_ in acc_scope:
        for c_ in ast.walk(f_):
            if not (isinstance(c_, ast.Compare) and len(c_.ops) == 1 and isinstance(c_.comparators[0], ast.Constant)
                    and c_.comparators[0].value in (u'\u0131', u'\u0237') and isinstance(c_.left, ast.Name)):
                continue
            var = c_.left.id
            enc = enclosing_func(c_)
            per_char = False
            if enc is not None and enc is not mac and var in {a_.arg for a_ in enc.args.args}:
                # the helper must be applied elementwise: called with the variable of a loop / comprehension
                callers = [x_ for g_ in acc_scope for x_ in ast.walk(g_) if isinstance(x_, ast.Call)
                           and isinstance(x_.func, ast.Name) and x_.func.id == enc.name]
                per_char = bool(callers) and all(any(isinstance(p_, (ast.ListComp, ast.GeneratorExp, ast.For))
                                                     for p_ in parents(x_)) for x_ in callers)
            elif any(isinstance(p_, (ast.ListComp, ast.GeneratorExp)) and any(
                    isinstance(t_, ast.Name) and t_.id == var for g2 in p_.generators for t_ in ast.walk(g2.target))
                    for p_ in parents(c_)) or any(
                        isinstance(p_, ast.For) and any(isinstance(t_, ast.Name) and t_.id == var for t_ in ast.walk(p_.target))
                        for p_ in parents(c_)):
                per_char = True
            ctx.decide('R03g', per_char, dm, c_, 'dotless letter looked for per character (%s)' % var,
                       'the dotless i/j test compares `%s`, which is the whole argument text, not one character of it: in an '
                       'argument of several letters (\\^{\\i\\j}) the dotless letters are kept, so the result differs from '
                       'accenting the letters one by one' % var, construct='make_accented_char: dotless test on ' + var)

    # ------------------------------------------------------------ R03h
    nl = meths.get('nodelist_to_text')
    if nl is None:
        raise AnalysisError('anchor vanished: nodelist_to_text')
    loops = [l for l in iter_own(nl) if isinstance(l, ast.For)]
    ok = len(loops) == 1 and unparse(loops[0].iter) == nl.args.args[1].arg
    adds = []
    if ok:
        l = loops[0]
        lv = unparse(l.target)
        adds = [s for s in l.body if isinstance(s, ast.AugAssign) and 'self.node_to_text(%s' % lv in unparse(s.value)]
        pass
        ends = [c for c in symex.Walker(want_exits=True).run_block(l.body) if c.kind == 'end']
        stale = [c for c in ends if not (isinstance(c.env.get('prev_node'), ast.Name)
                                         and c.env['prev_node'].id == lv)]
        ok = len(adds) == 1 and not any(isinstance(x, (ast.Break, ast.Continue)) for x in ast.walk(l))
        ctx.decide('R03h', bool(ends) and not stale, m, l,
                   'prev_node is the node just rendered at the end of every iteration (%d path(s))' % len(ends),
                   'on the path [%s] an iteration ends without prev_node being the node just rendered: '
                   'the post-space of an earlier bare macro is emitted after a node that came in '
                   'between (e.g. after a comment\'s line break)'
                   % (' & '.join(stale[0].cond_src())[-120:] if stale else ''),
                   construct='nodelist_to_text: previous node')
    ctx.decide('R03h', ok, m, loops[0] if loops else nl,
               'every node rendered once, in order, appended to the result',
               'nodelist_to_text does not append the rendering of every node in order',
               construct='nodelist_to_text: loop')
    # the result is the concatenation itself: nothing rewrites the joined text afterwards (a global
    # rewrite makes the text of a block depend on its neighbours)
    if loops and adds:
        acc = unparse(adds[0].target)
        for r_ in [x for x in iter_own(nl) if isinstance(x, ast.Return) and x.value is not None]:
            v_ = r_.value
            plain = (isinstance(v_, ast.Constant) and v_.value == '') or unparse(v_) == acc
            if not plain:
                try:
                    rc_ = [c for c in symex.Walker(want_returns=True).run(nl) if c.node is r_]
                except symex.TooManyPaths:
                    rc_ = []
                plain = bool(rc_) and all(isinstance(c.sub, ast.Name) and c.sub.id.split('@')[0] == acc for c in rc_)
            ctx.decide('R03h', plain, m, r_, 'returns the concatenation %s unchanged' % acc,
                       'nodelist_to_text returns %s, not the concatenation %s itself: the joined text is rewritten '
                       'as a whole, so the text of a block depends on what precedes and follows it and converting '
                       'two blocks separately no longer equals converting them together' % (short(v_, 80), acc),
                       construct='nodelist_to_text: result')
    ps = [s for s in ast.walk(nl) if isinstance(s, ast.AugAssign) and 'macro_post_space' in unparse(s.value)]
    ok = len(ps) == 1
    if ok:
        facts = [(unparse(t_), pol) for t_, pol in atomic_facts(ps[0])]
        ok = ("self.strict_latex_spaces['between-macro-and-chars']", False) in facts and \
            ('self._is_bare_macro_node(prev_node)', True) in facts and any(
                pol and 'isNodeType(latexwalker.LatexCharsNode)' in t_ for t_, pol in facts) and \
            ps[0].lineno < (adds[0].lineno if loops and adds else 0)
    ctx.decide('R03h', ok, m, ps[0] if ps else nl,
               'post-space of a bare macro re-inserted before chars iff the rule is off',
               'the bare-macro post-space rule changed: it is applied on %s'
               % ([(unparse(t_), pol) for t_, pol in atomic_facts(ps[0])] if ps else 'no path'),
               construct='nodelist_to_text: bare-macro post-space')
    if ps:
        v_ = ps[0].value
        whole = isinstance(v_, ast.Attribute) and v_.attr == 'macro_post_space' and isinstance(ps[0].op, ast.Add)
        ctx.decide('R03h', whole, m, ps[0], 'the post-space of the bare macro is re-inserted whole',
                   'nodelist_to_text re-inserts %s, not the macro\'s post-space as it stands in the source: under '
                   '\'based-on-source\' (and in formulas under the policies that keep source spacing there) two blanks or a '
                   'line break plus indentation after a macro name come out as something else than what the source has'
                   % short(v_, 60), construct='nodelist_to_text: bare-macro post-space value')
    bm = meths.get('_is_bare_macro_node')
    if bm is None:
        raise AnalysisError('anchor vanished: _is_bare_macro_node')
    bp = bm.args.args[1].arg
    need = [(bp + ' is None', False), (bp + '.isNodeType(latexwalker.LatexMacroNode)', True),
            (bp + '.nodeoptarg is None', True),
            ('%s.nodeargs is None or len(%s.nodeargs) == 0' % (bp, bp), True)]
    why = None
    n_true = 0
    for cs in symex.return_cases(bm):
        if isinstance(cs.sub, ast.Constant) and not cs.sub.value:
            continue
        n_true += 1
        facts = symex.facts_of(cs.conds, cs.env, also=[cs.sub])
        miss = [t_ for t_, p_ in need if (t_, p_) not in facts]
        if miss:
            why = 'a node counts as bare macro without %s' % miss
    if not n_true:
        why = 'never returns a true value'
    ctx.decide('R03h', why is None, m, bm, 'bare macro = macro node without optional and mandatory arguments',
               '_is_bare_macro_node no longer means "macro node without any argument": %s' % why,
               construct='_is_bare_macro_node')

    # ------------------------------------------------------------ R03i
    cf = meths.get('chars_node_to_text')
    rets = [r for r in iter_own(cf) if isinstance(r, ast.Return)] if cf else []
    empt = [r for r in rets if isinstance(r.value, ast.Constant) and r.value.value == '']
    ok = len(empt) == 1
    if ok:
        facts = [(unparse(t_), pol) for t_, pol in atomic_facts(empt[0])]
        # "the text is blank" in any of its spellings: len(x.strip()) == 0, not x.strip(), x.strip() == ''
        blank = any((t_.replace('"', "'"), pol) in (
            ('len(content.strip()) == 0', True), ('content.strip()', False), ("content.strip() == ''", True),
            ('len(content.strip())', False), ('len(content.strip()) > 0', False), ('len(content.strip()) != 0', False),
            ("content.strip() != ''", False)) for t_, pol in facts)
        ok = ("self.strict_latex_spaces['between-latex-constructs']", False) in facts and blank
    ctx.decide('R03i', ok, m, empt[0] if empt else cf,
               'whitespace-only text dropped iff between-latex-constructs is off',
               'chars_node_to_text drops text on %s' % (
                   [(unparse(t_), pol) for t_, pol in atomic_facts(empt[0])] if empt else 'no path'),
               construct='chars_node_to_text: whitespace-only nodes')
    oth = [r for r in rets if r not in empt]
    ok = len(oth) == 1 and unparse(oth[0].value) == 'content'
    ctx.decide('R03i', ok, m, oth[0] if oth else cf, 'other text is copied',
               'chars_node_to_text does not copy the text', construct='chars_node_to_text: copy')
    cm = meths.get('comment_node_to_text')
    t = unparse(cm) if cm else ''
    ok = "self.strict_latex_spaces['after-comment']" in t and 'return node.comment_post_space' in t
    ctx.decide('R03i', ok, m, cm or cf, 'discarded comment leaves its post-space unless after-comment is on',
               'comment post-space no longer follows the after-comment rule', construct='comment post-space')

    # ------------------------------------------------------------ R03j
    for sc, want_ in sorted(SPECIALS_ORACLE.items()):
        e = lt.specials.get(sc)
        ctx.decide('R03j', e is not None and e['repl'] == want_, lt.mod, e['rec'].node if e else None,
                   '%r -> U+%04X' % (sc, ord(want_)),
                   'specials %r renders as %r (documented: U+%04X)' % (sc, e['repl'] if e else None, ord(want_)),
                   construct='specials ' + sc)
    # ------------------------------------------------------------ R03l (sibling agreement)
    asr = meths.get('apply_simplify_repl')
    if asr is None:
        raise AnalysisError('anchor vanished: apply_simplify_repl')
    scopes = [(asr, 'nodeargs')]
    for c_ in iter_own(asr):
        if isinstance(c_, ast.Call) and is_self_attr(c_.func) and c_.func.attr in meths and c_.func.attr.startswith('_'):
            h_ = meths[c_.func.attr]
            for a_, pn in zip(c_.args, [x.arg for x in h_.args.args][1:]):
                if isinstance(a_, ast.Name) and a_.id == 'nodeargs':
                    scopes.append((h_, pn))
    sites = []
    for f_, lname in scopes:
        for comp in [x for x in ast.walk(f_) if isinstance(x, (ast.ListComp, ast.GeneratorExp, ast.DictComp))]:
            for g in comp.generators:
                if isinstance(g.iter, ast.Name) and g.iter.id == lname and isinstance(g.target, ast.Name):
                    elt = comp.value if isinstance(comp, ast.DictComp) else comp.elt
                    rend = [c2 for c2 in ast.walk(elt) if isinstance(c2, ast.Call) and any(
                        isinstance(a2, ast.Name) and a2.id == g.target.id for a2 in c2.args)]
                    if rend:
                        sites.append((comp, rend[0]))
    for comp, r_ in sites:
        ok_ = is_self_attr(r_.func) and r_.func.attr == '_groupnodecontents_to_text'
        ctx.decide('R03l', ok_, m, comp, 'argument rendered with _groupnodecontents_to_text',
                   'in this branch of apply_simplify_repl the macro arguments are rendered with %s while the '
                   'sibling branches use self._groupnodecontents_to_text: with keep_braced_groups=True the braces '
                   'of the argument groups appear in the text of %%s-style replacements (\\frac{ab}{cd} -> '
                   '{ab}/{cd}) but not of %%(n)s-style ones' % short(r_.func),
                   construct='apply_simplify_repl: ' + short(comp, 70))
    if len(sites) < 3:
        ctx.unknown('R03l', m, asr, 'only %d argument-rendering sites found' % len(sites),
                    construct='apply_simplify_repl: argument rendering')

    # ------------------------------------------------------------ R03k
    _shared_preset_writes(ctx, m)
    ctx.assume('no rendered string is computed: whitespace ownership between constructs and the '
               'compositional equality stated by the property are run-time statements, not decided')
    # ---- R03m (C08 R08e): accent macros that share their name with an escaped character
    ctx.rule('R03m', 'names defined twice in one category of the default tables resolve to the later entry, '
                     'which the tables rely on (\\~ as accent): the per-category dictionaries keep the last '
                     'definition (C08 R08e)', 1)
    from . import c08 as _c08
    from .. import core as _core
    _core.run_proxied(ctx, _c08, 'R03m', ('R08e',))

    # ---- R03n (shared with C09 R09f)
    ctx.rule('R03n', 'the default text-replacement database is built anew for every caller: rendering by the '
                     'documented rules does not depend on what another caller added to "its" default database', 2)
    from . import c09 as _c09
    _c09.default_db_fresh(ctx, 'R03n', repo)

    # ---- R03o: braces of a group are kept by the length of its rendered contents
    ctx.rule('R03o', 'group_node_to_text keeps the delimiters exactly when keep_braced_groups is set and the rendered '
                     'contents -- the very text placed between the delimiters -- is at least keep_braced_groups_minlen long', 1)
    gf = meths.get('group_node_to_text')
    if gf is None:
        raise AnalysisError('anchor vanished: group_node_to_text')
    try:
        grc = [c for c in symex.Walker(want_returns=True, pure=('_groupnodecontents_to_text', 'strip', 'lstrip', 'rstrip')).run(gf)
               if c.kind == 'return']
    except symex.TooManyPaths:
        grc = []
    bad_g, n_keep = None, 0
    for c in grc:
        v = c.sub
        parts = []

        def flat(e):
            if isinstance(e, ast.BinOp) and isinstance(e.op, ast.Add):
                flat(e.left)
                flat(e.right)
            else:
                parts.append(e)
        flat(v)
        if len(parts) == 3 and 'delimiters' in unparse(parts[0]) and 'delimiters' in unparse(parts[2]):
            n_keep += 1
            mid = unparse(parts[1])
            facts = symex.facts_of(c.conds, c.env)
            okf = ('self.keep_braced_groups', True) in facts and (
                ('len(%s) >= self.keep_braced_groups_minlen' % mid, True) in facts or
                ('len(%s) < self.keep_braced_groups_minlen' % mid, False) in facts)
            if not okf and bad_g is None:
                bad_g = (c, mid, sorted(t for t, p_ in facts if 'minlen' in t))
    ctx.decide('R03o', bad_g is None and n_keep > 0, m, bad_g[0].node if bad_g else gf,
               'delimiters kept under keep_braced_groups and len(<contents placed between them>) >= minlen',
               'group_node_to_text keeps the delimiters around %s under the test %s: the length that is compared is not '
               'the length of the text placed between the delimiters (surrounding whitespace of a group such as `{a }` is '
               'part of its rendering), so groups at the length limit lose or keep their braces against the documented rule'
               % (bad_g[1] if bad_g else '?', bad_g[2] if bad_g else 'none'), construct='group_node_to_text: kept braces')

    # ---- R03p: an empty rendering is a value, not "absent"
    ctx.rule('R03p', 'a rendered text (result of a *_to_text call) is never used as a truth value in latex2text: an '
                     'argument that renders to the empty string is present', 0)
    for mod_ in sorted(repo.modules.values(), key=lambda m_: m_.name):
        if not mod_.name.startswith('pylatexenc.latex2text'):
            continue
        for n_ in ast.walk(mod_.tree):
            tests = []
            if isinstance(n_, ast.BoolOp):
                tests = list(n_.values[:-1])
            elif isinstance(n_, (ast.If, ast.IfExp, ast.While)):
                tests = [n_.test]
            for t_ in tests:
                if isinstance(t_, ast.UnaryOp) and isinstance(t_.op, ast.Not):
                    t_ = t_.operand
                if isinstance(t_, ast.Call) and call_name(t_).endswith('_to_text'):
                    ctx.refuted('R03p', mod_, enclosing_stmt(n_) or n_, 'the text rendered by %s is used as a truth value '
                                '(%s): an argument that is present but renders to the empty string (`\\item[]`, '
                                '`\\item[{}]`) is treated like an absent one' % (short(t_, 50), short(n_, 70)),
                                construct='rendered text as truth value: ' + short(t_, 50))
    ctx.holds('R03p', m, None, 'no rendered text is used as a truth value', construct='rendered-text truth value scan',
              trivial=True)

    # ---- R03q: rendering does not consult the parser's math-mode flag
    ctx.rule('R03q', 'latex2text never reads the parsing state\'s in_math_mode: what a construct renders to is decided by '
                     'the construct (formulas go through math_node_to_text), so a block renders the same wherever it stands', 0)
    n_mm = 0
    for mod_ in sorted(repo.modules.values(), key=lambda m_: m_.name):
        if not mod_.name.startswith('pylatexenc.latex2text'):
            continue
        for x_ in ast.walk(mod_.tree):
            if isinstance(x_, ast.Attribute) and x_.attr == 'in_math_mode' and isinstance(x_.ctx, ast.Load):
                n_mm += 1
                ctx.refuted('R03q', mod_, enclosing_stmt(x_) or x_, '%s is read in latex2text: the rendering of a construct '
                            'depends on whether the parser was in math mode (text ligatures such as -- and \'\' stay '
                            'unconverted inside formulas), which the documented rules do not say and which makes the text '
                            'of a piece depend on where it stands' % short(x_, 50), construct='read of in_math_mode: ' + short(x_, 40))
    ctx.holds('R03q', m, None, 'no read of in_math_mode in latex2text', construct='in_math_mode scan', trivial=True)

    # ---- R03r (C12 R12b), R03s (C08 R08k)
    ctx.rule('R03r', 'math_mode=verbatim gives the source of the formula unchanged (display formulas through the block formatter '
                     'with indent=\'\' only), remove gives nothing, with-delimiters keeps the delimiters (C12 R12b)', 10)
    from . import c12 as _c12
    _core.run_proxied(ctx, _c12, 'R03r', ('R12b',))
    ctx.rule('R03s', 'no function of latex2text changes a module-level table in place: what a macro renders to does not depend '
                     'on what the process rendered before (an accent remembered per base letter, a spec remembered per name) '
                     '(C08 R08k)', 1)
    _core.run_proxied(ctx, _c08, 'R03s', ('R08k',))

    ctx.rule('R03u', 'the token reader decides "this white space contains a paragraph break" in one way -- at least two '
                     'newlines -- at every site, the post-space of a comment included: a comment followed by three newlines is '
                     'still followed by a paragraph break, which latex2text renders as exactly one blank line under every '
                     'policy (C02 R02y)', 2)
    from . import c02 as _c02
    _core.run_proxied(ctx, _c02, 'R03u', ('R02y',))

    # ---- R03t: the policy dictionary handed out by the preset parser is not edited by its callers
    ctx.rule('R03t', '_parse_strict_latex_spaces_dict() returns the module-level preset tables themselves (no copy) for the named '
                     'policies: no caller writes into what it returns (`d[k] = ..`, update, pop, setdefault, clear, del) -- such a '
                     'write edits the shared preset, and every converter created afterwards with that policy name follows '
                     'another policy than the one selected', 1)
    pmods_ = set(m.toplevel_names()) if hasattr(m, 'toplevel_names') else {
        t_.id for st_ in m.tree.body if isinstance(st_, ast.Assign) for t_ in st_.targets if isinstance(t_, ast.Name)}
    shared_ret = [r_ for r_ in iter_own(pf) if isinstance(r_, ast.Return) and r_.value is not None and (
        (isinstance(r_.value, ast.Subscript) and isinstance(r_.value.value, ast.Name) and r_.value.value.id in pmods_) or
        (isinstance(r_.value, ast.Name) and r_.value.id in pmods_))]
    n_t = 0
    MUT_ = ('update', 'pop', 'setdefault', 'clear', 'popitem', '__setitem__', '__delitem__')
    for q_, f_ in sorted(m.functions.items()):
        tn_ = set()
        for st_ in iter_own(f_):
            if isinstance(st_, ast.Assign) and isinstance(st_.value, ast.Call) and \
                    call_name(st_.value) == '_parse_strict_latex_spaces_dict':
                for t_ in st_.targets:
                    tn_.add(unparse(t_))
        if not tn_:
            continue
        n_t += 1
        badw = None
        for x_ in iter_own(f_):
            if isinstance(x_, ast.Subscript) and isinstance(x_.ctx, (ast.Store, ast.Del)) and unparse(x_.value) in tn_:
                badw = badw or x_
            if isinstance(x_, ast.Call) and isinstance(x_.func, ast.Attribute) and x_.func.attr in MUT_ and \
                    unparse(x_.func.value) in tn_:
                badw = badw or x_
        ctx.decide('R03t', badw is None or not shared_ret, m, badw if badw is not None else f_,
                   '%s does not write into the policy dictionary it obtained' % q_,
                   '%s writes into the dictionary returned by _parse_strict_latex_spaces_dict() (%s), which for a named policy is '
                   'the module-level preset table itself (%s): the preset is changed for the whole process, and a converter '
                   'created later with the same policy name no longer follows the documented policy'
                   % (q_, short(_stmt_of(badw), 60) if badw is not None else '',
                      short(shared_ret[0], 50) if shared_ret else ''), construct='%s: write into the parsed policy' % q_)
    if not n_t:
        ctx.unknown('R03t', m, pf, 'no caller of _parse_strict_latex_spaces_dict found', construct='parsed policy writes')

    return 'other', (
        'Decides the policy tables against the documented semantics and the shape of the functions '
        'through which the documented rules are applied (dispatch per node kind, scoping of the '
        'equation policy, stripped math content, bare-macro post-space rule, whitespace-only nodes, '
        'NFC accents, transparent formatting macros, specials table).  Rendered text is not computed.')


def mac_src(mod, fn):
    seg = ast.get_source_segment(mod.src, fn)
    return seg or ''
