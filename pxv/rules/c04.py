# -*- coding: utf-8 -*-
"""C04  Encoder output equals the documented rule semantics.

R04a first-match order (rule sequence is only appended to, in input order, and
     compiled one-to-one); R04b every path through the main loop consumes
     exactly once; R04c rule-level protection wins; R04d policy / protection
     names have methods; R04e only the `fail` policy raises, and the partial
     encoder contains the walker's token errors; R04f NFC before the loop;
     R04g the module-level encoder cache key covers every option; R04h regex
     rules are matched in place (full-string context)."""
import ast
from ..core import (AnalysisError, short, unparse, iter_own, call_name, call_recv, kwarg,
                    is_self_attr, atomic_facts, parents, enclosing_stmt, enclosing_func,
                    const_value)
from . import c09
from .. import affine, symex

ENC = 'pylatexenc.latexencode._unicode_to_latex_encoder'
PART = 'pylatexenc.latexencode._partial_latex_encoder'
INIT = 'pylatexenc.latexencode'

POLICIES = ('keep', 'replace', 'ignore', 'fail', 'unihex')
PROTECTIONS = ('braces', 'braces-all', 'braces-almost-all', 'braces-after-macro', 'none')


def run(ctx):
    repo = ctx.repo
    m = repo.mod(ENC)
    meths = m.methods('UnicodeToLatexEncoder')
    rules(ctx, repo, m, meths)
    ctx.assume('rule callables and regular expressions supplied by the user are outside the rule')
    # ---- R04x: the encoder classes leave the lists they are given as they are
    ctx.rule('R04x', 'no function of the latexencode package changes a list or dictionary argument in place (P.insert / append / '
                     'extend / update / sort / ... , `P += [...]`, `P[k] = v`, `del P[k]`) while the name still denotes the '
                     'caller\'s object: a conversion-rule list handed to one encoder and then to a second one (or to a plain '
                     'UnicodeToLatexEncoder) must still describe the rules the caller wrote, so that each encoder\'s output '
                     'depends on its own configuration only (symex: the receiver after substitution of re-bindings)', 1)
    MUT4_ = ('append', 'extend', 'insert', 'pop', 'remove', 'clear', 'sort', 'reverse', 'update', 'setdefault', 'popitem')
    n_f4 = n_m4 = 0
    for mn_, mod_ in sorted(repo.modules.items()):
        if not mn_.startswith('pylatexenc.latexencode') or mn_.endswith('__main__'):
            continue
        for q_, fnode in sorted(mod_.functions.items()):
            skip_ = 1 if '.' in q_ else 0
            fparams = {a.arg for a in fnode.args.args[skip_:]} | {a.arg for a in fnode.args.kwonlyargs}
            fparams -= {'self', 'cls'}
            if not fparams:
                continue
            n_f4 += 1
            has_ = any((isinstance(x_, ast.Call) and call_name(x_) in MUT4_ and isinstance(call_recv(x_), ast.Name))
                       for x_ in iter_own(fnode))
            if has_:
                try:
                    # (the receiver may be a local alias of a parameter: decided on the substituted receiver)
                    wk = symex.Walker(is_sink=lambda c: call_name(c) in MUT4_ and isinstance(call_recv(c), ast.Name),
                                      pure=('list', 'dict', 'tuple', 'set'))
                    cases = wk.run(fnode)
                except symex.TooManyPaths:
                    cases = []
                    ctx.unknown('R04x', mod_, fnode, '%s: too many paths to follow the in-place call' % q_,
                                construct='%s: in-place call' % q_)
                seen_ = set()
                for cs in cases:
                    rv = call_recv(cs.sub)
                    if isinstance(rv, ast.Name) and rv.id in fparams and (rv.id, call_name(cs.sub)) not in seen_:
                        seen_.add((rv.id, call_name(cs.sub)))
                        n_m4 += 1
                        ctx.refuted('R04x', mod_, cs.node, '%s changes its argument %s in place (%s) on the path [%s]: the caller\'s '
                                    'list is modified, so the next encoder built from the same list (a second partial encoder '
                                    'with other keep_latex_chars, or a plain UnicodeToLatexEncoder) also runs what this call '
                                    'added and no longer encodes what its own configuration says'
                                    % (q_, rv.id, short(cs.node, 40), ' & '.join(cs.cond_src())[-80:]),
                                    construct='%s: in-place %s.%s' % (q_, rv.id, call_name(cs.sub)))
            for st_ in iter_own(fnode):
                tg_ = None
                if isinstance(st_, ast.Assign):
                    tg_ = [t_ for t_ in st_.targets if isinstance(t_, ast.Subscript)]
                elif isinstance(st_, ast.Delete):
                    tg_ = [t_ for t_ in st_.targets if isinstance(t_, ast.Subscript)]
                elif isinstance(st_, ast.AugAssign) and isinstance(st_.target, ast.Name):
                    tg_ = [ast.Subscript(value=st_.target)]
                for t_ in tg_ or []:
                    if not (isinstance(t_.value, ast.Name) and t_.value.id in fparams):
                        continue
                    nm_ = t_.value.id
                    # the name denotes the caller's object unless it is re-bound, unconditionally, earlier in the body
                    reb_ = any(isinstance(b_, ast.Assign) and any(isinstance(x_, ast.Name) and x_.id == nm_ for x_ in b_.targets)
                               and b_.lineno < st_.lineno for b_ in fnode.body)
                    if isinstance(st_, ast.AugAssign) and not isinstance(st_.op, (ast.Add, ast.BitOr)):
                        continue
                    if not reb_:
                        n_m4 += 1
                        ctx.refuted('R04x', mod_, st_, '%s changes its argument %s in place (`%s`) without first re-binding it to '
                                    'a copy: the caller\'s object is modified and the next encoder configured from it behaves '
                                    'differently' % (q_, nm_, short(st_, 50)), construct='%s: in-place %s' % (q_, short(st_, 40)))
    ctx.holds('R04x', m, None, 'no function of latexencode modifies an argument object in place (%d functions with parameters)'
              % n_f4, construct='argument mutation scan', trivial=True)

    # ---- R04y: the result object is only ever extended with `+=`
    ctx.rule('R04y', 'the encoder extends its result (`<p>.latex`, an instance of the caller\'s latex_string_class, documented to '
                     'need nothing but a no-argument constructor and `__iadd__`) with `+=` only: `p.latex = p.latex + x` calls '
                     '`__add__`, which such a class does not have -- TypeError for the documented chunk-list class as soon as '
                     'that site is reached (non_ascii_only with an ASCII character)', 3)
    n_l4 = 0
    for mn_, mod_ in sorted(repo.modules.items()):
        if not mn_.startswith('pylatexenc.latexencode') or mn_.endswith('__main__'):
            continue
        for q_, fnode in sorted(mod_.functions.items()):
            for st_ in iter_own(fnode):
                if isinstance(st_, ast.AugAssign) and isinstance(st_.target, ast.Attribute) and st_.target.attr == 'latex':
                    n_l4 += 1
                    ctx.decide('R04y', isinstance(st_.op, ast.Add), mod_, st_, '%s: result extended with +=' % q_,
                               '%s updates the result with `%s`, not `+=`' % (q_, short(st_, 40)),
                               construct='%s: %s' % (q_, short(st_, 40)))
                elif isinstance(st_, ast.Assign) and any(isinstance(t_, ast.Attribute) and t_.attr == 'latex' for t_ in st_.targets):
                    tt_ = [unparse(t_) for t_ in st_.targets if isinstance(t_, ast.Attribute) and t_.attr == 'latex'][0]
                    reads_ = [x_ for x_ in ast.walk(st_.value) if isinstance(x_, ast.Attribute) and unparse(x_) == tt_]
                    n_l4 += 1
                    ctx.decide('R04y', not reads_, mod_, st_, '%s: result created, not rebuilt from itself' % q_,
                               '%s rebuilds the result object with `%s`: that is `__add__` (or whatever the expression calls) on '
                               'an instance of latex_string_class, which is only required to support `+=`; with the chunk-list '
                               'class of the documentation this raises TypeError' % (q_, short(st_, 50)),
                               construct='%s: %s' % (q_, short(st_, 40)))
    if not n_l4:
        ctx.unknown('R04y', m, None, 'no update of a `.latex` result found in latexencode', construct='result updates')

    # ---- R04p: text kept by the partial encoder is one whole token
    ctx.rule('R04p', 'PartialLatexToLatexEncoder: whatever is kept unencoded is measured by the token that was read (its '
                     'end position), never a fixed number of characters', 1)
    pmod_ = repo.mod('pylatexenc.latexencode._partial_latex_encoder')
    pst_ = pmod_.methods('PartialLatexToLatexEncoder').get('_do_partial_latex_encode_step')
    if pst_ is None:
        raise AnalysisError('anchor vanished: _do_partial_latex_encode_step')
    try:
        prc_ = [c for c in symex.Walker(want_returns=True).run(pst_) if c.kind == 'return']
    except symex.TooManyPaths:
        prc_ = []
    badp_, n_keep_ = None, 0
    for c in prc_:
        if isinstance(c.sub, ast.Tuple) and c.sub.elts:
            n_keep_ += 1
            if isinstance(c.sub.elts[0], ast.Constant) and badp_ is None:
                badp_ = c
    ctx.decide('R04p', badp_ is None and n_keep_ > 0, pmod_, badp_.node if badp_ else pst_,
               'kept text is measured by the token read (%d keeping path(s))' % n_keep_,
               'the partial encoder keeps a fixed %s character(s) on the path [%s] without reading a token: for a kept '
               'character that starts a longer token (a comment when %% is kept) only that character is copied and the '
               'rest of the existing LaTeX is encoded again'
               % (short(badp_.sub.elts[0], 10) if badp_ else '', ' & '.join(badp_.cond_src())[-100:] if badp_ else ''),
               construct='_do_partial_latex_encode_step: kept length')

    # ---- R04w: what the step reports as consumed ends where the copied text ends
    ctx.rule('R04w', 'PartialLatexToLatexEncoder: a keeping return (n, text) whose text copies the input up to s[..:END] reports '
                     'n = END - pos consumed characters (the rule is asked at pos, so consumption starts there -- including the '
                     'blanks the token reader skipped and that are copied as the token\'s pre_space): otherwise the input '
                     'between pos+n and END is copied AND encoded again', 1)
    from .. import affine as _aff
    pp_ = [a_.arg for a_ in pst_.args.args]
    n_w_ = 0
    for c in prc_:
        v_ = symex.expand(c.sub, c.env)
        if not (isinstance(v_, ast.Tuple) and len(v_.elts) == 2):
            continue
        sl_ = [x_ for x_ in ast.walk(v_.elts[1]) if isinstance(x_, ast.Subscript) and isinstance(x_.slice, ast.Slice)
               and isinstance(x_.value, ast.Name) and len(pp_) >= 3 and x_.value.id == pp_[1] and x_.slice.upper is not None]
        if not sl_:
            continue
        n_w_ += 1
        try:
            d_ = _aff.diff(ast.BinOp(left=v_.elts[0], op=ast.Add(), right=ast.Name(id=pp_[2], ctx=ast.Load())),
                           sl_[-1].slice.upper)
            okw = d_ == (0, {})
        except _aff.NotAffine:
            okw = None
        if okw is None:
            ctx.unknown('R04w', pmod_, c.node, 'cannot compare %s with the end of %s' % (short(v_.elts[0], 40), short(sl_[-1], 40)),
                        construct='_do_partial_latex_encode_step: consumed count')
            continue
        ctx.decide('R04w', okw, pmod_, c.node, 'consumed count ends where the copied text ends',
                   'the partial encoder copies %s but reports %s characters consumed from %s: that is not %s - %s, so when the '
                   'token reader skipped blanks before the token (a kept blank, keep_latex_chars containing \' \') the end of '
                   'the token is both copied and encoded again (`a \\%% b` gives a doubled percent sign)'
                   % ('a slice of the input', short(c.sub.elts[0], 40) if isinstance(c.sub, ast.Tuple) else short(c.sub, 40),
                      pp_[2], 'the end of that slice', pp_[2]),
                   construct='_do_partial_latex_encode_step: consumed count')
    if not n_w_:
        ctx.unknown('R04w', pmod_, pst_, 'no keeping return that copies a slice of the input found',
                    construct='_do_partial_latex_encode_step: consumed count')

    # ---- R04o: the result is the accumulated output object on every path
    ctx.rule('R04o', 'unicode_to_latex() returns the accumulated output (the latex_string_class instance it filled) on every '
                     'path: no shortcut hands back the input or another type', 1)
    u2l_ = meths.get('unicode_to_latex')
    accs_ = {unparse(x.targets[0]) for x in iter_own(u2l_) if isinstance(x, ast.Assign) and isinstance(x.value, ast.Call)
             and unparse(x.value.func).endswith('latex_string_class')} if u2l_ is not None else set()
    rets_ = [r_ for r_ in iter_own(u2l_) if isinstance(r_, ast.Return)] if u2l_ is not None else []
    badr_ = [r_ for r_ in rets_ if r_.value is None or unparse(r_.value) not in accs_]
    ctx.decide('R04o', bool(rets_) and bool(accs_) and not badr_, m, badr_[0] if badr_ else u2l_,
               'every return of unicode_to_latex returns %s' % sorted(accs_),
               'unicode_to_latex returns %s on one path, not the output object %s it accumulates: that result has another '
               'type (a plain str instead of latex_string_class) and skipped the documented processing, so encoding a '
               'concatenation no longer equals concatenating the encodings'
               % (short(badr_[0].value, 40) if badr_ and badr_[0].value is not None else 'nothing', sorted(accs_)),
               construct='unicode_to_latex: result object')
    # ---- R04q: the callable compiled for a rule is that rule's own
    ctx.rule('R04q', 'no function object created in a loop (lambda / nested def) that reads the loop\'s variable outlives the '
                     'iteration without freezing it: the callable compiled for a rule calls that rule, not the last one of '
                     'the list (grules.late_binding_closures; the rule is exercised on a built-in example on every run)', 1)
    from .. import grules as _gr2
    from ..core import set_parents as _sp
    ex_ = ast.parse('def f(rules, out):\n    for r in rules:\n        g = lambda s: r.rule(s)\n        out.append(g)\n')
    _sp(ex_)
    if len(list(_gr2.late_binding_closures(ex_.body[0]))) != 1:
        raise AnalysisError('R04q: the late-binding rule no longer fires on its built-in example')
    n_lb = 0
    for mod_ in repo.modules.values():
        if not mod_.name.startswith('pylatexenc.latexencode'):
            continue
        for q_, f_ in sorted(mod_.functions.items()):
            for cl_, nm_, lp_, esc_ in _gr2.late_binding_closures(f_):
                n_lb += 1
                ctx.refuted('R04q', mod_, cl_, '%s: the function created at line %d reads `%s`, which the loop at line %d '
                            're-binds on every iteration, and is kept beyond the iteration (%s): when it is called, `%s` is '
                            'the value of the last iteration -- every compiled rule calls the last rule of the list'
                            % (q_, cl_.lineno, nm_, lp_.lineno, short(esc_, 60), nm_),
                            construct='%s: closure over loop variable %s' % (q_, nm_))
    ctx.holds('R04q', m, None, 'no closure over a loop variable outlives its iteration in pylatexenc.latexencode '
                               '(built-in example flagged)', construct='late-binding closure scan', trivial=True)
    # ---- R04v: a callable supplied by the user is consulted for every occurrence
    ctx.rule('R04v', 'no function of the encoder wraps a callable it was handed (unknown_char_policy, a rule callable) in a memo '
                     '(a nested function that stores the callable\'s result in a container and answers from it): the policy is '
                     'asked for every occurrence of an unknown character, so encoding a concatenation is the concatenation of '
                     'the encodings for policies that number, collect or depend on settings (grules.memoised_callables; '
                     'exercised on a built-in example on every run)', 1)
    ex2_ = ast.parse('def wrap(fn):\n    seen = {}\n    def g(ch):\n        if ch not in seen:\n            seen[ch] = fn(ch)\n'
                     '        return seen[ch]\n    return g\n')
    _sp(ex2_)
    if len(list(_gr2.memoised_callables(ex2_.body[0]))) != 1:
        raise AnalysisError('R04v: the memoised-callable rule no longer fires on its built-in example')
    for mod_ in repo.modules.values():
        if not mod_.name.startswith('pylatexenc.latexencode'):
            continue
        for q_, f_ in sorted(mod_.functions.items()):
            for g_, st_, c_ in _gr2.memoised_callables(f_):
                ctx.refuted('R04v', mod_, st_, '%s: the nested function at line %d stores the result of the callable `%s` it was handed '
                            '(%s) and answers later calls from that store: a user-supplied unknown_char_policy is asked once '
                            'per character, not once per occurrence -- a policy that numbers or collects the unknown characters '
                            'gives, for "ab" + "ab", something else than twice what it gives for "ab"'
                            % (q_, g_.lineno, c_.func.id, short(st_, 50)), construct='%s: memo around %s' % (q_, c_.func.id))
    ctx.holds('R04v', m, None, 'no memo around a supplied callable in pylatexenc.latexencode (built-in example flagged)',
              construct='memoised callable scan', trivial=True)
    # ---- R04m (C13 R13h); the module-state rule of C09 is R04g above
    ctx.rule('R04m', 'nothing on the unknown-character path can raise except the fail policy: no library call that is '
                     'partial on characters (unicodedata.name without default) (C13 R13h)', 1)
    from . import c13 as _c13
    from .. import core as _core
    _core.run_proxied(ctx, _c13, 'R04m', ('R13h',))
    ctx.rule('R04r', 'the encoder reads the input only at the current position or under an in-range test: no IndexError at the '
                     'end of the input (C13 R13n)', 2)
    _core.run_proxied(ctx, _c13, 'R04r', ('R13n',))

    return 'other', (
        'Decides the structural conditions of the documented encoder semantics: the rule sequence '
        'is built and compiled one-to-one in input order, the main loop tries rules first-match '
        'and consumes exactly once per iteration on every path, the rule-level protection '
        'overrides the global one, policy/protection names resolve to methods, only the fail '
        'policy raises, and the module-level cache key covers all options.  Agreement with an '
        'executable reference semantics on concrete strings is not decided.')


def rules(ctx, repo, m, meths):
    ctx.rule('R04a', 'first-match order: the rule sequence is only appended/extended in input order '
                     '(never re-bound, merged, sorted or synthesised) and each rule compiles to '
                     'exactly one entry of _compiled_rules; the main loop tries them in order and '
                     'stops at the first match', 5)
    ctx.rule('R04b', 'every path through one iteration of the main loop advances the position '
                     'exactly once, by the consumed length of the matching rule or by 1', 6)
    ctx.rule('R04c', 'a rule\'s own replacement_latex_protection, when not None, overrides the '
                     'encoder-wide scheme', 1)
    ctx.rule('R04d', 'every documented unknown_char_policy / protection name has a '
                     '_do_unknown_char_<n> / _apply_protection_<n> method', 10)
    ctx.rule('R04e', 'the only explicit raise reachable from unicode_to_latex() is the ValueError '
                     'of the fail policy; token errors of the walker used by the partial encoder '
                     'are caught', 3)
    ctx.rule('R04f', 'the input is NFC-normalised before the loop', 1)
    ctx.rule('R04g', 'the module-level cache of encoder objects is keyed by every option the cached '
                     'encoder is built from', 1)
    ctx.rule('R04l', 'the schemes `braces` and `braces-after-macro` protect exactly the replacement texts that end '
                     'with a control word (probe texts evaluated by the checker\'s own interpreter)', 2)
    ctx.rule('R04k', 'the partial encoder decides "this is LaTeX" with a strict token read: the walker it builds '
                     'has tolerant_parsing=False wherever a LatexWalkerTokenParseError handler depends on it', 1)
    ctx.rule('R04t', 'the partial encoder reads the token that decides "keep this LaTeX" from a walker constructed in the same '
                     'call from the string `s` that the position `pos` indexes (no walker remembered on the encoder)', 1)
    ctx.rule('R04u', 'HexstrN (the code point in the unihex output and in the fail message) pads the hexadecimal digits to '
                     'N places and never removes digits: no slice of the rendering', 1)
    ctx.rule('R04s', 'whether a rule callable accepts `u2lobj` is decided with inspect (getfullargspec / signature), which '
                     'understands every callable; attributes of the code object (__code__, co_varnames) exist on plain '
                     'functions only, so callable objects and functools.partial rules would silently not get the encoder', 1)
    ctx.rule('R04j', 'an explicitly empty option (conversion_rules=[]) is not replaced by the default: no '
                     '`param or <non-empty default>` on a parameter whose "not given" value is None', 1)
    ctx.rule('R04i', 'the state of the conversion loop (position, output) is created afresh by every '
                     'call of unicode_to_latex(); it is not kept on the encoder or at module level '
                     '(rule callables may re-enter the encoder)', 1)
    ctx.rule('R04h', 'regex rules are matched at the position inside the full string (rx.match(s, '
                     'pos)), so that look-behind, \\b and ^ see the real context', 1)

    init = meths.get('__init__')
    u2l = meths.get('unicode_to_latex')
    if init is None or u2l is None:
        raise AnalysisError('anchor vanished: UnicodeToLatexEncoder.__init__/unicode_to_latex')

    # ------------------------------------------------------------ R04a
    comp_loops = [l for l in iter_own(init) if isinstance(l, ast.For) and any(
        isinstance(c, ast.Call) and call_name(c) == 'append' and is_self_attr(call_recv(c), '_compiled_rules')
        for c in ast.walk(l))]
    if len(comp_loops) != 1:
        ctx.refuted('R04a', m, init, '_compiled_rules is not filled by exactly one loop',
                    construct='compile loop')
        return
    cl = comp_loops[0]
    seqname = unparse(cl.iter)
    assigns = [s for s in iter_own(init) if isinstance(s, ast.Assign)
               and any(unparse(t) == seqname for t in s.targets)]
    scope = init
    # the expansion may live in a helper method: `seq = self._expand()` whose single return is the list it builds
    if len(assigns) == 1 and isinstance(assigns[0].value, ast.Call) and is_self_attr(assigns[0].value.func) and \
            assigns[0].value.func.attr in meths and not assigns[0].value.args and not assigns[0].value.keywords:
        h_ = meths[assigns[0].value.func.attr]
        hr_ = [r_ for r_ in iter_own(h_) if isinstance(r_, ast.Return)]
        if len(hr_) == 1 and isinstance(hr_[0].value, ast.Name):
            scope, seqname = h_, hr_[0].value.id
            assigns = [s for s in iter_own(scope) if isinstance(s, ast.Assign)
                       and any(unparse(t) == seqname for t in s.targets)]
    ok_bind = len(assigns) == 1 and isinstance(assigns[0].value, ast.List) and not assigns[0].value.elts
    ctx.decide('R04a', ok_bind, m, assigns[-1] if assigns else init,
               '%s is bound once, to an empty list' % seqname,
               'the rule sequence %s is bound %d times (%s): rules are re-ordered, merged or '
               'replaced between the user\'s list and the compiled rules'
               % (seqname, len(assigns), '; '.join(short(a, 50) for a in assigns)),
               construct='rule sequence binding')
    muts = [c for c in iter_own(scope) if isinstance(c, ast.Call) and call_recv(c) is not None
            and unparse(call_recv(c)) == seqname]
    if scope is not init:
        muts += [c for c in iter_own(init) if isinstance(c, ast.Call) and call_recv(c) is not None
                 and unparse(call_recv(c)) == unparse(cl.iter)]
    bad_mut = [c for c in muts if call_name(c) not in ('append', 'extend')]
    exp_loop = [l for l in iter_own(scope) if isinstance(l, ast.For)
                and is_self_attr(l.iter, 'conversion_rules')]
    in_loop = all(any(p is exp_loop[0] for p in parents(c)) for c in muts) if exp_loop else False
    ctx.decide('R04a', bool(exp_loop) and not bad_mut and in_loop and bool(muts), m,
               exp_loop[0] if exp_loop else init,
               'rules appended/extended in the order of self.conversion_rules',
               'the rule sequence is modified by %s outside the in-order expansion loop'
               % [short(c, 40) for c in (bad_mut or muts)], construct='rule sequence expansion')
    scopes_ = [init] + ([scope] if scope is not init else [])
    substores = [s for sc_ in scopes_ for s in iter_own(sc_) if isinstance(s, (ast.Assign, ast.AugAssign)) and any(
        isinstance(t, ast.Subscript) for t in (s.targets if isinstance(s, ast.Assign) else [s.target]))]
    synth = [c for sc_ in scopes_ for c in iter_own(sc_) if isinstance(c, ast.Call)
             and call_name(c) == 'UnicodeToLatexConversionRule']
    ctx.decide('R04a', not synth and not substores, m, (synth or substores or [init])[0],
               'no rule object is synthesised or replaced in __init__',
               '__init__ builds or replaces rule objects itself (%s): the compiled rules are not '
               'the user\'s rules one-to-one' % short((synth or substores or [init])[0], 60),
               construct='no synthesised rules')
    # compile loop: each branch appends exactly once or raises
    n_app = _append_paths(cl.body, '_compiled_rules')
    ctx.decide('R04a', n_app, m, cl, 'every rule type appends exactly one compiled rule',
               'some rule type compiles to zero or several entries of _compiled_rules',
               construct='compile loop: one entry per rule')
    other_writes = [c for c in ast.walk(m.cls('UnicodeToLatexEncoder')) if isinstance(c, ast.Call)
                    and call_name(c) in ('insert', 'sort', 'reverse', 'pop', 'remove', 'extend')
                    and call_recv(c) is not None and is_self_attr(call_recv(c), '_compiled_rules')]
    ctx.decide('R04a', not other_writes, m, other_writes[0] if other_writes else cl,
               '_compiled_rules is only appended to',
               '_compiled_rules is reordered/modified by %s' % [short(c) for c in other_writes],
               construct='_compiled_rules only appended')
    # main loop: for rule in self._compiled_rules: if rule(s,p): break  else: ...
    fors = [l for l in iter_own(u2l) if isinstance(l, ast.For) and is_self_attr(l.iter, '_compiled_rules')]
    ok_for = len(fors) == 1 and bool(fors[0].orelse) and len(fors[0].body) == 1 and \
        isinstance(fors[0].body[0], ast.If) and isinstance(fors[0].body[0].test, ast.Call) and \
        len(fors[0].body[0].body) == 1 and isinstance(fors[0].body[0].body[0], ast.Break) and \
        not fors[0].body[0].orelse
    ctx.decide('R04a', ok_for, m, fors[0] if fors else u2l,
               'for rule in _compiled_rules: if rule(s, p): break / else: fallback',
               'the main loop does not try the compiled rules in order and stop at the first match',
               construct='main loop: first match wins')

    # ------------------------------------------------------------ R04b
    _wh = [w_ for w_ in iter_own(u2l) if isinstance(w_, ast.While)]
    wh0 = _wh[0] if len(_wh) == 1 else None
    # (i) skip-ascii helper: +1 on its true edge only
    csa = meths.get('_check_do_skip_ascii')
    if csa is not None:
        why, desc = skip_ascii_summary(csa)
        ctx.decide('R04b', why is None, m, csa, 'returns True after advancing by 1, False without advancing: ' + desc,
                   '_check_do_skip_ascii: %s' % why, construct='_check_do_skip_ascii')
    # (ii) _apply_replacement advances by its numchars parameter exactly once
    ar = meths.get('_apply_replacement')
    if ar is None:
        raise AnalysisError('anchor vanished: _apply_replacement')
    adv = [s for s in iter_own(ar) if isinstance(s, ast.AugAssign) and unparse(s.target).endswith('.pos')]
    nump = ar.args.args[3].arg if len(ar.args.args) > 3 else None
    ok = len(adv) == 1 and isinstance(adv[0].op, ast.Add) and unparse(adv[0].value) == nump and \
        not any(isinstance(p, (ast.If, ast.For, ast.While)) for p in parents(adv[0]) if p is not ar
                and any(q is ar for q in parents(p)))
    ctx.decide('R04b', ok, m, ar, 'p.pos += numchars, once, unconditionally',
               '_apply_replacement does not advance the position by its consumed-length parameter '
               'exactly once', construct='_apply_replacement: advance')
    outs = [s for s in iter_own(ar) if isinstance(s, ast.AugAssign) and unparse(s.target).endswith('.latex')]
    ok = len(outs) == 1 and isinstance(outs[0].value, ast.Name)
    ctx.decide('R04b', ok, m, ar, 'appends the (protected) replacement once',
               '_apply_replacement does not append the replacement exactly once',
               construct='_apply_replacement: output')
    # (iii) each _apply_rule_* passes the consumed count of its kind and returns True after it
    for name in ('_apply_rule_callable', '_apply_rule_dict', '_apply_rule_regex'):
        f = meths.get(name)
        if f is None:
            ctx.refuted('R04b', m, m.cls('UnicodeToLatexEncoder'), 'missing ' + name, construct=name)
            continue
        pname = f.args.args[-1].arg            # the position record `p`
        try:
            cases = symex.sink_cases(f, lambda c: call_name(c) == '_apply_replacement')
        except symex.TooManyPaths as e:
            ctx.unknown('R04b', m, f, str(e), construct=name)
            continue
        why = None
        if not cases:
            why = 'never calls _apply_replacement'
        for cs in cases:
            a = cs.sub.args
            if len(a) != 4:
                why = 'calls _apply_replacement with %d arguments' % len(a)
                break
            repl, consumed = a[1], a[2]
            if name == '_apply_rule_dict':
                if not (isinstance(consumed, ast.Constant) and consumed.value == 1):
                    why = 'a dict rule consumes %s, not 1 character' % short(consumed)
                elif not (isinstance(repl, ast.Subscript) and unparse(repl.value) == f.args.args[1].arg):
                    why = 'the replacement %s is not looked up in the rule dict' % short(repl)
            elif name == '_apply_rule_regex':
                ce = consumed
                for _i in range(3):
                    d_ = cs.env.get('#def', {}).get(ce.id) if isinstance(ce, ast.Name) else None
                    if not isinstance(d_, ast.AST):
                        break
                    ce = d_
                ok = isinstance(ce, ast.BinOp) and isinstance(ce.op, ast.Sub) and \
                    isinstance(ce.left, ast.Call) and isinstance(ce.right, ast.Call) and \
                    call_name(ce.left) == 'end' and call_name(ce.right) == 'start' and \
                    not ce.left.args and not ce.right.args and \
                    unparse(call_recv(ce.left)) == unparse(call_recv(ce.right))
                if not ok:
                    why = 'a regex rule consumes %s, not m.end() - m.start() of its match' % short(ce)
                else:
                    msym = unparse(call_recv(ce.left))
                    mdef = cs.env.get('#def', {}).get(msym)
                    if not (isinstance(mdef, ast.Call) and any(
                            unparse(x) == pname + '.pos' for x in mdef.args)):
                        why = 'the match object %s does not come from a match at %s.pos' % (msym, pname)
                    else:
                        # the replacement is computed from that very match object (repl(m),
                        # m.expand(template), re_match_expand(m, template)), not by matching again
                        rd = repl
                        d_ = cs.env.get('#def', {}).get(rd.id) if isinstance(rd, ast.Name) else None
                        if isinstance(d_, ast.AST):
                            rd = d_
                        direct = isinstance(rd, ast.Call) and (
                            any(isinstance(x, ast.Name) and x.id == msym for x in rd.args) or
                            (call_recv(rd) is not None and unparse(call_recv(rd)) == msym))
                        again = isinstance(rd, ast.Call) and call_name(rd) in ('sub', 'subn', 'match', 'search')
                        if again or not direct:
                            why = ('the replacement text is %s, not computed from the match object %s '
                                   'itself: matching the matched text again loses the surrounding '
                                   'context (look-behind, look-ahead, \\b), the rule consumes its '
                                   'characters but emits something else' % (short(rd, 70), msym))
            else:
                di = symex.item_def(unparse(consumed), cs.env) if isinstance(consumed, ast.Name) else None
                dr = symex.item_def(unparse(repl), cs.env) if isinstance(repl, ast.Name) else None
                if not (di and dr and di[1] == 0 and dr[1] == 1 and di[3] is dr[3]):
                    # res = rulecallable(s, pos); (consumed, repl) = res
                    ok = False
                    if di and dr and di[1] == 0 and dr[1] == 1 and unparse(di[3]) == unparse(dr[3]):
                        ok = True
                    if not ok:
                        why = ('a callable rule must pass (consumed, replacement) = the two items of '
                               'the callable\'s result; found consumed=%s replacement=%s'
                               % (short(consumed), short(repl)))
            if why:
                break
        calls = [c for c in iter_own(f) if isinstance(c, ast.Call) and call_name(c) == '_apply_replacement']
        # every _apply_replacement call is followed by `return True`; other returns are None/False
        rets_ok = bool(calls)
        for c in calls:
            st = enclosing_stmt(c)
            blk = _block_of(st)
            i = blk.index(st)
            nxt = blk[i + 1] if i + 1 < len(blk) else None
            rets_ok = rets_ok and isinstance(nxt, ast.Return) and isinstance(nxt.value, ast.Constant) \
                and nxt.value.value is True
        if why is None and not rets_ok:
            why = 'does not `return True` right after applying the replacement'
        ctx.decide('R04b', why is None, m, f,
                   'consumes %s and reports the match (%d structural case(s))'
                   % (short(cases[0].sub.args[2]) if cases and len(cases[0].sub.args) == 4 else '?', len(cases)),
                   '%s: %s: the position advances by a length other than what the rule matched'
                   % (name, why), construct=name)
    # (iv) fallback arms: +1 each
    if fors:
        els = fors[0].orelse
        pos_attr = unparse(wh0.test.left) if wh0 is not None and isinstance(wh0.test, ast.Compare) else 'p.pos'
        rec = pos_attr.rsplit('.', 1)[0]
        out_attr = rec + '.latex'
        # no call in the fallback block receives the record `p`, so tracking p.pos / p.latex as
        # variables is sound there (checked: the record is not passed to any call)
        passes_rec = [c for st in els for c in ast.walk(st) if isinstance(c, ast.Call) and any(
            isinstance(a, ast.Name) and a.id == rec for a in list(c.args) + [k.value for k in c.keywords])]
        try:
            cases = symex.Walker(want_exits=True, track_attrs=(pos_attr, out_attr)).run_block(els)
        except symex.TooManyPaths as e:
            cases = None
            ctx.unknown('R04b', m, fors[0], str(e), construct='fallback arms')
        if passes_rec:
            cases = None
            ctx.unknown('R04b', m, passes_rec[0], 'the fallback block hands the position record to a '
                                                  'call', construct='fallback arms')
        if cases is not None:
            ends = [c for c in cases if c.kind in ('end', 'continue')]
            bad_adv, bad_out, n_copy, n_unk, bad_range = [], [], 0, 0, []
            for cs in ends:
                pv, ov = cs.env.get(pos_attr), cs.env.get(out_attr)
                try:
                    d = affine.diff(pv, ast.parse(pos_attr, mode='eval').body, {}) if pv is not None else (0, {})
                except affine.NotAffine:
                    d = None
                if d != (1, {}):
                    bad_adv.append('[%s] %s becomes %s' % (' & '.join(cs.cond_src())[:80], pos_attr,
                                                           short(pv) if pv is not None else 'unchanged'))
                # output appended
                app = None
                if isinstance(ov, ast.BinOp) and isinstance(ov.op, ast.Add) and unparse(ov.left) == out_attr:
                    app = symex.resolve(ov.right, cs.env)    # a local holding the policy call's result
                cur_ch = 's[%s]' % pos_attr
                if app is None:
                    bad_out.append('nothing appended to %s' % out_attr)
                elif isinstance(app, ast.Subscript) and unparse(app.slice) == pos_attr:
                    n_copy += 1
                    # the copy arm must be guarded by the documented printable test
                    tt = [_passthrough_table(t) for t, pol in cs.conds if pol]
                    tt = [x for x in tt if x is not None]
                    if not tt:
                        bad_range.append('copy arm not under a recognisable range test')
                    elif not any(x is True for x in tt):
                        bad_range.append('the pass-through test is %s, not 32..127 or \\n\\r\\t'
                                         % [unparse(t) for t, pol in cs.conds if pol][-1])
                elif isinstance(app, ast.Call) and call_name(app) == '_do_unknown_char' and \
                        len(app.args) == 1 and isinstance(app.args[0], ast.Subscript) and \
                        unparse(app.args[0].slice) == pos_attr:
                    n_unk += 1
                else:
                    bad_out.append('appends %s' % short(app))
            ctx.decide('R04b', not bad_adv and bool(ends), m, fors[0],
                       'every fallback path advances by exactly 1 (%d path(s))' % len(ends),
                       'a fallback arm does not advance by exactly one character: %s' % '; '.join(bad_adv),
                       construct='fallback arms: advance')
            ctx.decide('R04b', not bad_out and n_copy >= 1 and n_unk >= 1, m, fors[0],
                       'printable ASCII copied; other characters replaced by the policy result only',
                       'fallback output: %s (copy arms %d, policy arms %d): the unknown-character arm '
                       'must append exactly the policy\'s result (an empty or falsy result must not '
                       'be replaced by the raw character)' % ('; '.join(bad_out), n_copy, n_unk),
                       construct='fallback arms: output')
            ctx.decide('R04b', not bad_range, m, fors[0], 'pass-through range 32..127 plus \\n \\r \\t',
                       'the ASCII pass-through test is wrong: %s' % '; '.join(bad_range),
                       construct='fallback: pass-through range', trivial=True)
    # while header and `continue` after skip
    wh = [w for w in iter_own(u2l) if isinstance(w, ast.While)]
    ok = False
    if len(wh) == 1:
        # the test with locals substituted: <position> < len(<the string scanned>) (the length may
        # be held in a local computed from the final string)
        tst_ = wh[0].test
        try:
            hc_ = symex.Walker(is_sink=lambda n: n is tst_, sink_types=(ast.Compare,),
                               pure=('normalize', 'unicode_str', 'str', 'unicode')).run(u2l)
        except symex.TooManyPaths:
            hc_ = []
        svals = set()
        for cs in hc_:
            t_ = cs.sub
            if isinstance(t_, ast.Compare) and len(t_.ops) == 1 and isinstance(t_.ops[0], ast.Lt) and \
                    unparse(t_.left).endswith('.pos') and isinstance(t_.comparators[0], ast.Call) and \
                    call_name(t_.comparators[0]) == 'len' and len(t_.comparators[0].args) == 1:
                cur = symex.subst(ast.Name(id=u2l.args.args[1].arg, ctx=ast.Load()), cs.env)
                svals.add(unparse(t_.comparators[0].args[0]) == unparse(cur))
            else:
                svals.add(False)
        ok = svals == {True}
    ctx.decide('R04b', ok, m, wh[0] if wh else u2l, 'loop runs while p.pos < len(s)',
               'the main loop is not `while p.pos < len(s)`', construct='main loop header')

    # ------------------------------------------------------------ R04l (shared with C08 R08b)
    pa_, pb_ = meths.get('_apply_protection_braces'), meths.get('_apply_protection_braces_after_macro')
    if pa_ is None or pb_ is None:
        raise AnalysisError('anchor vanished: _apply_protection_braces(_after_macro)')
    from . import c08
    c08.protection_probes(ctx, 'R04l', m, pa_, pb_)

    # ------------------------------------------------------------ R04k
    pm = repo.mod('pylatexenc.latexencode._partial_latex_encoder')
    for q_, f_ in sorted(pm.functions.items()):
        hs_ = [h for t_ in iter_own(f_) if isinstance(t_, ast.Try) for h in t_.handlers
               if h.type is not None and 'TokenParseError' in unparse(h.type)]
        ws_ = [c_ for c_ in iter_own(f_) if isinstance(c_, ast.Call) and call_name(c_) == 'LatexWalker']
        if not hs_ or not ws_:
            continue
        for wc in ws_:
            tp = kwarg(wc, 'tolerant_parsing')
            strict = isinstance(tp, ast.Constant) and tp.value is False
            ctx.decide('R04k', strict, pm, wc, 'the helper walker is strict, so a malformed token raises and is '
                                               'handled by the `except LatexWalkerTokenParseError` branch',
                       '%s handles LatexWalkerTokenParseError to tell "not LaTeX here", but builds its walker with '
                       'tolerant_parsing=%s: a tolerant reader returns a recovery token instead of raising, the '
                       'handler is dead and malformed input (a trailing backslash, \\begin{ without name) is '
                       'copied through instead of being encoded' % (q_, short(tp) if tp is not None else 'the default (True)'),
                       construct='%s: helper walker' % q_)

    # ------------------------------------------------------------ R04u
    hx_ = m.functions.get('HexstrN')
    if hx_ is None:
        ctx.unknown('R04u', m, None, 'HexstrN not found', construct='HexstrN')
    else:
        cuts = [x_ for x_ in ast.walk(hx_) if isinstance(x_, ast.Subscript) and isinstance(x_.slice, ast.Slice)]
        ctx.decide('R04u', not cuts, m, cuts[0] if cuts else hx_, 'HexstrN pads, it never cuts',
                   'HexstrN takes a slice of the hexadecimal rendering (%s): padding to N digits this way also TRUNCATES to N '
                   'digits, so a character above U+FFFF is written with its leading digit missing (U+1F600 as U+F600) -- the '
                   'unihex policy no longer names the character, distinct characters encode alike, and the ValueError of the '
                   'fail policy names the wrong code point' % (short(cuts[0], 50) if cuts else ''),
                   construct='HexstrN: padding')

    # ------------------------------------------------------------ R04s
    acc_ = m.functions.get('_callable_accepts_u2lobj_arg')
    if acc_ is None:
        ctx.unknown('R04s', m, None, '_callable_accepts_u2lobj_arg not found', construct='_callable_accepts_u2lobj_arg')
    else:
        p0_ = acc_.args.args[0].arg if acc_.args.args else None
        insp = [c_ for c_ in iter_own(acc_) if isinstance(c_, ast.Call) and call_name(c_) in (
            'getfullargspec', 'getargspec', 'signature') and c_.args and unparse(c_.args[0]) == p0_]
        codeattr = [x_ for x_ in ast.walk(acc_) if (isinstance(x_, ast.Attribute) and x_.attr in (
            '__code__', 'func_code', 'co_varnames', 'co_argcount')) or (isinstance(x_, ast.Constant) and x_.value in (
                '__code__', 'func_code'))]
        ctx.decide('R04s', bool(insp) and not codeattr, m, (codeattr or [acc_])[0],
                   'decided by %s' % (short(insp[0], 40) if insp else ''),
                   '_callable_accepts_u2lobj_arg reads %s instead of asking inspect: a callable object or functools.partial used '
                   'as a rule (or as unknown_char_policy) has no code object, is taken not to accept u2lobj, and is then called '
                   'without the encoder (TypeError, or a different replacement)'
                   % (short(codeattr[0], 30) if codeattr else 'no signature of its argument'),
                   construct='_callable_accepts_u2lobj_arg: signature source')

    # ------------------------------------------------------------ R04t
    # the token that decides "this is LaTeX" is read from the very string the position refers to
    for q_, f_ in sorted(pm.functions.items()):
        params_ = [a_.arg for a_ in f_.args.args]
        if 's' not in params_ or 'pos' not in params_:
            continue
        try:
            tcs = symex.Walker(is_sink=lambda c_: call_name(c_) in ('peek_token', 'next_token')).run(f_)
        except symex.TooManyPaths:
            continue
        seen_t = set()
        for cs in tcs:
            full = symex.expand(cs.sub, cs.env)
            mk = [c_ for c_ in ast.walk(full) if isinstance(c_, ast.Call) and call_name(c_) == 'make_token_reader']
            src_ok = False
            why = 'no make_token_reader(...) in ' + short(full, 60)
            if mk:
                recv = call_recv(mk[0])
                if isinstance(recv, ast.Call) and call_name(recv) == 'LatexWalker' and recv.args and unparse(recv.args[0]) == 's':
                    src_ok = True
                else:
                    why = 'the reader comes from %s' % short(recv, 60)
            key_ = (id(cs.node), src_ok)
            if key_ in seen_t:
                continue
            seen_t.add(key_)
            ctx.decide('R04t', src_ok, pm, cs.node, 'token read from a walker built on the string `s` passed with `pos`',
                       '%s reads the deciding token on the path [%s] from a walker that is not built, in this call, from the '
                       'string `s` its position refers to (%s): a walker remembered on the encoder holds another string (the '
                       'input before NFC normalisation), so the offset points at other characters and text is kept or '
                       'encoded wrongly' % (q_, ' & '.join(cs.cond_src())[-100:], why), construct='%s: walker source' % q_)

    # ------------------------------------------------------------ R04j
    n_or = 0
    for mod_ in repo.modules.values():
        if not mod_.name.startswith('pylatexenc.latexencode') or 'uni2latexmap' in mod_.name:
            continue
        for q_, f_ in mod_.functions.items():
            a_ = f_.args
            pos_ = a_.args
            nd = {p_.arg for p_, d_ in zip(pos_[len(pos_) - len(a_.defaults):], a_.defaults)
                  if isinstance(d_, ast.Constant) and d_.value is None}
            nd |= {p_.arg for p_, d_ in zip(a_.kwonlyargs, a_.kw_defaults)
                   if isinstance(d_, ast.Constant) and d_.value is None}
            for b_ in iter_own(f_):
                if isinstance(b_, ast.BoolOp) and isinstance(b_.op, ast.Or) and len(b_.values) == 2 and \
                        isinstance(b_.values[0], ast.Name) and b_.values[0].id in nd:
                    lit = b_.values[1]
                    nonempty = (isinstance(lit, (ast.List, ast.Tuple, ast.Set)) and lit.elts) or \
                        (isinstance(lit, ast.Dict) and lit.keys) or \
                        (isinstance(lit, ast.Constant) and isinstance(lit.value, str) and lit.value)
                    if nonempty:
                        n_or += 1
                        ctx.refuted('R04j', mod_, b_, '`%s` replaces an explicitly given EMPTY %s by the default %s '
                                    '(only None means "not given"): e.g. conversion_rules=[] -- no rules at all -- '
                                    'silently becomes the built-in defaults, so the output is no longer what the '
                                    'given rule list specifies' % (short(b_), b_.values[0].id, short(lit)),
                                    construct='%s: %s' % (q_, short(b_)))
    ctx.holds('R04j', m, None, 'no `<None-default parameter> or <non-empty literal>` in the encoder package',
              construct='empty-versus-None scan', trivial=True)

    # ------------------------------------------------------------ R04i
    # the loop state (position, output so far) belongs to one call: callable rules receive the
    # encoder (u2lobj) and may call unicode_to_latex() again while a call is in progress
    rec = unparse(wh0.test.left).rsplit('.', 1)[0] if wh0 is not None and isinstance(wh0.test, ast.Compare) else None
    binds = [s_ for s_ in iter_own(u2l) if isinstance(s_, ast.Assign) and any(
        isinstance(t_, ast.Name) and t_.id == rec for t_ in s_.targets)] if rec else []
    if not binds:
        ctx.unknown('R04i', m, u2l, 'loop state record not found', construct='loop state record')
    for b in binds:
        v = b.value
        fresh = isinstance(v, ast.Call) and isinstance(v.func, ast.Name) and (
            any(isinstance(c_, ast.ClassDef) and c_.name == v.func.id for c_ in ast.walk(u2l)) or
            any(isinstance(c_, ast.ClassDef) and c_.name == v.func.id for c_ in m.tree.body) or
            v.func.id in ('dict', 'SimpleNamespace', 'object'))
        ctx.decide('R04i', fresh, m, b, 'the loop state is a fresh object per call',
                   'the loop state %s is %s, an object that outlives the call: a callable rule that uses its '
                   'encoder argument to encode a sub-string re-enters unicode_to_latex() and overwrites '
                   'the position and output of the call in progress; two threads sharing an encoder '
                   'corrupt each other' % (rec, short(v)), construct='loop state record: ' + short(b, 60))

    # ------------------------------------------------------------ R04c
    rp = ar.args.args[4].arg if len(ar.args.args) > 4 else 'ruleobj'
    rattr = rp + '.replacement_latex_protection'
    why = None
    pn = ar.args.args[1].arg
    try:
        ends = [c for c in symex.Walker(want_exits=True, track_attrs=(pn + '.latex', pn + '.pos')).run_block(ar.body)
                if c.kind in ('end', 'return')]
    except symex.TooManyPaths as e:
        ends, why = [], str(e)
    n_rule = n_enc = 0
    for cs in ends:
        lv = cs.env.get(pn + '.latex')
        app = lv.right if isinstance(lv, ast.BinOp) and isinstance(lv.op, ast.Add) else None
        app = symex.resolve(app, cs.env) if app is not None else None
        fn_ = symex.resolve(app.func, cs.env) if isinstance(app, ast.Call) else None
        facts = symex.facts_of(cs.conds, cs.env)
        variants = [(facts, fn_)]
        if isinstance(fn_, ast.Call) and is_self_attr(fn_.func) and fn_.func.attr in meths and \
                fn_.func.attr != '_get_replacement_latex_fn':
            # the choice of the protecting function was moved into a helper method: its returning
            # paths (parameters replaced by the arguments) take the place of this path
            h_ = meths[fn_.func.attr]
            ren_ = dict(zip([a_.arg for a_ in h_.args.args][1:], fn_.args))
            try:
                hr_ = [c for c in symex.Walker(want_returns=True).run(h_) if c.kind == 'return']
            except symex.TooManyPaths:
                hr_ = []
            variants = []
            for rc in hr_:
                f2 = symex.facts_of([(symex.subst(symex.expand(t_, rc.env), ren_), p_) for t_, p_ in rc.conds])
                v2 = symex.subst(symex.resolve(rc.sub, rc.env), ren_)
                variants.append((facts | f2, v2))
        for facts, fn_ in variants:
            is_none = [p_ for t_, p_ in facts if t_ == rattr + ' is None']
            if fn_ is None or not is_none:
                why = 'the replacement appended is %s' % (short(app) if app is not None else 'missing')
                break
            if is_none[0]:
                n_enc += 1
                if unparse(fn_) != 'self._apply_protection':
                    why = 'without a rule-level scheme the text is protected by %s' % short(fn_)
            else:
                n_rule += 1
                if not (isinstance(fn_, ast.Call) and call_name(fn_) == '_get_replacement_latex_fn'
                        and fn_.args and unparse(fn_.args[0]) == rattr):
                    why = 'with a rule-level scheme the text is protected by %s' % short(fn_)
        if why is not None:
            break
    if why is None and not (n_rule and n_enc):
        why = 'the two cases (rule-level scheme set / not set) are not distinguished'
    ctx.decide('R04c', why is None, m, ar, 'rule-level scheme replaces the encoder-wide one when set',
               '_apply_replacement does not let a rule\'s own replacement_latex_protection override '
               'the encoder-wide scheme: %s' % why, construct='_apply_replacement: protection precedence')

    # ------------------------------------------------------------ R04d
    for pname in POLICIES:
        mn = '_do_unknown_char_' + pname.replace('-', '_')
        ctx.decide('R04d', mn in meths, m, meths.get(mn) or m.cls('UnicodeToLatexEncoder'),
                   'policy %r -> %s' % (pname, mn), 'documented policy %r has no method %s' % (pname, mn),
                   construct='policy ' + pname)
    for pname in PROTECTIONS:
        mn = '_apply_protection_' + pname.replace('-', '_')
        ctx.decide('R04d', mn in meths, m, meths.get(mn) or m.cls('UnicodeToLatexEncoder'),
                   'protection %r -> %s' % (pname, mn),
                   'documented protection scheme %r has no method %s' % (pname, mn),
                   construct='protection ' + pname)
    gm = meths.get('_get_method_fn')
    ok = gm is not None and "'_' + base + '_' + name.replace('-', '_')" in unparse(gm)
    ctx.decide('R04d', ok, m, gm or init, "names resolved as '_' + base + '_' + name.replace('-','_')",
               '_get_method_fn no longer maps option names to method names as documented',
               construct='_get_method_fn', trivial=True)

    # ------------------------------------------------------------ R04e
    raises = []
    for cname in ('UnicodeToLatexEncoder',):
        allm = m.methods(cname)
        # construction-time helpers: private methods whose every mention in the class is a call made
        # from __init__ or from another such helper (never stored as a callback, never called while
        # encoding); their raises report a bad constructor argument, not an input character
        mentions = {}
        for n, f in allm.items():
            for x in ast.walk(f):
                if isinstance(x, ast.Attribute) and isinstance(x.value, ast.Name) and x.value.id == 'self' \
                        and x.attr in allm and isinstance(x.ctx, ast.Load):
                    par = getattr(x, '_parent', None)
                    called = isinstance(par, ast.Call) and par.func is x
                    mentions.setdefault(x.attr, []).append((n, called))
        ctor_only = {'__init__', '_get_method_fn'}
        changed = True
        while changed:
            changed = False
            for n in allm:
                if n in ctor_only or not n.startswith('_') or n.startswith('__') or not mentions.get(n):
                    continue
                if all(called and src in ctor_only for src, called in mentions[n]):
                    ctor_only.add(n)
                    changed = True
        ctx.analysed['constructor_only_methods'] = sorted(ctor_only)
        for n, f in allm.items():
            if n in ctor_only:
                continue
            for r in iter_own(f):
                if isinstance(r, ast.Raise):
                    raises.append((n, r))
    for n, r in raises:
        cls = unparse(r.exc.func) if isinstance(r.exc, ast.Call) else unparse(r.exc)
        ok = n == '_do_unknown_char_fail' and cls == 'ValueError'
        ctx.decide('R04e', ok, m, r, 'the fail policy raises ValueError',
                   '%s raises %s during encoding: only the ValueError of the fail policy may escape '
                   'unicode_to_latex()' % (n, cls), construct='%s: %s' % (n, short(r, 60)))
    ff = meths.get('_do_unknown_char_fail')
    ok = ff is not None and any(isinstance(s, ast.Raise) for s in ff.body)
    ctx.decide('R04e', ok, m, ff or init, 'fail policy raises unconditionally',
               '_do_unknown_char_fail does not raise unconditionally', construct='fail policy raises')
    pm = repo.mod(PART)
    pf = pm.methods('PartialLatexToLatexEncoder').get('_do_partial_latex_encode_step')
    if pf is None:
        raise AnalysisError('anchor vanished: _do_partial_latex_encode_step')
    for c in [c for c in iter_own(pf) if isinstance(c, ast.Call) and call_name(c) in (
            'peek_token', 'next_token', 'parse_content')]:
        caught = False
        for p in parents(c):
            if isinstance(p, ast.Try) and any(c in list(ast.walk(b)) for b in p.body):
                for h in p.handlers:
                    t = unparse(h.type) if h.type is not None else 'BaseException'
                    if any(x in t for x in ('LatexWalkerTokenParseError', 'LatexWalkerParseError',
                                            'LatexWalkerError', 'Exception')):
                        caught = True
        strict = any(isinstance(x, ast.keyword) and x.arg == 'tolerant_parsing'
                     and isinstance(x.value, ast.Constant) and x.value.value is False
                     for x in ast.walk(pf))
        ctx.decide('R04e', caught or not strict, pm, c,
                   'token errors of the strict walker are caught',
                   '%s on a strict walker is not inside a try that catches '
                   'LatexWalkerTokenParseError: a malformed token in the input makes '
                   'unicode_to_latex() raise a parse error' % short(c, 50),
                   construct='partial encoder: ' + short(c, 60))

    # ------------------------------------------------------------ R04f
    nfc_whole_input(ctx, 'R04f', m, u2l)

    # ------------------------------------------------------------ R04g
    c09._module_state(ctx, repo, 'R04g', lambda name: name.startswith('pylatexenc.latexencode'))

    # ------------------------------------------------------------ R04h
    rmp = m.functions.get('regex_match_pos')
    if rmp is None:
        ctx.unknown('R04h', m, m.cls('UnicodeToLatexEncoder'), 'regex_match_pos not found')
    else:
        ps = [a.arg for a in rmp.args.args]
        rets = [r for r in iter_own(rmp) if isinstance(r, ast.Return)]
        ok = len(rets) == 1 and isinstance(rets[0].value, ast.Call) and \
            call_name(rets[0].value) == 'match' and len(ps) == 3 and \
            unparse(call_recv(rets[0].value)) == ps[0] and \
            [unparse(a) for a in rets[0].value.args] + [unparse(k.value) for k in rets[0].value.keywords] \
            == [ps[1], ps[2]]
        ctx.decide('R04h', ok, m, rmp, 'rx.match(s, pos)',
                   'regex_match_pos returns %s: the pattern no longer sees the characters before '
                   'the position (look-behind, \\b and ^ match differently)'
                   % (short(rets[0].value) if rets else '?'), construct='regex_match_pos')


def _block_of(st):
    p = getattr(st, '_parent', None)
    for fld in ('body', 'orelse', 'finalbody'):
        lst = getattr(p, fld, None)
        if isinstance(lst, list) and any(s is st for s in lst):
            return lst
    return [st]


def _append_paths(stmts, attr):
    """Every path through the if/elif chain appends exactly once to self.<attr> or raises."""
    def count(block):
        res = [0]
        for s in block:
            if isinstance(s, ast.If):
                a = count(s.body)
                b = count(s.orelse) if s.orelse else [0]
                res = [(r + x) if (r is not None and x is not None) else None
                       for r in res for x in a + b]
            elif isinstance(s, ast.Raise):
                res = [None for r in res]
                break
            else:
                n = sum(1 for c in ast.walk(s) if isinstance(c, ast.Call) and call_name(c) == 'append'
                        and call_recv(c) is not None and is_self_attr(call_recv(c), attr))
                res = [(r + n) if r is not None else None for r in res]
        return res
    try:
        res = count(stmts)
    except TypeError:
        return False
    return all(r is None or r == 1 for r in res)


def nfc_whole_input(ctx, rule, m, u2l):
    """the string the main loop runs over is unicodedata.normalize('NFC', <the whole input>): the
    value of the loop's string variable at the loop header, with locals substituted"""
    wh_ = [w_ for w_ in iter_own(u2l) if isinstance(w_, ast.While)]
    main_ = [w_ for w_ in wh_ if any(isinstance(x, ast.For) and is_self_attr(x.iter, '_compiled_rules')
                                     for x in ast.walk(w_))]
    wh_ = main_ or wh_[-1:]
    if len(wh_) != 1 or not isinstance(wh_[0].test, ast.Compare):
        ctx.unknown(rule, m, u2l, 'main loop not found', construct='NFC normalisation')
        return
    lens = [c_ for c_ in ast.walk(wh_[0].test) if isinstance(c_, ast.Call) and call_name(c_) == 'len' and c_.args
            and isinstance(c_.args[0], ast.Name)]
    if not lens:
        # the bound is held in a local: its value at the loop header, locals substituted, must be
        # the length of the normalised string
        tst = wh_[0].test
        try:
            hc = symex.Walker(is_sink=lambda n: n is tst, sink_types=(ast.Compare,),
                              pure=('normalize', 'unicode_str', 'str', 'unicode')).run(u2l)
        except symex.TooManyPaths as e:
            hc = []
        bounds = [c_ for cs in hc for c_ in ast.walk(cs.sub) if isinstance(c_, ast.Call) and call_name(c_) == 'len'
                  and c_.args]
        if not bounds:
            ctx.unknown(rule, m, wh_[0], 'the loop does not compare with len(<string>)', construct='NFC normalisation')
            return
        badb = [b for b in bounds if not (isinstance(b.args[0], ast.Call) and call_name(b.args[0]) == 'normalize'
                                          and len(b.args[0].args) == 2 and isinstance(b.args[0].args[0], ast.Constant)
                                          and b.args[0].args[0].value == 'NFC')]
        ctx.decide(rule, not badb, m, wh_[0], 'the loop bound is the length of the normalised string',
                   'the main loop is bounded by %s, the length of the string BEFORE unicodedata.normalize(\'NFC\', ..): '
                   'when normalisation changes the length (decomposed accents) the loop reads past the end of the '
                   'normalised string (IndexError) or stops before its end' % (short(badb[0], 80) if badb else ''),
                   construct='NFC normalisation: loop bound')
        return
    svar = lens[0].args[0]
    param = u2l.args.args[1].arg
    try:
        cases = symex.Walker(is_sink=lambda n: n is svar, sink_types=(ast.Name,),
                             pure=('normalize', 'unicode_str', 'str', 'unicode')).run(u2l)
    except symex.TooManyPaths as e:
        ctx.unknown(rule, m, u2l, str(e), construct='NFC normalisation')
        return
    why = None if cases else 'the loop string is never reached'
    for cs in cases:
        v = cs.sub
        if not (isinstance(v, ast.Call) and call_name(v) == 'normalize' and len(v.args) == 2
                and isinstance(v.args[0], ast.Constant) and v.args[0].value == 'NFC'):
            why = 'the loop runs over %s, which is not unicodedata.normalize(\'NFC\', <input>)' % short(v, 80)
            break
        inner = v.args[1]
        partial = [x for x in ast.walk(inner) if isinstance(x, ast.Subscript)]
        if partial or not any(isinstance(x, ast.Name) and x.id == param for x in ast.walk(inner)):
            why = 'only %s is normalised, not the whole input' % short(inner, 60)
            break
    ctx.decide(rule, why is None, m, wh_[0], "the loop runs over unicodedata.normalize('NFC', <whole input>)",
               'NFC normalisation: %s: a base letter and a combining mark that are split by the cut (ASCII '
               'letter + combining accent) are not composed, so rules for the precomposed character do not '
               'apply and the round trip does not return the NFC string' % why, construct='NFC normalisation')


def ord_pred_table(t, probes):
    """truth values of test t (ord(X) comparisons and `X in '<chars>'`, and/or/not, chained
    comparisons) on the probe code points, or None if t is not such a test.  A tiny evaluator over
    comparison syntax -- the repository's code is not executed."""
    UNK = object()

    def val(e, o):
        if isinstance(e, ast.Constant) and isinstance(e.value, int) and not isinstance(e.value, bool):
            return e.value
        if isinstance(e, ast.Call) and isinstance(e.func, ast.Name) and e.func.id == 'ord' and len(e.args) == 1:
            return o
        return UNK

    def ev(e, o):
        if isinstance(e, ast.BoolOp):
            vs = [ev(v, o) for v in e.values]
            if any(v is UNK for v in vs):
                return UNK
            return all(vs) if isinstance(e.op, ast.And) else any(vs)
        if isinstance(e, ast.UnaryOp) and isinstance(e.op, ast.Not):
            v = ev(e.operand, o)
            return UNK if v is UNK else (not v)
        if isinstance(e, ast.Compare):
            left = e.left
            res = True
            for op, right in zip(e.ops, e.comparators):
                if isinstance(op, (ast.In, ast.NotIn)):
                    if isinstance(right, ast.Constant) and isinstance(right.value, str) and \
                            isinstance(left, (ast.Subscript, ast.Name)):
                        r = chr(o) in right.value
                        r = r if isinstance(op, ast.In) else not r
                    else:
                        return UNK
                else:
                    a, b = val(left, o), val(right, o)
                    if a is UNK or b is UNK:
                        return UNK
                    import operator
                    fn = {ast.Lt: operator.lt, ast.LtE: operator.le, ast.Gt: operator.gt,
                          ast.GtE: operator.ge, ast.Eq: operator.eq, ast.NotEq: operator.ne}.get(type(op))
                    if fn is None:
                        return UNK
                    r = fn(a, b)
                res = res and r
                left = right
            return res
        return UNK
    got = [ev(t, o) for o in probes]
    if any(g is UNK for g in got):
        return None
    return got


def _passthrough_table(t):
    """True if test t accepts exactly the code points 32..127 and \\n \\r \\t among the probe
    points; False if it accepts another set; None if t is not such a test."""
    probes = [0, 8, 9, 10, 11, 12, 13, 14, 31, 32, 33, 65, 126, 127, 128, 160, 255, 0x2028]
    got = ord_pred_table(t, probes)
    if got is None:
        return None
    want = [(32 <= o <= 127) or o in (9, 10, 13) for o in probes]
    return got == want


def skip_ascii_summary(f):
    """(reason or None, description).  For the non_ascii_only helper: on every structural path
    that returns a true value the position advanced by exactly 1, the character at the old
    position was appended, and the path's conditions exclude every code point >= 128; paths
    returning a false value change nothing."""
    pname = f.args.args[-1].arg
    PP, PL = pname + '.pos', pname + '.latex'
    probes = [0, 65, 126, 127, 128, 129, 200, 255, 0x100, 0x2028]
    try:
        rcs = [c for c in symex.Walker(want_returns=True, track_attrs=(PP, PL)).run(f) if c.kind == 'return']
    except symex.TooManyPaths as e:
        return str(e), ''
    n_true = 0
    for cs in rcs:
        pv, lv = cs.env.get(PP), cs.env.get(PL)
        truthy = not (isinstance(cs.sub, ast.Constant) and not cs.sub.value)
        if not truthy:
            if pv is not None or lv is not None:
                return 'a path that reports "not skipped" changes the position or the output', ''
            continue
        n_true += 1
        try:
            d = affine.diff(pv, ast.parse(PP, mode='eval').body, {}) if pv is not None else (0, {})
        except affine.NotAffine:
            d = None
        if d != (1, {}):
            return 'a skipping path moves the position by %s, not by 1' % (affine.show(d) if d else '?'), ''
        if not (isinstance(lv, ast.BinOp) and isinstance(lv.op, ast.Add) and unparse(lv.left) == PL and
                isinstance(lv.right, ast.Subscript) and unparse(lv.right.slice) == PP):
            return 'a skipping path appends %s, not the character at the position' % (
                short(lv.right) if isinstance(lv, ast.BinOp) else 'nothing'), ''
        accept = [True] * len(probes)
        known = False
        for t_, pol in cs.conds:
            tb = ord_pred_table(t_, probes)
            if tb is None:
                continue
            known = True
            accept = [a and (b == pol) for a, b in zip(accept, tb)]
        if not known:
            return 'the skipping path is not guarded by a recognisable code-point test', ''
        leak = [o for o, a in zip(probes, accept) if a and o >= 128]
        if leak:
            return ('the skip test lets code points %s through: non-ASCII characters are copied raw'
                    % ['U+%04X' % o for o in leak]), ''
    if not n_true:
        return 'no path skips a character', ''
    return None, 'skips exactly one character below 128 per true result (%d path(s))' % len(rcs)


def _advance_summary(f):
    """{'True': [advance amounts on paths returning True], 'False': [...]} for a helper
    with straight-line `if cond: ...; return True` / `return False` shape."""
    out = {'True': [], 'False': []}
    for r in iter_own(f):
        if isinstance(r, ast.Return) and isinstance(r.value, ast.Constant):
            blk = _block_of(r)
            adv = [unparse(s.value) for s in blk[:blk.index(r)]
                   if isinstance(s, ast.AugAssign) and unparse(s.target).endswith('.pos')]
            out[str(r.value.value)] = adv
    return out
