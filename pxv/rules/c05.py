# -*- coding: utf-8 -*-
"""C05  Strict mode rejects unbalanced markup and fails only with a located parse error."""
import ast
from ..core import (AnalysisError, short, unparse, iter_own, call_name, call_recv, kwarg,
                    is_self_attr, atomic_facts, parents, enclosing_stmt, enclosing_func)
from . import totality, c02, c20
from .. import symex

WALKER = 'pylatexenc.latexwalker._walker'
COLL = 'pylatexenc.latexnodes._nodescollector'
GEN = 'pylatexenc.latexnodes.parsers._generalnodes'
PARSE_ERRORS = ('LatexWalkerParseError', 'LatexWalkerNodesParseError', 'LatexWalkerTokenParseError')


# reviewed exceptions: (function, position expression) -> why it cannot be None
G8_REVIEWED = {
    ('LatexDelimitedExpressionParser.parse', 'pos'):
        'parse_initial() always raises LatexDelimitedExpressionParserOpeningDelimiterNotFound with '
        'first_tokens=[first_token], so recovery_token is never None on this path',
}


def run(ctx):
    repo = ctx.repo
    prog = totality.program(repo)
    entry = prog.find(WALKER, 'LatexWalker.parse_content')
    ctx.rule('R05a', 'escape set (strict configuration): every exception class that can leave '
                     'LatexWalker.parse_content - over all parser classes of the package - is '
                     'LatexWalkerParseError or a subclass; other explicit raise sites must be '
                     'abstract stubs or listed in the reviewed table (configuration errors, '
                     'protocol guards)', 30)
    totality.declare_g(ctx)
    ctx.rule('G8', 'every parse error constructed in code reachable from parse_content is given a '
                   'position that cannot be None', 25)
    ctx.rule('R05d', 'line and column are filled in from the error\'s own position on the way out '
                     '(shared with C20 R20a)', 2)
    ctx.rule('R05f', 'the lookup tables cached on a parsing state are reused from the parent only when '
                     'no field they depend on changed, and both arms assign the same tables (C17 P2/P4): a '
                     'stale table makes tokenizing fail with TypeError/KeyError instead of a parse error', 4)
    ctx.rule('R05g', 'no branch that rejects input (builds a parse error) is guarded by a parsing-state switch '
                     'that is constant on that state: a state derived with sub_context(flag=<literal>) has '
                     'that flag fixed, also in the helper methods it is handed to', 1)
    ctx.rule('R05e', 'unbalanced input is rejected: each closing token kind reaching the dispatcher '
                     'raises a parse error before any node is produced; delimited constructs require '
                     'their closing predicate (kind and closer) and an unmet required stop condition '
                     'raises', 8)

    totality.escape_obligations(ctx, 'R05a', repo, entry, False, ('LatexWalkerParseError',),
                                'LatexWalkerParseError and subclasses')
    reach = totality.g_obligations(ctx, 'G', repo, [entry])

    # ------------------------------------------------------------ G8
    n = 0
    for key in sorted(reach):
        f = prog.fns[key]
        for c in [c for c in iter_own(f.node) if isinstance(c, ast.Call) and call_name(c) in PARSE_ERRORS]:
            n += 1
            pos = kwarg(c, 'pos')
            cons = '%s: %s(pos=%s)' % (f.qual, call_name(c), short(pos, 40) if pos is not None else '<missing>')
            if pos is None:
                # positional: (msg, s, pos) for LatexWalkerParseError
                if call_name(c) == 'LatexWalkerParseError' and len(c.args) >= 3:
                    pos = c.args[2]
                else:
                    ctx.refuted('G8', f.mod, c, 'parse error constructed without a position',
                                construct=cons)
                    continue
            why = _may_be_none(prog, f, c, pos)
            if why and (f.qual, unparse(pos)) in G8_REVIEWED:
                ctx.holds('G8', f.mod, c, 'reviewed: ' + G8_REVIEWED[(f.qual, unparse(pos))], construct=cons)
                continue
            ctx.decide('G8', why is None, f.mod, c, 'position %s cannot be None' % short(pos, 40),
                       'the error position %s may be None (%s): the error is reported without '
                       'position, line and column' % (short(pos, 40), why), construct=cons)
    ctx.analysed['parse_error_constructions'] = n

    # ------------------------------------------------------------ R05d
    sub = _Sub(ctx, 'R05d')
    w = repo.mod(WALKER)
    _r20a_only(sub, repo, w)

    # ------------------------------------------------------------ R05f
    # a parsing state whose cached delimiter tables are stale makes the token reader fail with
    # TypeError/KeyError (not a parse error) on nested math: C17's cache rules are necessary here
    from . import c17
    c17.run(_filtered(_Sub(ctx, 'R05f'), ('P2', 'P4')))

    # ------------------------------------------------------------ R05g
    _dead_rejections(ctx, repo)

    # ------------------------------------------------------------ R05e
    stray_closers(ctx, 'R05e', repo)
    c02.closing_predicates(_Sub(ctx, 'R05e'), repo, 'R05e')
    gm = repo.mod(GEN)
    gp = gm.methods('LatexGeneralNodesParser').get('parse')
    if gp is None:
        raise AnalysisError('anchor vanished: LatexGeneralNodesParser.parse')
    raises = [r for r in iter_own(gp) if isinstance(r, ast.Raise) and any(
        (not pol) and unparse(t) == 'met_a_required_stop_condition' for t, pol in atomic_facts(r))]
    ok = bool(raises)
    ctx.decide('R05e', ok, gm, raises[0] if raises else gp,
               'unmet required stop condition raises',
               'reaching the end of the stream without the required stop condition no longer raises',
               construct='LatexGeneralNodesParser.parse: required stop condition')
    # met only if the configured condition fired: the value of the flag where it is tested, per
    # structural path with substituted values (E7)
    pass
    FLAG = 'met_a_required_stop_condition'
    try:
        uses = symex.Walker(is_sink=lambda n: n.id == FLAG and isinstance(n.ctx, ast.Load) and any(
            isinstance(p_, ast.If) and any(n is x for x in ast.walk(p_.test)) for p_ in parents(n)),
            sink_types=(ast.Name,)).run(gp)
    except symex.TooManyPaths as e:
        uses = None
        ctx.unknown('R05e', gm, gp, str(e), construct='LatexGeneralNodesParser.parse: ' + FLAG)
    if uses is not None:
        why = None
        n_ok = 0
        # the flag may be computed by a helper method: its returning paths stand for the paths of parse()
        uses = [c2 for cs in uses for c2 in symex.expand_helper_value(cs, gm.methods('LatexGeneralNodesParser'))]
        for cs in uses:
            defs = cs.env.get('#def', {})
            tokm = [k for k, d in defs.items() if isinstance(d, ast.Call) and call_name(d) == 'stop_token_condition_met']
            nlm = [k for k, d in defs.items() if isinstance(d, ast.Call) and call_name(d) == 'stop_nodelist_condition_met']
            facts = dict(symex.facts_of(cs.conds))
            req = facts.get('self.require_stop_condition_met')
            tok_none = facts.get('self.stop_token_condition is None')
            nl_none = facts.get('self.stop_nodelist_condition is None')
            tok_met = facts.get(tokm[0]) if tokm else None
            nl_met = facts.get(nlm[0]) if nlm else None
            v = cs.sub
            if isinstance(v, ast.Call) and call_name(v) == 'bool' and len(v.args) == 1:
                v = v.args[0]
            # what the flag must be on this path (None = not determined by the path facts)
            if req is False:
                want = True
            elif tok_none is False:
                want = ('sym', tokm[0]) if tok_met is None and tokm else tok_met
            elif tok_none is True and nl_none is False:
                want = ('sym', nlm[0]) if nl_met is None and nlm else nl_met
            elif tok_none is True and nl_none is True:
                want = True
            else:
                want = None
            if isinstance(v, ast.Constant):
                got = bool(v.value)
            elif isinstance(v, ast.Name):
                got = ('sym', v.id)
            else:
                got = None
            if want is None or got is None:
                why = why or ('not decidable on the path [%s]: flag is %s' % (' & '.join(cs.cond_src())[-120:], short(cs.sub)))
                continue
            if got != want:
                ctx.refuted('R05e', gm, cs.node, 'on the path [%s] the required stop condition counts as %s, but the '
                            'configured condition says %s: input that ends without its closing token is '
                            'accepted (or well-formed input rejected)' % (
                                ' & '.join(cs.cond_src())[-140:], short(cs.sub), want),
                            construct='%s on [%s]' % (FLAG, ' & '.join(cs.cond_src())[-60:]))
                why = 'refuted'
            else:
                n_ok += 1
        if why is None:
            ctx.holds('R05e', gm, gp, 'stop condition counts as met only when the configured condition fired '
                                      '(%d structural paths)' % n_ok,
                      construct='LatexGeneralNodesParser.parse: ' + FLAG)
        elif why != 'refuted':
            ctx.unknown('R05e', gm, gp, why, construct='LatexGeneralNodesParser.parse: ' + FLAG)
    ctx.assume('that every faulty document reaches one of the rejecting raises is not decided; '
               'implicit exceptions are covered only through the crash-construct rules G1-G9')
    ctx.assume('call resolution: class-hierarchy analysis for self/super, name-keyed fallback for other '
               'receivers (over-approximation inside the package)')
    # ---- R05h: who may switch off the recognition of delimiters
    ctx.rule('R05h', 'recognition of math delimiters, groups, macros or comments is switched off '
                     '(sub_context(enable_<x>=False)) only by the parsers that read raw characters (verbatim '
                     'text, character-list arguments): a state used to read ordinary content sees every '
                     'delimiter, so an unmatched one is reported', 3)
    RAW_READERS = {'LatexVerbatimBaseParser': 'verbatim text is outside the quantifier',
                   'LatexCharsGroupParser': 'argument read as raw characters',
                   'LatexCharsCommaSeparatedListParser': 'argument read as raw characters'}
    SW = ('enable_math', 'enable_groups', 'enable_macros', 'enable_comments')
    for mod_ in sorted(repo.modules.values(), key=lambda m_: m_.name):
        if not (mod_.name.startswith('pylatexenc.latexnodes') or mod_.name.startswith('pylatexenc.macrospec')
                or mod_.name.startswith('pylatexenc.latexwalker._walker')):
            continue
        for q_, f_ in sorted(mod_.functions.items()):
            for c_ in iter_own(f_):
                if not (isinstance(c_, ast.Call) and call_name(c_) in ('sub_context', 'ParsingState')):
                    continue
                off = [k.arg for k in c_.keywords if k.arg in SW and isinstance(k.value, ast.Constant)
                       and not k.value.value]
                if not off:
                    continue
                owner = q_.split('.')[0]
                ctx.decide('R05h', owner in RAW_READERS, mod_, c_,
                           '%s reads raw characters (%s)' % (owner, RAW_READERS.get(owner)),
                           '%s switches off %s in the state it reads ordinary content with: an unmatched %s at that '
                           'place is no longer a delimiter token, it is swallowed as a plain character or macro and '
                           'the unbalanced document is accepted in strict mode'
                           % (q_, ', '.join(off), 'math delimiter' if 'enable_math' in off else 'delimiter'),
                           construct='%s: %s' % (q_, ', '.join(off)))

    # ---- R05i: token fields are always there
    ctx.rule('R05i', 'LatexToken.__init__ assigns every field it takes as a parameter (tok, arg, pos, pos_end, '
                     'pre_space, post_space) on every path: error paths read fields of tokens of any kind', 6)
    tkm = repo.mod('pylatexenc.latexnodes._token')
    tki = tkm.methods('LatexToken').get('__init__')
    if tki is None:
        raise AnalysisError('anchor vanished: LatexToken.__init__')
    tparams = [a.arg for a in tki.args.args[1:]]
    try:
        tcases = [c for c in symex.Walker(want_exits=True, track_attrs=tuple('self.' + p for p in tparams)).run_block(tki.body)
                  if c.kind in ('end', 'return')]
    except symex.TooManyPaths:
        tcases = []
    for p_ in tparams:
        missing = [c for c in tcases if ('self.' + p_) not in c.env]
        ctx.decide('R05i', bool(tcases) and not missing, tkm, tki,
                   'self.%s is assigned on every path of LatexToken.__init__' % p_,
                   'LatexToken.__init__ leaves self.%s unassigned on the path [%s]: code that reads the field of such a '
                   'token (the error path for a math delimiter where an argument is expected reads tok.post_space) raises '
                   'AttributeError instead of a parse error'
                   % (p_, ' & '.join(missing[0].cond_src())[:120] if missing else ''),
                   construct='LatexToken.__init__: field ' + p_)

    # ---- R05j: tokens are read where the end of the input is handled
    ctx.rule('R05j', 'outside the token reader classes a token is read (peek_token / next_token) only inside a handler '
                     'for the end of the input: LatexWalkerEndOfStream leaving a parser is taken by parse_content() for '
                     'the normal end of the content, so a construct that is still open is accepted', 4)
    EOS_REVIEWED = {'LatexDelimitedExpressionParserInfo.parse_initial':
                    'end of input while looking for an opening delimiter: the caller chain reports the missing argument'}
    for mod_ in sorted(repo.modules.values(), key=lambda m_: m_.name):
        if not (mod_.name.startswith('pylatexenc.latexnodes') or mod_.name.startswith('pylatexenc.macrospec')):
            continue
        for q_, f_ in sorted(mod_.functions.items()):
            if 'TokenReader' in q_.split('.')[0]:
                continue
            for c_ in iter_own(f_):
                if not (isinstance(c_, ast.Call) and call_name(c_) in ('peek_token', 'next_token')
                        and call_recv(c_) is not None and 'reader' in unparse(call_recv(c_))):
                    continue
                prot = False
                for p_ in parents(c_):
                    if isinstance(p_, ast.Try) and any(c_ is x for b in p_.body for x in ast.walk(b)) and any(
                            h.type is None or any(nm in unparse(h.type) for nm in (
                                'LatexWalkerEndOfStream', 'LatexWalkerError', 'Exception')) for h in p_.handlers):
                        prot = True
                if q_ in EOS_REVIEWED and not prot:
                    ctx.holds('R05j', mod_, c_, 'reviewed: ' + EOS_REVIEWED[q_], construct='%s: %s' % (q_, short(c_, 50)))
                    continue
                ctx.decide('R05j', prot, mod_, c_, '%s reads a token inside a handler for the end of the input' % q_,
                           '%s reads a token (%s) outside any handler for LatexWalkerEndOfStream: when the input ends '
                           'there the exception leaves the parser and parse_content() treats it as the regular end of '
                           'the content -- the construct that was being parsed (an environment whose \\end is missing) '
                           'is dropped without an error in strict mode' % (q_, short(c_, 50)),
                           construct='%s: %s' % (q_, short(c_, 50)))

    # ---- R05k
    ctx.rule('R05k', 'the error classes never index the source string at the error position without an in-range fact '
                     '(errors at the end of the input are at len(s))', 0)
    error_text_indexing(ctx, 'R05k', repo)

    # ---- R05l: the argument of a specials token is a specification object, not text
    ctx.rule('R05l', 'where a parser concatenates the text of tokens (`... += tok.arg`), the token is not a specials token '
                     'on that path (its .arg is a specification object; the text is .arg.specials_chars): no TypeError '
                     'instead of a parse error', 1)
    n_ta = 0
    for mod_ in sorted(repo.modules.values(), key=lambda m_: m_.name):
        if not mod_.name.startswith('pylatexenc.latexnodes.parsers'):
            continue
        for q_, f_ in sorted(mod_.functions.items()):
            def _is_text_use(n_):
                if not (isinstance(n_, ast.Attribute) and n_.attr == 'arg' and isinstance(n_.value, ast.Name)
                        and isinstance(n_.ctx, ast.Load)):
                    return False
                par_ = getattr(n_, '_parent', None)
                return (isinstance(par_, ast.AugAssign) and isinstance(par_.op, ast.Add) and par_.value is n_) or \
                    (isinstance(par_, ast.BinOp) and isinstance(par_.op, ast.Add))
            if not any(_is_text_use(x_) for x_ in iter_own(f_)):
                continue
            toks_ = {x_.value.id for x_ in iter_own(f_) if _is_text_use(x_)}
            try:
                tcs = symex.Walker(is_sink=_is_text_use, sink_types=(ast.Attribute,),
                                   track_attrs=tuple(t_ + '.arg' for t_ in toks_) + tuple(t_ + '.tok' for t_ in toks_)).run(f_)
            except symex.TooManyPaths:
                ctx.unknown('R05l', mod_, f_, 'too many paths', construct=q_ + ': token text')
                continue
            n_ta += 1
            bad_ = None
            for cs in tcs:
                v_ = cs.sub
                tk_ = cs.node.value.id
                if isinstance(v_, ast.Attribute) and v_.attr == 'arg' and isinstance(v_.value, ast.Name):
                    facts_ = symex.facts_of(cs.conds)
                    if (("%s.tok == 'specials'" % tk_, True) in facts_ or
                            ("%s.tok == 'specials'" % v_.value.id, True) in facts_) and bad_ is None:
                        bad_ = cs
            ctx.decide('R05l', bad_ is None, mod_, bad_.node if bad_ else f_,
                       '%s: token text is concatenated only for non-specials tokens or through .specials_chars' % q_,
                       '%s concatenates %s.arg as text on the path [%s], where the token is a specials token: its .arg is '
                       'the specification object, so the concatenation raises TypeError (a paragraph break or `~` after a '
                       'macro with an optional star) instead of the input being parsed or rejected with a parse error'
                       % (q_, bad_.node.value.id if bad_ else '', ' & '.join(bad_.cond_src())[-140:] if bad_ else ''),
                       construct=q_ + ': token text')
    if n_ta == 0:
        ctx.unknown('R05l', repo.mod('pylatexenc.latexnodes.parsers._optionals'), None, 'no token-text concatenation found',
                    construct='token text')
    # ---- R05m (C01 R01m): verbatim reading puts the stopping character back when the stop condition says so
    ctx.rule('R05m', 'verbatim reading: the character that ends a verbatim environment body is put back exactly when the '
                     'stop condition asks for it, so the construct that follows (an unbalanced brace, say) is still seen '
                     '(C01 R01m)', 1)
    from . import c01 as _c01
    from .. import core as _core
    _core.run_proxied(ctx, _c01, 'R05m', ('R01m',))

    # ---- R05n: a nested group with the argument's own opening delimiter is read in the contents state
    ctx.rule('R05n', 'LatexDelimitedGroupParserInfo.make_child_parsing_state returns the contents state for a child group opened '
                     'by the same delimiter under exactly that test (kind brace_open, same opening delimiter): no further '
                     'condition sends `[a[b]c]` to the outer state, where `[` is not a delimiter', 1)
    dlm_ = repo.mod('pylatexenc.latexnodes.parsers._delimited')
    mk_ = dlm_.methods('LatexDelimitedGroupParserInfo').get('make_child_parsing_state')
    if mk_ is None:
        raise AnalysisError('anchor vanished: LatexDelimitedGroupParserInfo.make_child_parsing_state')
    try:
        mrc_ = [c for c in symex.Walker(want_returns=True).run(mk_) if c.kind == 'return']
    except symex.TooManyPaths:
        mrc_ = []
    tk_ = mk_.args.args[3].arg if len(mk_.args.args) > 3 else 'token'
    want_ = {("%s.tok == 'brace_open'" % tk_, True), ('%s.arg == self.parsed_delimiters[0]' % tk_, True)}
    keep_ = [c for c in mrc_ if unparse(c.sub) == 'self.contents_parsing_state']
    extra_ = None
    pm_ = dict(dlm_.methods('LatexDelimitedExpressionParserInfo'))
    pm_.update(dlm_.methods('LatexDelimitedGroupParserInfo'))
    for c in keep_:
        f_ = symex.facts_of(c.conds, c.env, methods=pm_)       # named predicates (single-return methods) are inlined
        if f_ - want_ and extra_ is None:
            extra_ = sorted(f_ - want_)
        if not want_ <= f_ and extra_ is None:
            extra_ = ['missing: %s' % sorted(want_ - f_)]
    ctx.decide('R05n', bool(keep_) and extra_ is None, dlm_, keep_[0].node if keep_ else mk_,
               'contents state kept exactly for a child group with the same opening delimiter',
               'make_child_parsing_state keeps the contents state only under the additional condition(s) %s: a bracket '
               'nested in an optional argument is then read in the outer state, the delimited-group parser is handed a '
               'token that is not a delimiter there and fails with ValueError instead of a parse error' % extra_,
               construct='make_child_parsing_state: same-delimiter child')
    # ---- R05o: verbatim text ends at the first terminator
    ctx.rule('R05o', 'no regular expression used to find the end of verbatim text has a greedy `.*` / `.+` in front of the '
                     'terminator (the FIRST terminator ends the text; a greedy scan runs to the last one and swallows '
                     'everything between two listings)', 0)
    import re as _re
    n_vr = 0
    for modn_ in ('pylatexenc.macrospec._pyltxenc2_argparsers._verbatimargsparser', 'pylatexenc.latexnodes.parsers._verbatim'):
        vm_ = repo.mod(modn_)
        for c_ in ast.walk(vm_.tree):
            if isinstance(c_, ast.Call) and call_name(c_) in ('compile', 'match', 'search', 'finditer', 'findall') and c_.args \
                    and (isinstance(c_.func, ast.Attribute) and unparse(c_.func.value) == 're'):
                parts_ = [x_.value for x_ in ast.walk(c_.args[0]) if isinstance(x_, ast.Constant) and isinstance(x_.value, str)]
                n_vr += 1
                greedy = [p_ for p_ in parts_ if _re.search(r'\.[*+](?!\?)', p_)]
                ctx.decide('R05o', not greedy, vm_, c_, 'no greedy wildcard in ' + short(c_.args[0], 40),
                           'the pattern %s scans with a greedy wildcard up to the terminator: with two verbatim environments '
                           'in a document everything up to the LAST \\end{..} is taken as verbatim text, so an unmatched '
                           'brace or \\begin between the two listings is accepted in strict mode' % short(c_.args[0], 60),
                           construct='%s: %s' % (vm_.relpath, short(c_.args[0], 40)))
    ctx.holds('R05o', repo.mod('pylatexenc.latexnodes.parsers._verbatim'), None,
              '%d regular expression(s) in the verbatim readers' % n_vr, construct='verbatim regex scan', trivial=True)

    # ---- R05q (C20 R20k): a caught error is not moved without its line and column
    ctx.rule('R05q', 'a caught error\'s pos is not re-assigned outside the error classes without its lineno / colno: the located '
                     'error that strict mode reports has a position and a line/column that denote the same place (C20 R20k)', 0)
    from .. import core as _core5
    _core5.run_proxied(ctx, c20, 'R05q', ('R20k',))

    # ---- R05r: the generic scan for a math delimiter looks at every delimiter in every state
    ctx.rule('R05r', 'impl_maybe_read_math_mode_delimiter: inside the loop over all math delimiters, whether a delimiter is reported '
                     '(and whether the loop moves on or stops) depends on nothing but `s.startswith(<delimiter>, pos)`: the reader '
                     'reports every delimiter it sees and leaves it to the parsers to reject the misplaced ones -- a delimiter '
                     'skipped because of the current mode (an opening `\\(` inside a formula) is read as an ordinary macro and '
                     'the unbalanced document is accepted in strict mode', 1)
    trm5 = repo.mod('pylatexenc.latexnodes._tokenreader')
    mr5 = trm5.methods('LatexTokenReader').get('impl_maybe_read_math_mode_delimiter')
    if mr5 is None:
        raise AnalysisError('anchor vanished: impl_maybe_read_math_mode_delimiter')
    loops5 = [l_ for l_ in iter_own(mr5) if isinstance(l_, ast.For) and '_math_all_delims' in unparse(l_.iter)]
    n5r = 0
    for l_ in loops5:
        lv_ = {n_.id for n_ in ast.walk(l_.target) if isinstance(n_, ast.Name)}
        inside_ = {id(n_) for n_ in ast.walk(l_)}
        for st_ in ast.walk(l_):
            if not isinstance(st_, (ast.Continue, ast.Break, ast.Return)):
                continue
            n5r += 1
            other_ = []
            for t_, pol_ in atomic_facts(st_):
                if id(t_) not in inside_:
                    continue
                ok_t = isinstance(t_, ast.Call) and call_name(t_) == 'startswith' and t_.args and \
                    isinstance(t_.args[0], ast.Name) and t_.args[0].id in lv_
                if not ok_t:
                    other_.append((unparse(t_), pol_))
            ctx.decide('R05r', not other_, trm5, st_, 'delimiter scan: `%s` depends on the startswith test only' % short(st_, 30),
                       'in the scan over all math delimiters `%s` is reached under %s: a delimiter is passed over (or accepted) '
                       'for a reason other than whether the input continues with it, so in that state the reader does not report '
                       'it -- an unmatched opening delimiter added inside a formula is read as a macro and strict mode accepts '
                       'the document' % (short(st_, 30), ['%s is %s' % (x_[:60], y_) for x_, y_ in other_[:2]]),
                       construct='impl_maybe_read_math_mode_delimiter: scan %s' % type(st_).__name__.lower())
    if not n5r:
        ctx.unknown('R05r', trm5, mr5, 'no loop over the math delimiters with an exit found', construct='math delimiter scan')

    # ---- R05p: a comment ends at the first newline after its start marker
    ctx.rule('R05p', 'impl_read_comment: the search for the newline that ends a comment starts exactly where the comment text '
                     'starts (the slice start of the token text): an empty comment `%` + newline ends at that newline and does '
                     'not swallow the next line (where an unmatched brace would then go unreported)', 1)
    comment_end_search(ctx, 'R05p', repo)

    return 'other', (
        'Exception-escape analysis (least fixpoint over the resolved call graph, strict '
        'configuration) of LatexWalker.parse_content over every parser class: each escaping '
        '(class, raise site) pair is a parse error, an abstract stub or a reviewed '
        'configuration/protocol raise; crash-construct rules G1-G9 on the reachable functions; '
        'every parse error gets a position that cannot be None and line/column from it; stray '
        'closing tokens and unmet required stop conditions raise.')


def stray_closers(ctx, rule, repo):
    co = repo.mod(COLL)
    pot = co.methods('LatexNodesCollector').get('process_one_token')
    if pot is None:
        raise AnalysisError('anchor vanished: process_one_token')
    pot = symex.inline_stmt_helpers(pot, co.methods('LatexNodesCollector'))
    closing = {"tok.tok == 'brace_close'": 'closing brace', "tok.tok == 'end_environment'": '\\end',
               'math': 'closing math delimiter'}
    # order = position among the top-level statements (line numbers do not order statements that
    # were followed into a helper)
    dispatch_idx = min([k for k, st in enumerate(pot.body) for i in ast.walk(st) if isinstance(i, ast.If)
                        and unparse(i.test) == "tok.tok == 'comment'"] or [10 ** 9])
    seen = set()
    for idx_, i in [(k, i) for k, i in enumerate(pot.body) if isinstance(i, ast.If)]:
        t = unparse(i.test)
        key = None
        if t in closing:
            key = t
        elif "tok.tok in ('mathmode_inline', 'mathmode_display')" in t and \
                'tok.arg not in self.parsing_state._math_delims_info_by_open' in t:
            key = 'math'
            conj = [unparse(v) for v in (i.test.values if isinstance(i.test, ast.BoolOp)
                                         and isinstance(i.test.op, ast.And) else [i.test])]
            extra = [c_ for c_ in conj if c_ not in (
                "tok.tok in ('mathmode_inline', 'mathmode_display')",
                'tok.arg not in self.parsing_state._math_delims_info_by_open')]
            if extra:
                seen.add(key)
                ctx.refuted(rule, co, i, 'a stray closing math delimiter is rejected only when additionally %s: '
                            'otherwise the token is handed to the math parser, which cannot open a block with '
                            'it and consumes nothing -- strict mode reports a confusing error, tolerant mode '
                            'reads the same token again for ever' % ' and '.join(extra),
                            construct='process_one_token: stray closing math delimiter')
                continue
        if key is None:
            continue
        seen.add(key)
        ok = len(i.body) == 1 and isinstance(i.body[0], ast.Raise) and isinstance(i.body[0].exc, ast.Call) \
            and call_name(i.body[0].exc) in PARSE_ERRORS and idx_ < dispatch_idx and \
            kwarg(i.body[0].exc, 'recovery_past_token') is not None
        ctx.decide(rule, ok, co, i, 'stray %s raises a parse error before dispatch' % closing[key],
                   'a stray %s reaching the dispatcher does not unconditionally raise a parse error '
                   'before any node is produced' % closing[key],
                   construct='process_one_token: stray ' + closing[key])
    for key in closing:
        if key not in seen:
            ctx.refuted(rule, co, pot, 'no rejection branch for a stray %s' % closing[key],
                        construct='process_one_token: stray ' + closing[key])


def _dead_rejections(ctx, repo):
    """constant propagation of parsing-state switches fixed by sub_context(flag=<literal>) into
    the tests that guard error branches (one level through self.<method>(...) calls)"""
    n_states = 0
    for mod in sorted(repo.modules.values(), key=lambda m_: m_.name):
        if not mod.name.startswith('pylatexenc.latexnodes'):
            continue
        known = {}      # (function node id, name) -> {flag: literal}
        fnodes = {}
        for q, f in mod.functions.items():
            fnodes[q] = f
            for st in iter_own(f):
                if isinstance(st, ast.Assign) and len(st.targets) == 1 and isinstance(st.targets[0], ast.Name) \
                        and isinstance(st.value, ast.Call) and call_name(st.value) == 'sub_context':
                    consts = dict((k.arg, k.value.value) for k in st.value.keywords
                                  if k.arg and isinstance(k.value, ast.Constant))
                    nm = st.targets[0].id
                    rebinds = [x for x in iter_own(f) if isinstance(x, ast.Assign) and any(
                        isinstance(t, ast.Name) and t.id == nm for t in x.targets)]
                    if consts and len(rebinds) == 1:
                        known[(id(f), nm)] = consts
                        n_states += 1
        # one level: handed to a method of the same class by position/keyword
        for q, f in mod.functions.items():
            for c in iter_own(f):
                if not (isinstance(c, ast.Call) and isinstance(c.func, ast.Attribute)
                        and isinstance(c.func.value, ast.Name) and c.func.value.id == 'self'):
                    continue
                cls = q.rsplit('.', 1)[0] if '.' in q else None
                g = fnodes.get('%s.%s' % (cls, c.func.attr)) if cls else None
                if g is None:
                    continue
                gp = [a.arg for a in g.args.args][1:]
                pairs = list(zip(gp, c.args)) + [(k.arg, k.value) for k in c.keywords if k.arg]
                for pn, a in pairs:
                    if isinstance(a, ast.Name) and (id(f), a.id) in known:
                        others = [x for x in ast.walk(mod.tree) if isinstance(x, ast.Call)
                                  and call_name(x) == c.func.attr and x is not c]
                        if not others:
                            known[(id(g), pn)] = known[(id(f), a.id)]
        for q, f in sorted(mod.functions.items()):
            for i in [i for i in iter_own(f) if isinstance(i, ast.If)]:
                if not any(isinstance(x, ast.Call) and call_name(x).endswith('ParseError') for b in i.body
                           for x in ast.walk(b)):
                    continue
                conj = i.test.values if isinstance(i.test, ast.BoolOp) and isinstance(i.test.op, ast.And) else [i.test]
                for cj in conj:
                    if isinstance(cj, ast.Attribute) and isinstance(cj.value, ast.Name) and \
                            (id(f), cj.value.id) in known and cj.attr in known[(id(f), cj.value.id)] and \
                            not known[(id(f), cj.value.id)][cj.attr]:
                        ctx.refuted('R05g', mod, i, 'the branch that rejects the input is guarded by %s, but %s is '
                                    'derived with sub_context(%s=%r): the test is always false, the rejection is '
                                    'dead code and strict mode accepts what it used to reject'
                                    % (unparse(cj), cj.value.id, cj.attr, known[(id(f), cj.value.id)][cj.attr]),
                                    construct='%s: %s' % (q, short(i.test, 80)))
    ctx.holds('R05g', None, None, '%d derived states with fixed switches tracked; no rejection branch tests a '
              'fixed-false switch' % n_states, construct='dead rejection scan', trivial=True)


def _may_be_none(prog, f, call, pos, depth=0):
    """Reason why `pos` may be None, or None."""
    if isinstance(pos, ast.Constant) and pos.value is None:
        return 'literal None'
    if isinstance(pos, ast.Call):
        for g in prog.resolve(f, pos):
            rets = [r for r in iter_own(g.node) if isinstance(r, ast.Return)]
            for r in rets:
                if r.value is None or (isinstance(r.value, ast.Constant) and r.value.value is None):
                    return '%s() can return None' % g.qual
                if isinstance(r.value, ast.Attribute) and is_self_attr(r.value) and g.cls:
                    # attribute that some method of the class sets to None
                    for k2, h in prog.cls_methods.get(g.cls, {}).items():
                        for s in iter_own(h.node):
                            if isinstance(s, ast.Assign) and is_self_attr(s.targets[0], r.value.attr) and \
                                    isinstance(s.value, ast.Constant) and s.value.value is None:
                                return '%s() returns self.%s, which %s sets to None' % (
                                    g.qual, r.value.attr, h.qual)
        return None
    if isinstance(pos, ast.Name) and depth < 3:
        defs = [s for s in iter_own(f.node) if isinstance(s, ast.Assign)
                and any(isinstance(t, ast.Name) and t.id == pos.id for t in s.targets)
                and s.lineno < call.lineno]
        if not defs:
            return None
        # a fallback `if x is None: x = ...` after the definitions makes it non-None
        fallback = [s for s in defs if any(p and unparse(t) == pos.id + ' is None' for t, p in atomic_facts(s))]
        for s in defs:
            if s in fallback:
                why = _may_be_none(prog, f, call, s.value, depth + 1)
                if why:
                    return why
                continue
            why = _may_be_none(prog, f, call, s.value, depth + 1)
            if why and not fallback:
                return why
            if why and fallback and max(x.lineno for x in fallback) < s.lineno:
                return why
        return None
    return None


class _Sub(object):
    def __init__(self, ctx, rule):
        self.ctx, self._rule = ctx, rule
        self.repo = ctx.repo
        self.analysed = ctx.analysed

    def rule(self, *a, **k):
        return None

    def holds(self, rule, *a, **k):
        return self.ctx.holds(self._rule, *a, **k)

    def refuted(self, rule, *a, **k):
        return self.ctx.refuted(self._rule, *a, **k)

    def unknown(self, rule, *a, **k):
        return self.ctx.unknown(self._rule, *a, **k)

    def decide(self, rule, *a, **k):
        return self.ctx.decide(self._rule, *a, **k)

    def assume(self, *a):
        return None


def _filtered(sub, keep):
    class Filter(_Sub):
        def _keep(self, rule):
            return rule in keep

        def holds(self, rule, *a, **k):
            return self.ctx.holds(self._rule, *a, **k) if self._keep(rule) else None

        def refuted(self, rule, *a, **k):
            return self.ctx.refuted(self._rule, *a, **k) if self._keep(rule) else None

        def unknown(self, rule, *a, **k):
            return self.ctx.unknown(self._rule, *a, **k) if self._keep(rule) else None

        def decide(self, rule, *a, **k):
            return self.ctx.decide(self._rule, *a, **k) if self._keep(rule) else None
    return Filter(sub.ctx, sub._rule)


def _r20a_only(sub, repo, w):
    """Run C20 and keep its R20a (error annotation) and R20c/R20d (position -> line/column map)
    obligations: a strict-mode error is located by line and column too."""
    class Filter(_Sub):
        def _keep(self, rule):
            return rule in ('R20a', 'R20c', 'R20d')

        def holds(self, rule, *a, **k):
            return self.ctx.holds(self._rule, *a, **k) if self._keep(rule) else None

        def refuted(self, rule, *a, **k):
            return self.ctx.refuted(self._rule, *a, **k) if self._keep(rule) else None

        def unknown(self, rule, *a, **k):
            return self.ctx.unknown(self._rule, *a, **k) if self._keep(rule) else None

        def decide(self, rule, *a, **k):
            return self.ctx.decide(self._rule, *a, **k) if self._keep(rule) else None
    c20.run(Filter(sub.ctx, sub._rule))



def error_text_indexing(ctx, rule, repo):
    """error objects are built for positions 0..len(s) (an error at the very end of the input is at
    len(s)): the code that builds or formats them may slice the source string but must not index
    it at the error position without an in-range fact"""
    em = repo.mod('pylatexenc.latexnodes._exctypes')
    n = 0
    for q, f in sorted(em.functions.items()):
        for x in iter_own(f):
            if not (isinstance(x, ast.Subscript) and isinstance(x.ctx, ast.Load) and not isinstance(x.slice, ast.Slice)):
                continue
            base = unparse(x.value)
            if not (base == 's' or base.endswith('.s')):
                continue
            idx = unparse(x.slice)
            if not ('pos' in idx):
                continue
            n += 1
            facts = [(unparse(t), pol) for t, pol in atomic_facts(x)]
            guarded = any(pol and t.replace(' ', '') in ('%s<len(%s)' % (idx.replace(' ', ''), base),) for t, pol in facts)
            ctx.decide(rule, guarded, em, enclosing_stmt(x) or x, 'indexed under %s < len(%s)' % (idx, base),
                       '%s indexes the source string at the error position (%s): errors at the very end of the input '
                       '(a lone trailing backslash, an unterminated verbatim argument) have pos == len(s), so building '
                       'or formatting the error raises IndexError -- which is not a parse error and escapes tolerant '
                       'parsing too' % (q, short(x, 40)), construct='%s: %s' % (q, short(x, 40)))
    ctx.holds(rule, em, None, '%d index expression(s) on the source string in the error classes' % n,
              construct='error text indexing scan', trivial=True)


def comment_end_search(ctx, rule, repo):
    from .. import affine
    trm = repo.mod('pylatexenc.latexnodes._tokenreader')
    f = trm.functions.get('LatexTokenReader.impl_read_comment')
    if f is None:
        raise AnalysisError('anchor vanished: LatexTokenReader.impl_read_comment')
    env = affine.single_assign_env(f)
    mk = [c for c in iter_own(f) if isinstance(c, ast.Call) and call_name(c) == 'make_token' and kwarg(c, 'arg') is not None]
    finds = [c for c in iter_own(f) if isinstance(c, ast.Call) and call_name(c) in ('find', 'index') and len(c.args) >= 2
             and isinstance(c.args[0], ast.Constant) and c.args[0].value == '\n' and unparse(call_recv(c)) == 's']
    arg = kwarg(mk[0], 'arg') if mk else None
    if isinstance(arg, ast.Name) and arg.id in env:
        arg = env[arg.id]
    if not (mk and finds and isinstance(arg, ast.Subscript) and isinstance(arg.slice, ast.Slice) and arg.slice.lower is not None):
        ctx.unknown(rule, trm, f, 'comment text slice or newline search not found', construct='impl_read_comment: end search')
        return
    for fc in finds:
        try:
            d = affine.diff(fc.args[1], arg.slice.lower, env)
        except affine.NotAffine:
            ctx.unknown(rule, trm, fc, 'search start not affine: %s' % short(fc.args[1], 40),
                        construct='impl_read_comment: end search')
            continue
        ctx.decide(rule, d == (0, {}), trm, fc, 'the newline is searched from the start of the comment text',
                   'the newline that ends the comment is searched from %s, the comment text starts at %s (difference %s): a '
                   'newline directly after the comment marker is not seen, the comment runs on to the end of the NEXT line, and '
                   'whatever stands there (an unmatched `{`, `$`, \\begin) is neither parsed nor reported'
                   % (short(fc.args[1], 40), short(arg.slice.lower, 40), affine.show(d)),
                   construct='impl_read_comment: end search')
