# -*- coding: utf-8 -*-
"""C06  Tolerant mode: total, equals strict on valid input, keeps pre-error content."""
import ast
from .. import symex
from ..core import (AnalysisError, set_parents, short, unparse, iter_own, call_name, call_recv, kwarg,
                    is_self_attr, atomic_facts, parents, enclosing_stmt, enclosing_func)
from .. import affine
from . import totality

WALKER = 'pylatexenc.latexwalker._walker'
TR = 'pylatexenc.latexnodes._tokenreader'
GEN = 'pylatexenc.latexnodes.parsers._generalnodes'
EXPR = 'pylatexenc.latexnodes.parsers._expression'


READER_MOVES = ('next_token', 'move_to_token', 'move_past_token', 'move_to_pos_chars', 'next_chars',
                'skip_space_chars')


def _optional_recovery_attributes(ctx, repo):
    pass
    em = repo.mod('pylatexenc.latexnodes._exctypes')
    groups = {}          # attribute -> (class, set of attributes set by the same __init__)
    for cn, c in em.classes.items():
        init = em.methods(cn).get('__init__')
        if init is None:
            continue
        attrs = {n.attr for n in ast.walk(init) if isinstance(n, ast.Attribute) and isinstance(n.ctx, ast.Store)
                 and is_self_attr(n) and n.attr.startswith('recovery_')}
        for a in attrs:
            groups[a] = (cn.split('.')[-1], attrs)
    if len(groups) < 4:
        raise AnalysisError('recovery_* attribute definitions not found in _exctypes')
    n = 0
    for mod in sorted(repo.modules.values(), key=lambda m_: m_.name):
        if mod is em or mod.name.endswith('__main__'):
            continue
        for q, f in sorted(mod.functions.items()):
            reads = [x for x in iter_own(f) if isinstance(x, ast.Attribute) and isinstance(x.ctx, ast.Load)
                     and x.attr in groups and not is_self_attr(x)]
            if not reads:
                continue
            try:
                cases = symex.Walker(is_sink=lambda x: any(x is r for r in reads),
                                     sink_types=(ast.Attribute,)).run(f)
            except symex.TooManyPaths as e:
                ctx.unknown('R06h', mod, f, str(e), construct=q)
                continue
            by_node = {}
            for cs in cases:
                by_node.setdefault(id(cs.node), []).append(cs)
            for r in reads:
                n += 1
                cls_, grp = groups[r.attr]
                # inside `except <defining class> as v` with v the receiver?
                in_handler = any(isinstance(p_, ast.ExceptHandler) and p_.name and p_.type is not None
                                 and unparse(p_.type).split('.')[-1] == cls_ and unparse(r.value) == p_.name
                                 for p_ in parents(r))
                bad = None
                for cs in by_node.get(id(r), []):
                    recv = unparse(cs.sub.value)
                    facts = symex.facts_of(cs.conds, cs.env)
                    ok = any(p_ and t_.replace('"', "'") in ("hasattr(%s, '%s')" % (recv, a) for a in grp)
                             for t_, p_ in facts)
                    isinst = any(p_ and t_.startswith('isinstance(%s,' % recv) and cls_ in t_ for t_, p_ in facts)
                    if not (ok or isinst or in_handler):
                        bad = cs
                cons = '%s: read of .%s' % (q, r.attr)
                ctx.decide('R06h', bad is None, mod, enclosing_stmt(r) or r,
                           '.%s read under hasattr/isinstance/handler of %s' % (r.attr, cls_),
                           '%s is read on the path [%s] without a dominating hasattr() for an attribute of %s: '
                           'an error of another class (a plain LatexWalkerParseError from the legacy verbatim '
                           'parsers) has no such attribute -- AttributeError instead of recovery in tolerant mode'
                           % (unparse(r), ' & '.join(bad.cond_src())[-100:] if bad else '', cls_), construct=cons)
    if n < 4:
        raise AnalysisError('only %d reads of recovery_* attributes found' % n)


def _has_none_fallback(stmts, var, attr, helpers, depth=0):
    """do the statements give <var>.<attr> a value when it is None (inline, or through a helper
    function that receives var)"""
    for st in stmts:
        if isinstance(st, ast.If):
            t = unparse(st.test)
            if t == '%s.%s is None' % (var, attr) and any(
                    isinstance(b, ast.Assign) and unparse(b.targets[0]) == '%s.%s' % (var, attr)
                    for b in st.body):
                return True
        for c in ast.walk(st):
            if isinstance(c, ast.Call) and depth < 2:
                h = helpers.get(call_name(c))
                if h is None:
                    continue
                args = list(c.args)
                params = [a.arg for a in h.args.args]
                if params and params[0] in ('self', 'cls') and isinstance(c.func, ast.Attribute):
                    params = params[1:]
                for a, pn in zip(args, params):
                    if isinstance(a, ast.Name) and a.id == var and \
                            _has_none_fallback(h.body, pn, attr, helpers, depth + 1):
                        return True
    return False


def _nodelist_position_fallback(ctx, repo):
    gm = repo.mod(GEN)
    gp = gm.methods('LatexGeneralNodesParser').get('parse')
    if gp is None:
        raise AnalysisError('anchor vanished: LatexGeneralNodesParser.parse')
    helpers = dict((q.rsplit('.', 1)[-1], f) for q, f in gm.functions.items())
    sites = []
    for st in iter_own(gp):
        if isinstance(st, ast.Assign) and isinstance(st.value, ast.Call) and \
                call_name(st.value) == 'get_final_nodelist' and isinstance(st.targets[0], ast.Name):
            blk = _block_of(st)
            rest = blk[blk.index(st) + 1:]
            var = st.targets[0].id
            have = [a for a in ('pos', 'pos_end') if _has_none_fallback(rest, var, a, helpers)]
            on_error = any(isinstance(p_, ast.ExceptHandler) for p_ in parents(st))
            sites.append((st, var, have, on_error))
    if len(sites) < 2:
        raise AnalysisError('general-nodes parser: %d get_final_nodelist sites (expected the normal '
                            'and the error exit)' % len(sites))
    full = [x for x in sites if len(x[2]) == 2]
    for st, var, have, on_error in sites:
        cons = 'LatexGeneralNodesParser.parse: %s exit: %s' % ('error' if on_error else 'normal', short(st, 60))
        if len(have) == 2:
            ctx.holds('R06g', gm, st, '%s.pos / .pos_end get a fallback when None' % var, construct=cons)
        elif full:
            ctx.refuted('R06g', gm, st, 'the %s exit hands out %s without the missing-position fallback '
                        '(%s) that the other exit applies: an empty list (stray closing token first) has '
                        'pos None and the tolerant caller fails with TypeError'
                        % ('error' if on_error else 'normal', var,
                           'missing for ' + ', '.join(a for a in ('pos', 'pos_end') if a not in have)),
                        construct=cons)
        else:
            ctx.unknown('R06g', gm, st, 'no exit applies a position fallback here (moved elsewhere?)',
                        construct=cons)


def _block_of(st):
    p = getattr(st, '_parent', None)
    for fld in ('body', 'orelse', 'finalbody'):
        lst = getattr(p, fld, None)
        if isinstance(lst, list) and any(x is st for x in lst):
            return lst
    return [st]


def _retry_progress(ctx, repo, recursion_reported=False):
    """typestate over the reader position along each structural path that ends in a retry request"""
    pass
    em = repo.mod(EXPR)
    n = 0
    for qual, f in sorted(em.functions.items()):
        if not any(isinstance(r, ast.Raise) and isinstance(r.exc, ast.Call) and
                   call_name(r.exc).startswith('_TryAgain') for r in iter_own(f)):
            continue
        rd = [a.arg for a in f.args.args if 'reader' in a.arg]
        if not rd:
            ctx.unknown('R06f', em, f, 'no token reader parameter', construct=qual)
            continue
        rd = rd[0]

        def is_sink(c):
            return call_name(c) in READER_MOVES and call_recv(c) is not None and unparse(call_recv(c)) == rd
        try:
            w = symex.Walker(is_sink=is_sink, want_raises=True, trace=True)
            cases = [c for c in w.run(f) if c.kind == 'raise' and isinstance(c.sub, ast.Call)
                     and call_name(c.sub).startswith('_TryAgain')]
        except symex.TooManyPaths as e:
            ctx.unknown('R06f', em, f, str(e), construct=qual)
            continue
        by_site = {}
        for cs in cases:
            by_site.setdefault(cs.node.lineno, []).append(cs)
        for line, lst in sorted(by_site.items()):
            n += 1
            bad, unk = None, None
            for cs in lst:
                defs = cs.env.get('#def', {})
                toks = {sym for sym, d in defs.items() if isinstance(d, ast.Call) and call_name(d) == 'next_token'}
                facts = set()
                for t, pol in cs.conds:
                    for a, ap in symex._atoms(t, pol):
                        facts.add((unparse(a), ap))
                state = 'START'
                for node, sub in cs.env.get('#trace', ()):
                    cn = call_name(sub)
                    if cn in ('next_token', 'next_chars'):
                        state = 'PAST'
                    elif cn == 'move_past_token':
                        state = 'PAST'
                    elif cn == 'move_to_pos_chars':
                        a0 = unparse(sub.args[0]) if sub.args else ''
                        state = 'PAST' if a0.endswith('.recovery_token_at_pos') else 'UNKNOWN:' + a0
                    elif cn == 'skip_space_chars':
                        pass        # never moves backwards
                    elif cn == 'move_to_token':
                        tk = unparse(sub.args[0]) if sub.args else ''
                        rw = kwarg(sub, 'rewind_pre_space') or (sub.args[1] if len(sub.args) > 1 else None)
                        if tk not in toks and not tk.endswith('.recovery_token_placeholder'):
                            state = 'UNKNOWN:move_to_token(%s)' % tk
                        elif isinstance(rw, ast.Constant) and rw.value is False:
                            nonempty = ('len(%s.pre_space)' % tk, True) in facts or \
                                ('%s.pre_space' % tk, True) in facts
                            state = 'PAST' if nonempty else 'START'
                        elif rw is None or (isinstance(rw, ast.Constant) and rw.value is True):
                            state = 'START'     # back over the leading whitespace: where we began
                        else:
                            state = 'UNKNOWN:rewind=%s' % unparse(rw)
                if state == 'START':
                    bad = cs
                elif state.startswith('UNKNOWN'):
                    unk = (cs, state)
            cons = '%s: retry request (%s)' % (qual, short(lst[0].node, 60))
            if bad is not None:
                tr = ' ; '.join(short(sub, 50) for _, sub in bad.env.get('#trace', ()))
                ctx.refuted('R06f', em, bad.node, 'on the path [%s] the reader calls are <%s>: the reader is '
                            'back where the attempt started when the parser asks to be called again -- the '
                            'same token is read again and tolerant parsing never ends'
                            % (' & '.join(bad.cond_src())[-160:], tr), construct=cons)
            elif unk is not None:
                ctx.unknown('R06f', em, unk[0].node, 'reader position not tracked: %s' % unk[1], construct=cons)
            else:
                ctx.holds('R06f', em, lst[0].node, 'reader strictly advanced on %d path(s)' % len(lst),
                          construct=cons)
    if n < 4 and not recursion_reported:
        raise AnalysisError('retry progress: only %d retry sites found' % n)


PARSER_LAYER = ('pylatexenc.latexnodes.parsers', 'pylatexenc.latexnodes._tokenreader', 'pylatexenc.latexnodes._nodescollector',
                'pylatexenc.latexnodes._parsingstate', 'pylatexenc.latexnodes._walkerbase', 'pylatexenc.latexwalker._walker',
                'pylatexenc.macrospec')


def class_call_cycles(functions_by_mod):
    """cycles of `self.m()` / `cls.m()` calls between methods of one class, over {modname: {qualname: fn}}.
    Returns a list of cycles, each a list of (modname, qualname, call node)"""
    edges = {}
    for mname, fns in functions_by_mod.items():
        for q, f in fns.items():
            if '.' not in q:
                for c in iter_own(f):
                    if isinstance(c, ast.Call) and isinstance(c.func, ast.Name) and c.func.id == q:
                        edges.setdefault((mname, q), []).append(((mname, q), c))
                continue
            cls = q.rsplit('.', 1)[0]
            for c in iter_own(f):
                if isinstance(c, ast.Call) and isinstance(c.func, ast.Attribute) and isinstance(c.func.value, ast.Name) \
                        and c.func.value.id in ('self', 'cls') and cls + '.' + c.func.attr in fns:
                    edges.setdefault((mname, q), []).append(((mname, cls + '.' + c.func.attr), c))
    out, done = [], set()

    def dfs(n, path, calls):
        for m, c in edges.get(n, ()):
            if m in path:
                i = path.index(m)
                cyc = tuple(sorted(path[i:]))
                if cyc not in done:
                    done.add(cyc)
                    out.append([(p_[0], p_[1], c_) for p_, c_ in zip(path[i:], calls[i:] + [c])])
            elif len(path) < 12:
                dfs(m, path + [m], calls + [c])
    for n in sorted(edges):
        dfs(n, [n], [])
    return out


def _flat_recursion(ctx, repo):
    ctx.rule('R06p', 'the parser layer does not recurse per token: no method of the token reader, the parsers, the nodes '
                     'collector or the argument parsers calls itself, directly or through other methods of its class -- nesting '
                     'is only entered through LatexWalker.parse_content(), so a flat input of any length needs a constant '
                     'number of stack frames (RecursionError is not a parse error and escapes the tolerant parse); the cycle '
                     'search is exercised on a built-in example on every run', 1)
    ex = ast.parse('class P:\n def a(self, r):\n  t = r.next_token()\n  return self.b(r)\n def b(self, r):\n  return [1] + self.a(r)\n')
    set_parents(ex)
    exf = {'P.' + f.name: f for f in ex.body[0].body}
    if len(class_call_cycles({'ex': exf})) != 1:
        raise AnalysisError('R06p: the cycle search no longer finds the cycle of its built-in example')
    fbm = {m.name: m.functions for m in repo.modules.values() if m.name.startswith(PARSER_LAYER)}
    if len(fbm) < 15:
        raise AnalysisError('R06p: only %d parser-layer modules found' % len(fbm))
    # only code that runs while parsing: a function with a token reader / walker / parsing-state parameter, or a
    # method of a reader, collector or parser class (specification helpers that build tables are not per-token code)
    def _parse_time(mname, q):
        f_ = fbm[mname][q]
        ps_ = {a_.arg for a_ in f_.args.args}
        cls_ = q.rsplit('.', 1)[0] if '.' in q else ''
        return bool(ps_ & {'token_reader', 'latex_walker', 'w', 'parsing_state', 'tok', 'token'}) or any(
            k_ in cls_ for k_ in ('TokenReader', 'NodesCollector', 'Parser'))
    cycles = [cyc for cyc in class_call_cycles(fbm) if any(_parse_time(c_[0], c_[1]) for c_ in cyc)]
    for cyc in cycles:
        mod_ = repo.mod(cyc[0][0])
        ctx.refuted('R06p', mod_, cyc[-1][2], 'call cycle inside the parser layer: %s -> %s: every token / comment / space '
                    'skipped this way costs a stack frame, so a long flat input (a block of a thousand comment lines in '
                    'front of an argument) ends in RecursionError, which is not a parse error and escapes the tolerant parse'
                    % (' -> '.join(c_[1] for c_ in cyc), cyc[0][1]),
                    construct='recursion: ' + ' -> '.join(c_[1] for c_ in cyc))
    ctx.holds('R06p', repo.mod(EXPR), None, 'no call cycle among the methods of a class in %d parser-layer modules (%d functions)'
              % (len(fbm), sum(len(v) for v in fbm.values())), construct='parser-layer recursion scan', trivial=True)
    return bool(cycles)


def run(ctx):
    repo = ctx.repo
    prog = totality.program(repo)
    entry = prog.find(WALKER, 'LatexWalker.parse_content')
    ctx.rule('R06a', 'recovery hand-over: on the suppressing path _ParsingContext.__exit__ stores the '
                     'caught exception (not the None result of the tolerance check) and returns True; '
                     'parse_content calls, under `pc.recovery_from_exception is not None`, a method '
                     'that exists on the context class and returns its result', 4)
    ctx.rule('R06b', 'recovery makes progress: for every LatexWalkerTokenParseError the placeholder '
                     'token ends exactly at recovery_token_at_pos and is not empty', 3)
    ctx.rule('R06c', 'escape set (tolerant configuration) of parse_content over all parser classes: '
                     'no LatexWalkerError escapes; other raise sites must be abstract stubs or '
                     'reviewed configuration/protocol raises', 20)
    ctx.rule('R06d', 'partial nodes travel with the error: the first handler that can see a parse '
                     'error leaving the collector re-raises it as LatexWalkerNodesParseError with '
                     'recovery_nodes = the collector\'s final node list; the unmet-stop error carries '
                     'the collected node list too', 3)
    ctx.rule('R06f', 'retry progress: whenever the expression parser asks to be called again '
                     '(_TryAgainWithSkippedCommentOrWhitespaceNodes), the reader stands strictly after '
                     'the position it had when the attempt started (past the token, at the token after '
                     'non-empty leading whitespace, or at the recovery position of a token error)', 4)
    ctx.rule('R06i', 'every stray closing token (brace, \\end, math delimiter that opens nothing) is rejected by the '
                     'dispatcher with recovery PAST the token, unconditionally: tolerant parsing moves on', 3)
    ctx.rule('R06h', 'recovery information is optional: an attribute recovery_* is read from the caught '
                     'exception only where hasattr() of an attribute set by the same constructor dominates, or '
                     'inside a handler that catches exactly the class defining it (a plain LatexWalkerParseError '
                     'has none of them: AttributeError in tolerant mode otherwise)', 4)
    ctx.rule('R06g', 'sibling exits agree: the general-nodes parser gives the collector\'s final node '
                     'list a position when it has none (empty list) on the error exit exactly as on the '
                     'normal exit; a recovery list without position makes the tolerant caller fail with '
                     'TypeError instead of recovering', 2)
    ctx.rule('R06e', 'mode non-interference: tolerant_parsing is read only inside exception handling '
                     '(the tolerance check, the reader\'s handler), when constructing readers/walkers, '
                     'and in legacy shims; every argument of check_tolerant_parsing_ignore_error is a '
                     'caught or freshly constructed error', 8)
    totality.declare_g(ctx)

    w = repo.mod(WALKER)
    pcm = w.methods('LatexWalker._ParsingContext')
    ex = pcm.get('__exit__')
    pc = w.methods('LatexWalker').get('parse_content')
    if ex is None or pc is None:
        raise AnalysisError('anchor vanished: _ParsingContext.__exit__/parse_content')
    excp = ex.args.args[2].arg
    # ------------------------------------------------------------ R06a
    stores = [s for s in iter_own(ex) if isinstance(s, ast.Assign)
              and is_self_attr(s.targets[0], 'recovery_from_exception')]
    if not stores:
        ctx.refuted('R06a', w, ex, '__exit__ never stores recovery_from_exception', construct='__exit__: store')
    for s in stores:
        v = s.value
        # what does the stored name hold here?
        src = unparse(v)
        holds_exc = False
        none_here = False
        if isinstance(v, ast.Name):
            defs = [d for d in iter_own(ex) if isinstance(d, ast.Assign)
                    and unparse(d.targets[0]) == v.id and d.lineno < s.lineno]
            last = max(defs, key=lambda d: d.lineno) if defs else None
            if v.id == excp or (last is not None and unparse(last.value) == excp):
                holds_exc = True
            if last is not None and isinstance(last.value, ast.Call) and \
                    call_name(last.value) == 'check_tolerant_parsing_ignore_error':
                holds_exc = False
            none_here = any(pol and unparse(t) == v.id + ' is None' for t, pol in atomic_facts(s))
        ctx.decide('R06a', holds_exc and not none_here, w, s,
                   'stores the caught exception',
                   'recovery_from_exception is assigned %s, which is %s here: parse_content never '
                   'sees an exception to recover nodes from, so everything parsed before the error '
                   'is dropped' % (src, 'None' if none_here else 'not the caught exception'),
                   construct='__exit__: ' + short(s))
        blk = _block_of(s)
        nxt = blk[blk.index(s) + 1] if blk.index(s) + 1 < len(blk) else None
        ok = isinstance(nxt, ast.Return) and isinstance(nxt.value, ast.Constant) and nxt.value.value is True
        ctx.decide('R06a', ok, w, s, 'then returns True (error handled)',
                   'the suppressing path does not return True after storing the exception',
                   construct='__exit__: return True')
    fam = any(isinstance(n, ast.Call) and call_name(n) == 'isinstance' and
              'LatexWalkerParseError' in unparse(n) for n in iter_own(ex))
    ctx.decide('R06a', fam, w, ex, 'only LatexWalkerParseError instances are considered',
               '__exit__ no longer restricts suppression to LatexWalkerParseError',
               construct='__exit__: isinstance test')
    calls = [c for c in iter_own(pc) if isinstance(c, ast.Call) and isinstance(c.func, ast.Attribute)
             and unparse(c.func.value) == 'pc']
    for c in calls:
        exists = c.func.attr in pcm
        guarded = any(pol and unparse(t) == 'pc.recovery_from_exception is not None'
                      for t, pol in atomic_facts(c))
        st = enclosing_stmt(c)
        assigned = isinstance(st, ast.Assign) and isinstance(st.targets[0], ast.Tuple) and \
            [unparse(e) for e in st.targets[0].elts][:1] == ['nodes']
        ctx.decide('R06a', exists and guarded and assigned, w, c,
                   'calls the existing method %s under the guard and takes its (nodes, delta)' % c.func.attr,
                   'parse_content calls pc.%s (exists on _ParsingContext: %s, guarded: %s, result '
                   'assigned to nodes: %s): recovery cannot return the partial nodes'
                   % (c.func.attr, exists, guarded, assigned), construct='parse_content: ' + short(c, 60))
    if not calls:
        ctx.refuted('R06a', w, pc, 'parse_content never asks the context for recovery nodes',
                    construct='parse_content: recovery call')

    # ------------------------------------------------------------ R06b
    tr = repo.mod(TR)
    n = 0
    for fname, f in sorted(tr.methods('LatexTokenReader').items()):
        for c in [c for c in iter_own(f) if isinstance(c, ast.Call) and call_name(c) == 'LatexWalkerTokenParseError']:
            n += 1
            ph, at = kwarg(c, 'recovery_token_placeholder'), kwarg(c, 'recovery_token_at_pos')
            cons = '%s: recovery token' % fname
            if not isinstance(ph, ast.Call) or at is None:
                ctx.unknown('R06b', tr, c, 'placeholder / resume position not given inline', construct=cons)
                continue
            p, pe = kwarg(ph, 'pos'), kwarg(ph, 'pos_end')
            env = affine.reaching_env(f, c)
            try:
                d1 = affine.diff(pe, at, env)       # placeholder end - resume position
                d2 = affine.diff(pe, p, env)        # width
            except (affine.NotAffine, TypeError) as e:
                ctx.unknown('R06b', tr, c, 'not affine: %s' % e, construct=cons)
                continue
            ok1 = d1 == (0, {})
            pos_w = (not d2[1] and d2[0] >= 1) or (d2[0] >= 0 and d2[1] and all(
                v > 0 and k.startswith('len(') for k, v in d2[1].items()))
            if fname == 'impl_char_token' and not pos_w:
                # forwarded (pos, pos + 1) of the caller impl_peek_token
                pos_w = d2 == (0, {'pos_end': 1, 'pos': -1})
            ctx.decide('R06b', ok1 and pos_w, tr, c,
                       'placeholder ends at the resume position and has width %s' % affine.show(d2),
                       'recovery token: end - resume position = %s, width = %s: after the placeholder '
                       'is consumed the reader is %s, tolerant parsing %s'
                       % (affine.show(d1), affine.show(d2),
                          'not where recovery_token_at_pos says' if not ok1 else 'not moved',
                          're-reads the same error forever or skips input'),
                       construct=cons)
    ctx.analysed['token_error_sites'] = n
    # the reader's tolerant branch returns the placeholder without moving (C11 R11b) --
    pk = tr.methods('LatexTokenReader').get('peek_token')
    if pk is None:
        raise AnalysisError('anchor vanished: LatexTokenReader.peek_token')
    pass
    why = None
    hs = [h for t_ in iter_own(pk) if isinstance(t_, ast.Try) for h in t_.handlers
          if h.type is not None and 'LatexWalkerTokenParseError' in unparse(h.type)]
    if len(hs) != 1 or not hs[0].name:
        why = 'no single handler `except LatexWalkerTokenParseError as <name>`'
    else:
        h = hs[0]
        cases = symex.Walker(want_returns=True, want_raises=True).run_block(h.body)
        n_ret = n_raise = 0
        for cs in cases:
            facts = symex.facts_of(cs.conds)
            tol = [p_ for t_, p_ in facts if t_ == 'self.tolerant_parsing']
            if cs.kind == 'return':
                n_ret += 1
                if tol != [True]:
                    why = 'a value is returned from the handler without tolerant_parsing being set'
                elif unparse(cs.sub) != h.name + '.recovery_token_placeholder':
                    why = 'tolerant mode returns %s, not the error\'s recovery placeholder token' % short(cs.sub)
            elif cs.kind == 'raise':
                n_raise += 1
                if tol != [False]:
                    why = 'the token error is re-raised although tolerant_parsing may be set'
        if why is None and not (n_ret and n_raise):
            why = 'the handler does not both return the placeholder (tolerant) and re-raise (strict)'
    ctx.decide('R06b', why is None, tr, pk, 'tolerant reader turns a token error into its placeholder token',
               'peek_token no longer returns the recovery placeholder in tolerant mode: %s' % why,
               construct='peek_token: tolerant branch')

    # ------------------------------------------------------------ R06c
    totality.escape_obligations(ctx, 'R06c', repo, entry, True, (), 'nothing of the LatexWalkerError family')
    totality.g_obligations(ctx, 'G', repo, [entry])

    # ------------------------------------------------------------ R06d
    gm = repo.mod(GEN)
    gp = gm.methods('LatexGeneralNodesParser').get('parse')
    if gp is None:
        raise AnalysisError('anchor vanished: LatexGeneralNodesParser.parse')
    trys = [t for t in iter_own(gp) if isinstance(t, ast.Try) and any(
        isinstance(c, ast.Call) and call_name(c) == 'process_tokens' for c in ast.walk(ast.Module(body=t.body, type_ignores=[])))]
    if not trys:
        ctx.refuted('R06d', gm, gp, 'process_tokens() is no longer wrapped in a try that attaches the '
                                    'partial nodes', construct='parse: try around process_tokens')
    else:
        t = trys[0]
        first = None
        for h in t.handlers:
            ht = unparse(h.type) if h.type is not None else 'BaseException'
            if any(x in ht for x in ('LatexWalkerParseError', 'LatexWalkerNodesParseError',
                                     'LatexWalkerTokenParseError', 'LatexWalkerError', 'Exception')):
                first = h
                break
        ok = False
        why = 'no handler for parse errors'
        if first is not None:
            rs = [r for r in ast.walk(first) if isinstance(r, ast.Raise)]
            ok = bool(rs) and all(
                isinstance(r.exc, ast.Call) and call_name(r.exc) == 'LatexWalkerNodesParseError'
                and kwarg(r.exc, 'recovery_nodes') is not None for r in rs)
            if ok:
                rn = unparse(kwarg(rs[0].exc, 'recovery_nodes'))
                src = [s for s in ast.walk(first) if isinstance(s, ast.Assign) and unparse(s.targets[0]) == rn]
                ok = bool(src) and 'collector.get_final_nodelist()' in unparse(src[0].value)
            why = 'the first handler that matches a parse error is `except %s` and %s' % (
                unparse(first.type) if first.type is not None else '',
                're-raises it as is' if any(isinstance(r, ast.Raise) and r.exc is None for r in ast.walk(first))
                else 'does not attach the collector\'s node list')
        ctx.decide('R06d', ok, gm, first or t,
                   'parse errors leaving the collector are re-raised with recovery_nodes = final node list',
                   '%s: the nodes parsed before the error are lost in tolerant mode' % why,
                   construct='parse: first matching handler')
        fam_ok = first is not None and unparse(first.type) == 'LatexWalkerParseError'
        ctx.decide('R06d', fam_ok, gm, first or t, 'handler covers the whole parse-error family',
                   'the wrapping handler catches %s, not LatexWalkerParseError: some parse errors pass '
                   'without recovery nodes' % (unparse(first.type) if first is not None and first.type else '?'),
                   construct='parse: handler family')
    unmet = [c for c in iter_own(gp) if isinstance(c, ast.Call) and call_name(c) == 'LatexWalkerNodesParseError'
             and any((not pol) and unparse(t) == 'met_a_required_stop_condition' for t, pol in atomic_facts(c))]
    ok = bool(unmet) and unparse(kwarg(unmet[0], 'recovery_nodes') or ast.Constant(None)) == 'collected_nodelist'
    ctx.decide('R06d', ok, gm, unmet[0] if unmet else gp,
               'unmet-stop error carries the collected node list',
               'the "stop condition not met" error does not carry the collected node list',
               construct='parse: unmet stop condition')

    # ------------------------------------------------------------ R06e
    reads = []
    for mod in repo.modules.values():
        if mod.name.endswith('__main__'):
            continue
        for n_ in ast.walk(mod.tree):
            if isinstance(n_, ast.Attribute) and n_.attr == 'tolerant_parsing' and isinstance(n_.ctx, ast.Load):
                reads.append((mod, n_))
    for mod, n_ in reads:
        f = enclosing_func(n_)
        q = getattr(f, '_qualname', '?')
        in_handler = any(isinstance(p, ast.ExceptHandler) for p in parents(n_))
        is_kw = any(isinstance(p, ast.keyword) for p in parents(n_)) or any(
            isinstance(p, ast.Dict) for p in parents(n_))
        ok = in_handler or is_kw or q.endswith('check_tolerant_parsing_ignore_error') or \
            q.startswith('_pyltxenc2_') or q.endswith('parse_flags')
        ctx.decide('R06e', ok, mod, enclosing_stmt(n_) or n_,
                   'read inside error handling / forwarded as an option',
                   'tolerant_parsing is read in %s outside exception handling: the control flow of an '
                   'error-free parse depends on the mode, so tolerant and strict results can differ on '
                   'valid input' % q, construct='%s: %s' % (q, short(enclosing_stmt(n_) or n_, 60)))
    n_calls = 0
    for mod in repo.modules.values():
        for c in ast.walk(mod.tree):
            if isinstance(c, ast.Call) and call_name(c) == 'check_tolerant_parsing_ignore_error' and c.args:
                n_calls += 1
                a = c.args[0]
                f = enclosing_func(c)
                ok = isinstance(a, ast.Call) and call_name(a).startswith('LatexWalker') or (
                    isinstance(a, ast.Name) and (any(
                        isinstance(p, ast.ExceptHandler) and p.name == a.id for p in parents(c)) or any(
                        isinstance(s, ast.Assign) and unparse(s.targets[0]) == a.id and
                        isinstance(s.value, ast.Call) and call_name(s.value).startswith('LatexWalker')
                        for s in ast.walk(f)) or any(
                        isinstance(s, ast.Assign) and unparse(s.targets[0]) == a.id and
                        unparse(s.value) in ('exc_value',) for s in ast.walk(f))))
                ctx.decide('R06e', bool(ok), mod, c, 'argument is a caught or freshly constructed error',
                           'check_tolerant_parsing_ignore_error is consulted with %s, not with an error'
                           % short(a), construct='%s: %s' % (getattr(f, '_qualname', '?'), short(c, 50)),
                           trivial=True)
    ctx.analysed['tolerant_parsing_reads'] = len(reads)
    ctx.analysed['tolerance_check_calls'] = n_calls
    _retry_progress(ctx, repo, _flat_recursion(ctx, repo))
    _nodelist_position_fallback(ctx, repo)
    _optional_recovery_attributes(ctx, repo)
    # a closing token that reaches the dispatcher is rejected there (with recovery past it): otherwise
    # the math/group parser it is handed to reports "no opening delimiter", consumes nothing, and the
    # tolerant collector reads the same token again for ever (shared with C05 R05e)
    from . import c05
    c05.stray_closers(c05._Sub(ctx, 'R06i'), 'R06i', repo)
    ctx.assume('termination is decided only through token-level progress (R06b, C11 R11a); implicit '
               'exceptions only through the crash-construct rules')
    # ---- R06j (C01 R01f): whitespace read in front of a token is part of the content parsed
    # before an error at that token
    ctx.rule('R06j', 'the whitespace in front of every token is turned into a node or handed on exactly once on '
                     'every path of process_one_token, also on the paths that end in the error for a stray '
                     'closing token: content before the first error is kept (C01 R01f)', 1)
    from . import c01 as _c01
    from .. import core as _core
    _core.run_proxied(ctx, _c01, 'R06j', ('R01f',))

    # ---- R06k: attributes attached to foreign objects on some paths only are read with a default
    ctx.rule('R06k', 'an attribute that is attached to an object of another class from outside (the legacy '
                     '_legacy_pyltxenc2_* markers on the parsed arguments) is optional: it is read with '
                     'getattr(obj, name, default), never as obj.name -- after a recovered error the carrier is '
                     'None or was not produced by the code that attaches the marker', 2)
    attached = {}
    for mod_ in repo.modules.values():
        for n_ in ast.walk(mod_.tree):
            if isinstance(n_, ast.Attribute) and isinstance(n_.ctx, ast.Store) and n_.attr.startswith('_legacy_') \
                    and not (isinstance(n_.value, ast.Name) and n_.value.id == 'self'):
                attached.setdefault(n_.attr, []).append((mod_, n_))
    n_opt = 0
    for mod_ in sorted(repo.modules.values(), key=lambda m_: m_.name):
        for n_ in ast.walk(mod_.tree):
            if isinstance(n_, ast.Attribute) and isinstance(n_.ctx, ast.Load) and n_.attr in attached:
                n_opt += 1
                ctx.refuted('R06k', mod_, enclosing_stmt(n_) or n_,
                            '%s is read as a plain attribute (%s) although it is attached from outside on some '
                            'objects only: when the arguments could not be parsed (tolerant recovery) the carrier '
                            'is None or carries no marker and AttributeError escapes the tolerant parse'
                            % (n_.attr, short(n_, 80)), construct='read of ' + n_.attr)
            if isinstance(n_, ast.Call) and isinstance(n_.func, ast.Name) and n_.func.id == 'getattr' and \
                    len(n_.args) >= 2 and isinstance(n_.args[1], ast.Constant) and n_.args[1].value in attached:
                n_opt += 1
                ctx.decide('R06k', len(n_.args) == 3, mod_, n_, 'read with a default: ' + short(n_, 80),
                           'getattr(%s, %r) without a default raises AttributeError when the marker was not attached'
                           % (short(n_.args[0], 40), n_.args[1].value), construct='read of ' + n_.args[1].value)
    if not attached:
        ctx.unknown('R06k', repo.mod('pylatexenc.macrospec._argumentsparser'), None,
                    'no externally attached marker attribute found', construct='attached attributes')

    # ---- R06l (shared with C05 R05k)
    ctx.rule('R06l', 'building or formatting a located error never raises: the source string is not indexed at the '
                     'error position without an in-range fact (C05 R05k)', 0)
    from . import c05 as _c05
    _c05.error_text_indexing(ctx, 'R06l', repo)

    # ---- R06m: optional fields of error objects
    ctx.rule('R06m', 'a field of the error classes that __init__ copies from a parameter defaulting to None '
                     '(error_type_info, recovery_*) and that no other class defines is dereferenced only where a '
                     'non-None fact on it holds: errors raised without that information are recovered like the others', 0)
    from .. import grules as _gr
    exm = repo.mod('pylatexenc.latexnodes._exctypes')
    nullable = set()
    for q_, f_ in exm.functions.items():
        if q_.endswith('.__init__'):
            dfl = dict(zip([a_.arg for a_ in f_.args.args][len(f_.args.args) - len(f_.args.defaults):], f_.args.defaults))
            for st_ in iter_own(f_):
                if isinstance(st_, ast.Assign) and len(st_.targets) == 1 and is_self_attr(st_.targets[0]) and \
                        isinstance(st_.value, ast.Name) and st_.value.id in dfl and \
                        isinstance(dfl[st_.value.id], ast.Constant) and dfl[st_.value.id].value is None:
                    nullable.add(st_.targets[0].attr)
    # only fields that belong to the error classes alone
    for mod_ in repo.modules.values():
        if mod_ is exm:
            continue
        for n_ in ast.walk(mod_.tree):
            if isinstance(n_, ast.Attribute) and isinstance(n_.ctx, ast.Store) and isinstance(n_.value, ast.Name) and \
                    n_.value.id == 'self':
                nullable.discard(n_.attr)
    ctx.analysed['nullable_error_fields'] = sorted(nullable)
    n_nf = 0
    for mod_, q_, f_ in repo.all_functions():
        for x_ in iter_own(f_):
            base_ = None
            if isinstance(x_, ast.Attribute) and isinstance(x_.value, ast.Attribute) and x_.value.attr in nullable:
                base_ = x_.value
            if isinstance(x_, ast.Subscript) and isinstance(x_.ctx, ast.Load) and isinstance(x_.value, ast.Attribute) \
                    and x_.value.attr in nullable:
                base_ = x_.value
            if base_ is None:
                continue
            n_nf += 1
            bt_ = unparse(base_)
            facts_ = [(unparse(t_), p_) for t_, p_ in atomic_facts(x_)] + \
                     [(unparse(t_), p_) for t_, p_ in _gr.short_circuit_facts(x_)]
            ok_ = any((t_ == bt_ + ' is not None' and p_) or (t_ == bt_ + ' is None' and not p_) or (t_ == bt_ and p_)
                      for t_, p_ in facts_)
            ctx.decide('R06m', ok_, mod_, enclosing_stmt(x_) or x_, '%s: %s read under a non-None fact' % (q_, short(x_, 40)),
                       '%s reads %s although %s is None for errors raised without it (an unterminated verbatim '
                       'environment, a dangling \\verb): AttributeError -- in tolerant mode the exception escapes instead '
                       'of the error being recovered' % (q_, short(x_, 50), bt_), construct='%s: %s' % (q_, short(x_, 40)))
    ctx.holds('R06m', exm, None, '%d dereference(s) of nullable error-only fields %s examined' % (n_nf, sorted(nullable)),
              construct='nullable error field scan', trivial=True)

    # ---- R06o (C17 P2/P4): a derived parsing state never carries stale lookup tables
    ctx.rule('R06o', 'the lookup tables cached on a parsing state are reused from the parent only when no field they depend '
                     'on changes: with a stale table the math parser looks up the closing delimiter in None / the wrong table '
                     'and TypeError or KeyError -- not a parse error -- escapes the tolerant parse (C17 P2, P4)', 4)
    from . import c17 as _c17
    _c17.run(_c05._filtered(_c05._Sub(ctx, 'R06o'), ('P2', 'P4')))

    # ---- R06t (C05 G8): an error that is to be recovered from has a position
    ctx.rule('R06t', 'every parse error constructed in code reachable from parse_content is given a position that cannot be '
                     'None: recovery places the reader and the partial nodes by that position, and an error without one is the '
                     'only kind a tolerant parse might refuse to recover from (C05 G8)', 25)
    from . import c05 as _c05t
    _core.run_proxied(ctx, _c05t, 'R06t', ('G8',))

    # ---- R06s: a terminator is cut off only where it is there
    ctx.rule('R06s', 'parser code removes a terminator from the end (start) of what it read -- `X[:-len(T)]`, `X[len(T):]` -- only '
                     'under `X.endswith(T)` (`X.startswith(T)`): when the input ended before the terminator (the case tolerant '
                     'mode recovers from) the last len(T) characters are content, not terminator '
                     '(grules.unguarded_affix_strips; exercised on a built-in example on every run)', 1)
    from .. import grules as _gr6
    ex6 = ast.parse('def f(v, info):\n e = info.end_code\n v = v[:-len(e)]\n return v\n')
    set_parents(ex6)
    if len(list(_gr6.unguarded_affix_strips(ex6.body[0]))) != 1:
        raise AnalysisError('R06s: the rule no longer fires on its built-in example')
    n_as, n_sl = 0, 0
    for mod_ in sorted(repo.modules.values(), key=lambda m_: m_.name):
        if not mod_.name.startswith(PARSER_LAYER):
            continue
        for q_, f_ in sorted(mod_.functions.items()):
            n_sl += len([1 for x_ in ast.walk(f_) if isinstance(x_, ast.Subscript) and isinstance(x_.slice, ast.Slice)])
            for x_, xt_, yt_, kind_ in _gr6.unguarded_affix_strips(f_):
                n_as += 1
                ctx.refuted('R06s', mod_, x_, '%s cuts len(%s) characters off the %s of %s (%s) on a path without `%s.%s(%s)`: '
                            'when the input ends before the terminator -- an unterminated verbatim environment, which tolerant '
                            'mode keeps as far as it was read -- the last characters of the content are lost'
                            % (q_, yt_, 'end' if kind_ == 'endswith' else 'start', xt_, short(x_, 40), xt_, kind_, yt_),
                            construct='%s: %s' % (q_, short(x_, 40)))
    ctx.holds('R06s', repo.mod(EXPR), None, 'no unguarded terminator strip among %d slices of the parser layer' % n_sl,
              construct='terminator strip scan')

    # ---- R06r (C11 R11e): recovery tokens keep the white space in front of them
    ctx.rule('R06r', 'every token the reader builds -- the recovery placeholders of token errors included -- carries the pre_space '
                     'its method was given: in tolerant mode the blank in front of a broken token stays part of the content '
                     'before the error (C11 R11e)', 1)
    from . import c11 as _c11
    _core.run_proxied(ctx, _c11, 'R06r', ('R11e',))

    # ---- R06q: the opening-delimiter error carries the token it was raised for
    ctx.rule('R06q', 'every raise of LatexDelimitedExpressionParserOpeningDelimiterNotFound passes first_tokens with at least one '
                     'token that is not known to be None on that path: the handler in LatexDelimitedExpressionParser.parse() '
                     'positions the recovery at first_tokens[0] (it dereferences it without a None test on the path of a '
                     'required argument), so an empty list ends in AttributeError, which escapes the tolerant parse', 1)
    n_od = 0
    for mod_ in sorted(repo.modules.values(), key=lambda m_: m_.name):
        if not mod_.name.startswith('pylatexenc.latexnodes') and not mod_.name.startswith('pylatexenc.macrospec'):
            continue
        for r_ in ast.walk(mod_.tree):
            if not (isinstance(r_, ast.Raise) and isinstance(r_.exc, ast.Call)
                    and call_name(r_.exc) == 'LatexDelimitedExpressionParserOpeningDelimiterNotFound'):
                continue
            n_od += 1
            ft = kwarg(r_.exc, 'first_tokens') or (r_.exc.args[0] if r_.exc.args else None)
            facts = {(unparse(t_), p_) for t_, p_ in atomic_facts(r_)}
            okq = isinstance(ft, (ast.List, ast.Tuple)) and len(ft.elts) >= 1 and not any(
                (isinstance(e_, ast.Constant) and e_.value is None) or ('%s is None' % unparse(e_), True) in facts
                or ('%s is not None' % unparse(e_), False) in facts for e_ in ft.elts)
            fq_ = enclosing_func(r_)
            ctx.decide('R06q', okq, mod_, r_, 'first_tokens=%s' % short(ft, 40) if ft is not None else 'first_tokens',
                       'LatexDelimitedExpressionParserOpeningDelimiterNotFound is raised with first_tokens=%s%s: the handler of a '
                       'required delimited argument reads recovery_token.pos on None -> AttributeError in tolerant (and strict) '
                       'mode, e.g. when the input ends where the argument should begin'
                       % (short(ft, 40) if ft is not None else 'nothing',
                          '' if isinstance(ft, (ast.List, ast.Tuple)) and not ft.elts else ' (an element is None on this path)'
                          if isinstance(ft, (ast.List, ast.Tuple)) else ''),
                       construct='%s: raise OpeningDelimiterNotFound' % getattr(fq_, 'name', '?'))
    if not n_od:
        ctx.unknown('R06q', repo.mod('pylatexenc.latexnodes.parsers._delimited'), None,
                    'no raise of the opening-delimiter error found', construct='raise OpeningDelimiterNotFound')

    # ---- R06n: parsers are run through parse_content()
    ctx.rule('R06n', 'a parser object\'s parse() is called by LatexWalker.parse_content() only: that is where a parse error '
                     'is turned into recovered nodes in tolerant mode (a direct call loses the construct)', 1)
    for mod_ in sorted(repo.modules.values(), key=lambda m_: m_.name):
        if not mod_.name.startswith('pylatexenc.') or mod_.name.endswith('__main__'):
            continue
        for q_, f_ in sorted(mod_.functions.items()):
            for c_ in iter_own(f_):
                if isinstance(c_, ast.Call) and isinstance(c_.func, ast.Attribute) and c_.func.attr == 'parse' and (
                        kwarg(c_, 'token_reader') is not None or kwarg(c_, 'latex_walker') is not None or len(c_.args) >= 3):
                    ctx.decide('R06n', q_.endswith('.parse_content'), mod_, c_, 'parse() called from parse_content',
                               '%s calls %s directly: an error raised by that parser is not recovered by parse_content() '
                               '(in tolerant mode an unterminated verbatim construct is dropped from the tree, leaving a '
                               'hole) and no open context is recorded' % (q_, short(c_, 50)),
                               construct='%s: %s' % (q_, short(c_, 40)))

    return 'other', (
        'Exception-escape analysis in the tolerant configuration (the tolerance check and the '
        'parse_content context manager suppress the parse-error family), the recovery hand-over '
        'between __exit__ and parse_content, progress of token-level recovery (affine), the handler '
        'that attaches partial nodes, and mode non-interference (tolerant_parsing is read only '
        'inside error handling, so an error-free parse executes the same statements in both modes).')


def _block_of(st):
    p = getattr(st, '_parent', None)
    for fld in ('body', 'orelse', 'finalbody'):
        lst = getattr(p, fld, None)
        if isinstance(lst, list) and any(s is st for s in lst):
            return lst
    return [st]
