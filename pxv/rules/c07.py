# -*- coding: utf-8 -*-
"""C07  latex2text is total: a string for every input and option set."""
import ast
from .. import core
from ..core import (AnalysisError, short, unparse, iter_own, call_name, call_recv, kwarg,
                    is_self_attr, atomic_facts, parents, enclosing_stmt, enclosing_func, const_value)
from .. import tables, symex
from ..engine import walk_fn
from . import totality

L2T = 'pylatexenc.latex2text'
L2TD = 'pylatexenc.latex2text._defaultspecs'
NODES = 'pylatexenc.latexnodes.nodes'

KIND_OF_TABLE = {'macros': 'LatexMacroNode', 'environments': 'LatexEnvironmentNode',
                 'specials': 'LatexSpecialsNode'}


def node_fields(repo):
    """class name -> attribute names available on instances (fields, redundant fields,
    properties, methods, base-class names)."""
    m = repo.mod(NODES)
    base = {'pos', 'pos_end', 'parsing_state', 'latex_walker', 'len', '_fields', '_redundant_fields'}
    out = {}
    for q, c in m.classes.items():
        if not repo.is_subclass(c.name, 'LatexNode'):
            continue
        names = set(base)
        for cn in repo.mro_names(c.name):
            cd = repo.find_class(cn)
            if cd is None:
                continue
            for n in ast.walk(cd):
                if isinstance(n, ast.keyword) and n.arg in ('_fields', '_redundant_fields') and \
                        isinstance(n.value, (ast.Tuple, ast.List)):
                    names |= {const_value(e) for e in n.value.elts}
                elif isinstance(n, ast.FunctionDef) and getattr(n, '_parent', None) is cd:
                    names.add(n.name)
                elif isinstance(n, ast.Attribute) and isinstance(n.ctx, ast.Store) and \
                        isinstance(n.value, ast.Name) and n.value.id == 'self':
                    names.add(n.attr)
        out[c.name] = names
    return out


def _parsed_arguments_coherence(ctx, repo):
    names = {'ParsedArguments', 'ParsedMacroArgs'}
    # subclasses (their super().__init__ calls count as constructions)
    subs = set()
    for mod in repo.modules.values():
        for cn, c in mod.classes.items():
            if any(unparse(b).split('.')[-1] in names for b in c.bases):
                subs.add(cn.split('.')[-1])
    n = 0
    for mod in sorted(repo.modules.values(), key=lambda m_: m_.name):
        for c in ast.walk(mod.tree):
            if not isinstance(c, ast.Call):
                continue
            cn = call_name(c)
            is_ctor = cn in names
            if cn == '__init__' and isinstance(c.func, ast.Attribute) and isinstance(c.func.value, ast.Call) \
                    and call_name(c.func.value) == 'super' and c.func.value.args and \
                    unparse(c.func.value.args[0]) in subs:
                is_ctor = True
            if not is_ctor:
                continue
            kws = {k.arg for k in c.keywords if k.arg}
            if any(k.arg is None for k in c.keywords):
                continue            # **kwargs forwarded: decided at the forwarding caller
            npos = len(c.args)
            has_list = 'argnlist' in kws or npos >= 1
            has_spec = bool(kws & {'arguments_spec_list', 'argspec'}) or npos >= 2
            n += 1
            fn = enclosing_func(c)
            cons = '%s: %s' % (getattr(fn, '_qualname', '<module>'), short(c, 70))
            if has_spec and not has_list:
                ctx.refuted('R07h', mod, c, 'a ParsedArguments object is built with a specification list '
                            'but without argument nodes: for a specification shaped like "[{" the legacy '
                            'view reads argnlist[0] of the empty list -- IndexError when latex2text looks '
                            'at node.nodeoptarg / node.nodeargs', construct=cons)
            else:
                ctx.holds('R07h', mod, c, 'specification and node list given together'
                          if has_spec else 'no specification given', construct=cons, trivial=not has_spec)
    ctx.analysed['parsed_arguments_constructions'] = n


def run(ctx):
    repo = ctx.repo
    prog = totality.program(repo)
    entry = prog.find(L2T, 'LatexNodes2Text.latex_to_text')
    m = repo.mod(L2T)
    ctx.rule('R07b', 'node-kind typestate: in latex2text, an attribute that only some node kinds '
                     'have (displaytype, delimiters, macroname, nodeargd, ...) is read from a node '
                     'only where the dominating isNodeType facts restrict the node to kinds that '
                     'have it (kinds of each parameter are inferred from the node_to_text dispatch, '
                     'the default tables and calls that pass the node on)', 40)
    ctx.rule('R07c', 'option values: the math modes validated in __init__ are exactly the arms of '
                     'math_node_to_text; every strict_latex_spaces key that is subscripted exists in '
                     'every preset and in the default dictionary', 5)
    ctx.rule('R07d', 'escape set of LatexNodes2Text.latex_to_text (tolerant parsing underneath): no '
                     'exception escapes except reviewed configuration errors', 30)
    ctx.rule('R07e', 'cross-table: attributes that the rendering code reads from a text spec exist '
                     'on the spec class of that kind, or the default table guarantees the guard that '
                     'precedes the read (every SpecialsTextSpec has a non-empty replacement, since '
                     'the fall-through reads .discard, which that class does not define)', 9)
    ctx.rule('R07i', 'the lookup tables cached on a parsing state are reused from the parent only when no '
                     'field they depend on changed (C17 P2/P4): with a stale table, math inside a math '
                     'environment makes the tokenizer raise TypeError, which tolerant parsing does not catch', 4)
    ctx.rule('R07h', 'every ParsedArguments (ParsedMacroArgs) object is built with both its '
                     'specification list and its argument-node list, or with neither: the legacy '
                     'nodeoptarg/nodeargs view, which latex2text reads, indexes the node list by the '
                     'shape of the specification (IndexError when only the specification is given)', 4)
    ctx.rule('R07g', 'generic renderer methods guard the legacy view node.nodeargs against None '
                     'before len()/subscript/iteration (it is None when the arguments of a macro '
                     'could not be parsed)', 2)
    ctx.rule('R07f', 'every replacement callable of the default latex2text table accepts the '
                     'arguments apply_simplify_repl passes (node, and l2tobj/macroname/... by name)', 20)
    totality.declare_g(ctx)

    lt = tables.L2TTable(repo)
    wt = tables.WalkerTable(repo)
    # the replacement callables of the default table are invoked through a stored value
    # (simplify_repl): make them entry points of the reachability / crash-construct scan
    extra = []
    for e in lt.all_entries:
        r = e['repl']
        if isinstance(r, tables.Fn):
            if isinstance(r.node, ast.Lambda) and id(r.node) in prog.lambda_fns:
                extra.append(prog.lambda_fns[id(r.node)])
            else:
                extra += [f for f in prog.fns.values() if f.node is r.node or (
                    isinstance(r.node, ast.Lambda) and any(x is r.node for x in ast.walk(f.node))
                    and isinstance(f.node, ast.FunctionDef))]
        elif isinstance(r, tables._Imported):
            extra += prog.by_name.get(r.name.rsplit('.', 1)[-1], [])
    # the property quantifies over every combination of the documented options: the constructor is
    # part of the entry surface
    ctor = prog.cls_methods.get('LatexNodes2Text', {}).get('__init__')
    if ctor is None:
        raise AnalysisError('anchor vanished: LatexNodes2Text.__init__')
    extra.append(ctor)
    extra = list({f.key: f for f in extra}.values())
    ctx.analysed['table_callable_entry_points'] = len(extra)
    totality.escape_obligations(ctx, 'R07d', repo, entry, True, (), 'nothing')
    reach = totality.g_obligations(ctx, 'G', repo, [entry] + extra)
    fields = node_fields(repo)
    all_special = set()
    for k, v in fields.items():
        all_special |= v
    common = set.intersection(*fields.values()) if fields else set()

    # ------------------------------------------------------------ R07b
    kinds = {}      # (fn key, param name) -> set of node classes

    def add(fnkey, pname, ks):
        cur = kinds.setdefault((fnkey, pname), set())
        if not ks <= cur:
            cur |= ks
            return True
        return False

    meths = m.methods('LatexNodes2Text')
    ntt = meths.get('node_to_text')
    if ntt is None:
        raise AnalysisError('anchor vanished: LatexNodes2Text.node_to_text')
    from .. import shapes
    for cls, mname in sorted(shapes.node_dispatch(ntt).items()):
        tgt = prog.cls_methods.get('LatexNodes2Text', {}).get(mname)
        if tgt is not None and len(tgt.node.args.args) > 1:
            add(tgt.key, tgt.node.args.args[1].arg, {cls})
    # table callables
    n_callables = 0
    for e in lt.all_entries:
        r = e['repl']
        tgts = []
        if isinstance(r, tables.Fn):
            tgts = [r.node]
        elif isinstance(r, tables._Imported):
            for f in prog.by_name.get(r.name.rsplit('.', 1)[-1], []):
                tgts.append(f.node)
        for node in tgts:
            n_callables += 1
            if isinstance(node, ast.Lambda):
                f = enclosing_func(node)
                key = ('lambda', id(node))
                kinds.setdefault((key, node.args.args[0].arg), set()).add(KIND_OF_TABLE[e['kind']])
                _LAMBDAS[id(node)] = (node, e, lt.mod)
            elif isinstance(node, ast.FunctionDef):
                fk = [k for k, v in prog.fns.items() if v.node is node]
                if fk and node.args.args:
                    add(fk[0], node.args.args[0].arg, {KIND_OF_TABLE[e['kind']]})
    # propagate through calls that pass the parameter on (positionally)
    changed = True
    rounds = 0
    while changed and rounds < 10:
        changed = False
        rounds += 1
        for (fnkey, pname), ks in list(kinds.items()):
            if isinstance(fnkey, tuple):
                node = _LAMBDAS[fnkey[1]][0]
                owner = None
                calls = [c for c in ast.walk(node.body) if isinstance(c, ast.Call)]
            else:
                owner = prog.fns[fnkey]
                calls = [c for c in walk_fn(owner.node) if isinstance(c, ast.Call)]
            for c in calls:
                for idx, a in enumerate(c.args):
                    if isinstance(a, ast.Name) and a.id == pname:
                        # kinds at the call site (facts)
                        ks_here = _restrict(ks, pname, atomic_facts(c), fields)
                        tg = prog.resolve(owner, c) if owner is not None else _resolve_in_lambda(prog, c)
                        for g in tg:
                            if not g.mod.name.startswith('pylatexenc.latex2text'):
                                continue
                            ps = [x.arg for x in g.node.args.args]
                            if ps and ps[0] in ('self', 'cls'):
                                ps = ps[1:]
                            if idx < len(ps):
                                if add(g.key, ps[idx], ks_here):
                                    changed = True
    n_reads = 0
    for (fnkey, pname), ks in sorted(kinds.items(), key=lambda x: str(x[0])):
        if isinstance(fnkey, tuple):
            node, e, mod = _LAMBDAS[fnkey[1]]
            body = [node.body]
            label = 'lambda for \\%s' % e['name']
        else:
            f = prog.fns[fnkey]
            if not f.mod.name.startswith('pylatexenc.latex2text'):
                continue
            body = list(walk_fn(f.node))
            mod, label = f.mod, f.qual
        seen = set()
        for n in (x for b in body for x in (ast.walk(b) if isinstance(b, ast.AST) and isinstance(fnkey, tuple) else [b])):
            if isinstance(n, ast.Attribute) and isinstance(n.value, ast.Name) and n.value.id == pname \
                    and isinstance(n.ctx, ast.Load) and n.attr in all_special and n.attr not in common:
                ks_here = _restrict(ks, pname, atomic_facts(n), fields)
                lacking = sorted(k for k in ks_here if n.attr not in fields.get(k, set()))
                key = (n.attr, tuple(lacking))
                n_reads += 1
                cons = '%s: %s.%s with kinds %s' % (label, pname, n.attr, sorted(ks_here))
                if lacking:
                    if key in seen:
                        continue
                    seen.add(key)
                    ctx.refuted('R07b', mod, enclosing_stmt(n) or n,
                                '%s.%s is read where %s can be a %s, which has no attribute %s: '
                                'AttributeError (the isNodeType facts dominating this read do not '
                                'exclude that kind)' % (pname, n.attr, pname, '/'.join(lacking), n.attr),
                                construct=cons)
                else:
                    ctx.holds('R07b', mod, enclosing_stmt(n) or n, 'all kinds here have .' + n.attr,
                              construct=cons, trivial=(len(ks_here) == 1))
    ctx.analysed['kind_typed_parameters'] = len(kinds)
    ctx.analysed['kind_specific_reads'] = n_reads
    ctx.analysed['table_callables'] = n_callables

    # ------------------------------------------------------------ R07c
    init = meths.get('__init__')
    mf = meths.get('math_node_to_text')
    arms = {n.comparators[0].value for n in iter_own(mf) if isinstance(n, ast.Compare)
            and is_self_attr(n.left, 'math_mode') and isinstance(n.comparators[0], ast.Constant)}
    valid = None
    for n in iter_own(init):
        if isinstance(n, ast.Compare) and is_self_attr(n.left, 'math_mode') and \
                isinstance(n.ops[0], ast.NotIn) and core.const_members(m, n.comparators[0]) is not None:
            valid = set(core.const_members(m, n.comparators[0]))
    ctx.decide('R07c', valid is not None and valid == arms, m, mf,
               'validated math modes = arms (%s): the final RuntimeError is dead' % sorted(arms),
               'math modes accepted by __init__ (%s) and arms of math_node_to_text (%s) differ: an '
               'accepted option value ends in RuntimeError' % (sorted(valid or ()), sorted(arms)),
               construct='math_mode values vs arms')
    predef = m.toplevel_assign('_strict_latex_spaces_predef')
    presets = {}
    if isinstance(predef, ast.Dict):
        for k, v in zip(predef.keys, predef.values):
            if isinstance(v, ast.Dict):
                presets[const_value(k)] = {const_value(x) for x in v.keys}
    pf = m.functions.get('_parse_strict_latex_spaces_dict')
    dflt = set()
    if pf is not None:
        for s in iter_own(pf):
            if isinstance(s, ast.Assign) and isinstance(s.value, ast.Dict) and unparse(s.targets[0]) == 'd':
                dflt = {const_value(x) for x in s.value.keys}
    used = set()
    for mod in repo.modules.values():
        if not mod.name.startswith('pylatexenc.latex2text'):
            continue
        for n in ast.walk(mod.tree):
            if isinstance(n, ast.Subscript) and isinstance(n.value, ast.Attribute) and \
                    n.value.attr == 'strict_latex_spaces' and isinstance(n.slice, ast.Constant):
                used.add(n.slice.value)
    for k in sorted(used):
        missing = [p for p, ks in presets.items() if k not in ks] + ([] if k in dflt else ['<default dict>'])
        ctx.decide('R07c', not missing and bool(presets), m, predef,
                   'key %r exists in every preset and in the default dictionary' % k,
                   'strict_latex_spaces[%r] is read but the key is missing in %s: KeyError with that '
                   'policy' % (k, missing), construct='strict_latex_spaces key %r' % k)

    # ------------------------------------------------------------ R07g
    n_g = 0
    for name, f in sorted(meths.items()):
        for n in walk_fn(f):
            if isinstance(n, ast.Attribute) and n.attr == 'nodeargs' and isinstance(n.ctx, ast.Load):
                par = getattr(n, '_parent', None)
                use = None
                if isinstance(par, ast.Call) and call_name(par) == 'len' and par.args and par.args[0] is n:
                    use = 'len()'
                elif isinstance(par, ast.Subscript) and par.value is n:
                    use = 'subscript'
                elif isinstance(par, (ast.For, ast.comprehension)) and par.iter is n:
                    use = 'iteration'
                if use is None:
                    continue
                n_g += 1
                txt = unparse(n)
                from .. import grules as _gr
                rv = _gr.g7_reviewed(f, 'LatexNodes2Text.' + name, unparse(par)) if use == 'subscript' else None
                if rv:
                    ctx.holds('R07g', m, enclosing_stmt(n) or n, 'reviewed: ' + rv,
                              construct='%s: %s of %s' % (name, use, txt))
                    continue
                ok = any((pol and unparse(t) in (txt, txt + ' is not None')) or
                         ((not pol) and unparse(t) in (txt + ' is None', 'not ' + txt))
                         for t, pol in atomic_facts(n))
                ctx.decide('R07g', ok, m, enclosing_stmt(n) or n,
                           '%s of %s guarded against None' % (use, txt),
                           '%s of %s without a None guard: the legacy view is None for a macro node '
                           'whose arguments could not be parsed (nodeargd=None in tolerant mode): '
                           'TypeError' % (use, txt), construct='%s: %s of %s' % (name, use, txt))
    ctx.analysed['nodeargs_uses_in_renderer'] = n_g

    # ------------------------------------------------------------ R07h
    _parsed_arguments_coherence(ctx, repo)
    # ------------------------------------------------------------ R07i (shared with C17 / C05 R05f)
    from . import c17, c05
    c17.run(c05._filtered(c05._Sub(ctx, 'R07i'), ('P2', 'P4')))

    # ------------------------------------------------------------ R07e
    spec_attrs = {}
    for cn in ('MacroTextSpec', 'EnvironmentTextSpec', 'SpecialsTextSpec'):
        c = m.cls(cn)
        spec_attrs[cn] = {n.attr for n in ast.walk(c) if isinstance(n, ast.Attribute)
                          and isinstance(n.ctx, ast.Store) and isinstance(n.value, ast.Name)
                          and n.value.id == 'self'}
    for fname, cn, specvars in (('macro_node_to_text', 'MacroTextSpec', ('mac',)),
                                ('environment_node_to_text', 'EnvironmentTextSpec', ('envdef',)),
                                ('specials_node_to_text', 'SpecialsTextSpec', ('sspec', 'spec'))):
        f = meths.get(fname)
        if f is None:
            raise AnalysisError('anchor vanished: ' + fname)
        for n in ast.walk(f):
            if isinstance(n, ast.Attribute) and isinstance(n.value, ast.Name) and n.value.id in specvars \
                    and isinstance(n.ctx, ast.Load):
                if n.attr in spec_attrs[cn]:
                    ctx.holds('R07e', m, enclosing_stmt(n) or n, '%s defines .%s' % (cn, n.attr),
                              construct='%s: %s.%s' % (fname, n.value.id, n.attr), trivial=True)
                    continue
                # latent: allowed only if the table guarantees the guard before it
                facts = [(unparse(t), pol) for t, pol in atomic_facts(n)]
                guard = any((not pol) and t.endswith('.simplify_repl') for t, pol in facts)
                kind = {'MacroTextSpec': 'macros', 'EnvironmentTextSpec': 'environments',
                        'SpecialsTextSpec': 'specials'}[cn]
                empty = [e['name'] for e in lt.all_entries if e['kind'] == kind and not e['repl']]
                ctx.decide('R07e', guard and not empty, m, enclosing_stmt(n) or n,
                           '%s has no .%s, but the read is behind `if <spec>.simplify_repl` and every '
                           'default %s entry has a non-empty replacement' % (cn, n.attr, kind),
                           '%s.%s is read but %s does not define it, and the default table has %s '
                           'entries with an empty replacement (%s) that reach this read: '
                           'AttributeError when such a construct is rendered'
                           % (n.value.id, n.attr, cn, kind, empty[:5]),
                           construct='%s: %s.%s' % (fname, n.value.id, n.attr))

    # ------------------------------------------------------------ R07f
    asr = meths.get('apply_simplify_repl')
    passed = {'l2tobj', 'environmentname', 'macroname', 'specials_chars'}
    for e in lt.all_entries:
        r = e['repl']
        node = None
        if isinstance(r, tables.Fn):
            node = r.node
        elif isinstance(r, tables._Imported):
            fs = prog.by_name.get(r.name.rsplit('.', 1)[-1], [])
            node = fs[0].node if fs else None
        if node is None:
            continue
        a = node.args
        names = [x.arg for x in a.args]
        ndef = len(a.defaults)
        required = names[:len(names) - ndef]
        extra = [x for x in required[1:] if x not in passed]
        ctx.decide('R07f', len(required) >= 1 and not extra, lt.mod, node,
                   'callable(%s) can be called as f(node, **known keywords)' % ', '.join(names),
                   'replacement callable for %s requires parameters %s that apply_simplify_repl never '
                   'passes: TypeError when the construct is rendered' % (e['name'], extra or names),
                   construct='callable of %s %s' % (e['kind'], e['name']))
    ctx.assume('third-party simplify_repl callables and custom contexts are outside the rule; bounded '
               'running time is not decided')
    # ---- R07j: per-converter memo dictionaries
    ctx.rule('R07j', 'a value remembered per converter object (self.X[key] = value, read back later) is keyed by a '
                     'one-to-one function of everything it was computed from: a colliding key hands a callable the '
                     'keyword arguments of another one (TypeError)', 0)
    from . import c09 as _c09
    nm_ = _c09.object_memos(ctx, 'R07j', repo, lambda name: name.startswith('pylatexenc.latex2text'))
    ctx.holds('R07j', m, None, '%d per-object memo store(s) in latex2text examined' % nm_,
              construct='per-object memo scan', trivial=True)

    # ---- R07k: a recursive renderer is called once per node and path
    ctx.rule('R07k', 'no path of a LatexNodes2Text method renders the same node (list) twice: a second recursive call '
                     'on the same argument doubles the work at every nesting level (time exponential in the depth)', 8)
    RENDER = ('nodelist_to_text', 'node_to_text', '_groupnodecontents_to_text', 'node_arg_to_text')
    n_rk = 0
    for mn_, mf_ in sorted(meths.items()):
        calls_ = [c_ for c_ in iter_own(mf_) if isinstance(c_, ast.Call) and call_name(c_) in RENDER and is_self_attr(c_.func)]
        if not calls_:
            continue
        n_rk += 1
        try:
            pcs = symex.Walker(want_exits=True, want_returns=True, trace=True,
                               is_sink=lambda c_: call_name(c_) in RENDER and is_self_attr(c_.func)).run(mf_)
        except symex.TooManyPaths:
            ctx.unknown('R07k', m, mf_, 'too many paths', construct=mn_ + ': renders once')
            continue
        worst = None
        for cs in pcs:
            if cs.kind not in ('return', 'end', 'raise'):
                continue
            cnt = {}
            for node_, sub_ in [t_ for t_ in cs.env.get('#trace', ()) if isinstance(t_[0], ast.Call)]:
                if getattr(node_, '_parent', None) is not None and any(
                        isinstance(p_, (ast.ListComp, ast.GeneratorExp, ast.For, ast.While)) for p_ in parents(node_)
                        if p_ is not mf_ and mf_ in list(parents(p_))):
                    continue        # one call per element of a loop / comprehension
                k_ = unparse(sub_ if sub_ is not None else node_)
                cnt[k_] = cnt.get(k_, 0) + 1
            for k_, v_ in cnt.items():
                if v_ > 1 and (worst is None or v_ > worst[1]):
                    worst = (k_, v_, cs)
        ctx.decide('R07k', worst is None, m, worst[2].node if worst and worst[2].node is not None else mf_,
                   '%s: every recursive rendering call is made at most once per path' % mn_,
                   '%s evaluates %s %d times on the path [%s]: each level of nesting multiplies the work, so a group '
                   'nested 30 deep (80 characters of input) does not finish'
                   % (mn_, short(ast.parse(worst[0], mode='eval').body, 60) if worst else '', worst[1] if worst else 0,
                      ' & '.join(worst[2].cond_src())[-100:] if worst else ''), construct=mn_ + ': renders once')

    # ---- R07l: constructs parsed by a legacy arguments parser may have no arguments object at all
    ctx.rule('R07l', 'a text replacement callable registered for a macro/environment whose walker specification uses a legacy '
                     'args_parser (\\verb, verbatim, lstlisting: nodeargd is None when their argument is unterminated) reads '
                     'node.nodeargd only under a non-None fact', 0)
    legacy_names = set()
    for tbl_ in (wt.macros, wt.environments):
        for nm_, e_ in tbl_.items():
            if 'args_parser' in getattr(e_['rec'], 'kwargs', {}) and not isinstance(e_['rec'].kwargs['args_parser'], str):
                legacy_names.add(nm_)
    ctx.analysed['legacy_args_parser_names'] = sorted(legacy_names)
    from .. import grules as _gr
    n_lg = 0
    for e_ in lt.all_entries:
        if e_['name'] not in legacy_names or not isinstance(e_['repl'], tables.Fn):
            continue
        fnode_ = e_['repl'].node
        for x_ in ast.walk(fnode_):
            if isinstance(x_, ast.Attribute) and isinstance(x_.value, ast.Attribute) and x_.value.attr == 'nodeargd':
                n_lg += 1
                bt_ = unparse(x_.value)
                facts_ = [(unparse(t_), p_) for t_, p_ in atomic_facts(x_)] + \
                         [(unparse(t_), p_) for t_, p_ in _gr.short_circuit_facts(x_)]
                ok_ = any((t_ == bt_ + ' is not None' and p_) or (t_ == bt_ + ' is None' and not p_) or (t_ == bt_ and p_)
                          for t_, p_ in facts_)
                ctx.decide('R07l', ok_, lt.mod if hasattr(lt, 'mod') else m, enclosing_stmt(x_) or x_,
                           '%s: %s read under a non-None fact' % (e_['name'], short(x_, 40)),
                           'the replacement registered for %r reads %s, but the walker parses %r with a legacy arguments '
                           'parser: when its argument is unterminated (\\verb|abc at the end of the input) the node has '
                           'nodeargd None and latex_to_text raises AttributeError' % (e_['name'], short(x_, 50), e_['name']),
                           construct='replacement of %s: %s' % (e_['name'], short(x_, 40)))
    ctx.holds('R07l', m, None, '%d nodeargd read(s) in replacements of the %d legacy-parsed names' % (n_lg, len(legacy_names)),
              construct='legacy-parsed names scan', trivial=True)
    # ---- R07m: delimiters of a group node are strings
    ctx.rule('R07m', 'every LatexGroupNode is built with string delimiters (latex2text concatenates them): no None', 3)
    for mod_ in sorted(repo.modules.values(), key=lambda m_: m_.name):
        for c_ in ast.walk(mod_.tree):
            if isinstance(c_, ast.Call) and call_name(c_) in ('make_node', 'LatexGroupNode') and (
                    call_name(c_) == 'LatexGroupNode' or (c_.args and unparse(c_.args[0]).endswith('LatexGroupNode'))):
                d_ = kwarg(c_, 'delimiters')
                if isinstance(d_, (ast.Tuple, ast.List)):
                    bad_ = [e2 for e2 in d_.elts if isinstance(e2, ast.Constant) and not isinstance(e2.value, str)]
                    ctx.decide('R07m', not bad_, mod_, c_, 'delimiters %s are strings' % short(d_, 30),
                               'a group node is built with delimiters=%s: latex2text concatenates the delimiters with the '
                               'contents when keep_braced_groups applies (minlen 0 keeps every group), which raises '
                               'TypeError for None' % short(d_, 30), construct='%s: group delimiters %s' % (mod_.relpath, short(d_, 30)))

    from ..grules import short_circuit_facts as _scf7
    # ---- R07q: nodeargd of a node the converter is handed may be None
    ctx.rule('R07q', 'the converter class reads `<node>.nodeargd.<x>` only behind a test that nodeargd is set (every site of '
                     'latex2text/__init__.py does: `node.nodeargd and node.nodeargd.argnlist`): a node produced by error '
                     'recovery (an unterminated \\verb) or by a specification without arguments has nodeargd None', 4)
    n_na = 0
    for q_, f_ in sorted(m.functions.items()):
        for x_ in ast.walk(f_):
            if not (isinstance(x_, ast.Attribute) and isinstance(x_.value, ast.Attribute) and x_.value.attr == 'nodeargd'
                    and isinstance(x_.ctx, ast.Load)):
                continue
            base = unparse(x_.value)
            atoms = set()
            for t_, p_ in list(atomic_facts(x_)) + list(_scf7(x_)):
                for a_, ap_ in symex._atoms(t_, p_):
                    atoms.add((unparse(a_), ap_))
            okq = any(ap_ and t_ in (base, base + ' is not None') for t_, ap_ in atoms) or \
                any((not ap_) and t_ in (base + ' is None', 'not ' + base) for t_, ap_ in atoms)
            n_na += 1
            ctx.decide('R07q', okq, m, x_, '%s behind a test of %s' % (short(x_, 40), base),
                       '%s reads %s with no test that %s is set: for a node whose arguments could not be parsed (tolerant '
                       'recovery of `\\verb|abc and more`) nodeargd is None and AttributeError escapes latex_to_text'
                       % (q_, short(x_, 40), base), construct='%s: %s' % (q_, short(x_, 40)))
    if n_na < 4:
        ctx.unknown('R07q', m, None, 'only %d reads through nodeargd found in the converter' % n_na, construct='nodeargd reads')

    # ---- R07r: an argument looked up by number exists
    ctx.rule('R07r', 'the converter indexes an argument list with a variable (`<x>.argnlist[k]`) only where `k < len(<x>.argnlist)` '
                     'holds on the path (or its equivalents): `len(..) < k` as the "no such argument" test lets k == len through, '
                     'and a font macro taken as a single-token argument (\\hat\\mathbf x: zero arguments, k = 0) raises IndexError', 1)
    n_vi = 0
    for q_, f_ in sorted(m.functions.items()):
        for x_ in ast.walk(f_):
            if not (isinstance(x_, ast.Subscript) and isinstance(x_.ctx, ast.Load) and isinstance(x_.slice, ast.Name)):
                continue
            if not unparse(x_.value).endswith('.argnlist'):
                # a local bound once to `<y>.argnlist` (`argnlist = nodeargd.argnlist; ... argnlist[k]`)
                if not isinstance(x_.value, ast.Name):
                    continue
                bs_ = [a_ for a_ in ast.walk(f_) if isinstance(a_, (ast.Assign, ast.AugAssign, ast.For, ast.NamedExpr, ast.withitem))
                       and any(isinstance(n_, ast.Name) and n_.id == x_.value.id and isinstance(n_.ctx, ast.Store)
                               for n_ in ast.walk(a_))]
                if not (len(bs_) == 1 and isinstance(bs_[0], ast.Assign) and len(bs_[0].targets) == 1
                        and isinstance(bs_[0].targets[0], ast.Name) and isinstance(bs_[0].value, ast.Attribute)
                        and bs_[0].value.attr == 'argnlist'):
                    continue
            n_vi += 1
            V, k_ = unparse(x_.value), x_.slice.id
            atoms = set()
            for t_, p_ in list(atomic_facts(x_)) + list(_scf7(x_)):
                for a_, ap_ in symex._atoms(t_, p_):
                    atoms.add((unparse(a_), ap_))
            want = [('%s < len(%s)' % (k_, V), True), ('len(%s) > %s' % (V, k_), True), ('%s >= len(%s)' % (k_, V), False),
                    ('len(%s) <= %s' % (V, k_), False), ('not %s < len(%s)' % (k_, V), False)]
            ctx.decide('R07r', any(w_ in atoms for w_ in want), m, x_, '%s under %s < len' % (short(x_, 40), k_),
                       '%s reads %s where the facts are only [%s]: nothing excludes %s == len(%s) -- a macro that was parsed '
                       'without arguments (read as the single-token argument of another macro) and k = 0 raise IndexError'
                       % (q_, short(x_, 40), '; '.join(sorted(('' if ap_ else 'not ') + t_ for t_, ap_ in atoms))[:150], k_, V),
                       construct='%s: %s' % (q_, short(x_, 40)))
    if not n_vi:
        ctx.unknown('R07r', m, None, 'no variable index into an argument list found', construct='argument index')

    # ---- R07s: the first word of a text that may have none
    ctx.rule('R07s', 'latex2text takes no element by number out of a whitespace split (`x.split()[0]`, `x.split(None, 1)[0]`) '
                     'unless the path has established that x holds a non-blank character (x.strip() true, or x true after x was '
                     'stripped): for an empty or blank text the split is the empty list and IndexError escapes latex_to_text '
                     '(the blank between two constructs is such a text); likewise `x.splitlines(..)[k]` only where x is known to be '
                     'non-empty -- the post-space of a comment that ends the input is the empty string '
                     '(exercised on built-in examples on every run)', 1)

    def _ws_split_index(fnode_):
        stripped_ = {a_.targets[0].id for a_ in iter_own(fnode_) if isinstance(a_, ast.Assign) and len(a_.targets) == 1
                     and isinstance(a_.targets[0], ast.Name) and isinstance(a_.value, ast.Call)
                     and call_name(a_.value) == 'strip' and not a_.value.args}
        for x_ in iter_own(fnode_):
            if not (isinstance(x_, ast.Subscript) and isinstance(x_.ctx, ast.Load) and isinstance(x_.slice, ast.Constant)
                    and isinstance(x_.slice.value, int) and isinstance(x_.value, ast.Call) and call_name(x_.value) == 'split'
                    and call_recv(x_.value) is not None
                    and (not x_.value.args or (isinstance(x_.value.args[0], ast.Constant) and x_.value.args[0].value is None))):
                continue
            r_ = unparse(call_recv(x_.value))
            atoms_ = set()
            for t_, p_ in list(atomic_facts(x_)) + list(_scf7(x_)):
                for a_, ap_ in symex._atoms(t_, p_):
                    atoms_.add((unparse(a_), ap_))
            ok_ = (r_ + '.strip()', True) in atoms_ or ((r_, True) in atoms_ and r_ in stripped_) or \
                ('not ' + r_ + '.strip()', False) in atoms_
            yield x_, r_, ok_
        # `x.splitlines(...)[k]`: the list is empty exactly when x is the empty string
        for x_ in iter_own(fnode_):
            if not (isinstance(x_, ast.Subscript) and isinstance(x_.ctx, ast.Load) and isinstance(x_.slice, ast.Constant)
                    and isinstance(x_.slice.value, int) and isinstance(x_.value, ast.Call)
                    and call_name(x_.value) == 'splitlines' and call_recv(x_.value) is not None):
                continue
            r_ = unparse(call_recv(x_.value))
            atoms_ = set()
            for t_, p_ in list(atomic_facts(x_)) + list(_scf7(x_)):
                for a_, ap_ in symex._atoms(t_, p_):
                    atoms_.add((unparse(a_), ap_))
            ok_ = (r_, True) in atoms_ or ('not ' + r_, False) in atoms_ or (r_ + " == ''", False) in atoms_ or \
                (r_ + " != ''", True) in atoms_ or ('len(%s)' % r_, True) in atoms_ or \
                ('len(%s) == 0' % r_, False) in atoms_ or ('len(%s) > 0' % r_, True) in atoms_
            yield x_, r_, ok_
    ex7b_ = ast.parse('def f(node):\n    nl = node.comment_post_space.splitlines(True)[0]\n    return nl\n')
    core.set_parents(ex7b_)
    if [ok_ for _x, _r, ok_ in _ws_split_index(ex7b_.body[0])] != [False]:
        raise AnalysisError('R07s: the splitlines rule no longer fires on its built-in example')
    ex7_ = ast.parse('def f(x, col):\n    x = x.strip()\n    if col > 3 and len(x.split(None, 1)[0]) > 2:\n        return 1\n    return 0\n')
    core.set_parents(ex7_)
    if [ok_ for _x, _r, ok_ in _ws_split_index(ex7_.body[0])] != [False]:
        raise AnalysisError('R07s: the whitespace-split rule no longer fires on its built-in example')
    for mn_, mod_ in sorted(repo.modules.items()):
        if not mn_.startswith('pylatexenc.latex2text'):
            continue
        for q_, f_ in sorted(mod_.functions.items()):
            for x_, r_, ok_ in _ws_split_index(f_):
                ctx.decide('R07s', ok_, mod_, x_, '%s: %s under a non-blank test of %s' % (q_, short(x_, 40), r_),
                           '%s reads %s where nothing establishes that %s contains a non-blank character: for an empty text '
                           '(a whitespace-only chars node after stripping) the split is [] and IndexError escapes latex_to_text'
                           % (q_, short(x_, 40), r_), construct='%s: %s' % (q_, short(x_, 40)))
    ctx.holds('R07s', m, None, 'no unguarded element of a whitespace split in latex2text (built-in example flagged)',
              construct='whitespace split scan', trivial=True)

    # ---- R07p: None entries of a node list
    ctx.rule('R07p', 'nodelist_to_text: the element of the list (which may be None: replacement callables pass [optarg] for an '
                     'absent argument, and node_to_text(None) is \'\') is dereferenced only behind `node is not None` or behind '
                     '`self._is_bare_macro_node(prev_node)` (true only after a real previous node): a cheaper test put first '
                     'makes `node.isNodeType` run on the None of a one-element list', 1)
    nlt = meths.get('nodelist_to_text')
    if nlt is None:
        raise AnalysisError('anchor vanished: LatexNodes2Text.nodelist_to_text')
    n_dn = 0
    for lp_ in [l_ for l_ in iter_own(nlt) if isinstance(l_, ast.For) and isinstance(l_.target, ast.Name)]:
        v_ = lp_.target.id
        for x_ in ast.walk(lp_):
            if not (isinstance(x_, ast.Attribute) and isinstance(x_.value, ast.Name) and x_.value.id == v_
                    and isinstance(x_.ctx, ast.Load)):
                continue
            n_dn += 1
            atoms = set()
            for t_, p_ in list(atomic_facts(x_)) + list(_scf7(x_)):
                for a_, ap_ in symex._atoms(t_, p_):
                    atoms.add((unparse(a_), ap_))
            okn = any(ap_ and (t_ == '%s is not None' % v_ or t_ == v_ or t_.startswith('self._is_bare_macro_node(')
                               or t_.startswith('isinstance(%s,' % v_)) for t_, ap_ in atoms) or \
                any((not ap_) and t_ == '%s is None' % v_ for t_, ap_ in atoms)
            ctx.decide('R07p', okn, m, x_, '%s guarded' % short(x_, 30),
                       'nodelist_to_text evaluates %s under [%s] only: for a list whose element is None (\\emph\\exercise: the '
                       'replacement of \\exercise renders [optarg] with optarg None) this raises AttributeError'
                       % (short(x_, 30), ' & '.join(sorted(t_ for t_, ap_ in atoms if ap_))[:100]),
                       construct='nodelist_to_text: %s' % short(x_, 30))
    if not n_dn:
        ctx.unknown('R07p', m, nlt, 'no dereference of the list element found', construct='nodelist_to_text: element dereference')

    # ---- R07n: formatting a table pattern cannot raise out of the converter
    ctx.rule('R07n', 'a `%` substitution into a replacement pattern that is not a literal (simplify_repl from a table) is '
                     'inside a try whose handlers cover TypeError, ValueError and KeyError: a pattern with more or fewer '
                     'placeholders than the macro has arguments (\\textfrac) raises TypeError', 1)
    n_fmt = 0
    for mod_ in sorted(repo.modules.values(), key=lambda m_: m_.name):
        if not mod_.name.startswith('pylatexenc.latex2text') or mod_.name.endswith('__main__'):
            continue
        for x_ in ast.walk(mod_.tree):
            if not (isinstance(x_, ast.BinOp) and isinstance(x_.op, ast.Mod) and not isinstance(x_.left, (ast.Constant, ast.JoinedStr))):
                continue
            n_fmt += 1
            caught = set()
            for p_ in parents(x_):
                if isinstance(p_, ast.Try) and any(x_ is y_ for st_ in p_.body for y_ in ast.walk(st_)):
                    for h_ in p_.handlers:
                        if h_.type is None:
                            caught |= {'TypeError', 'ValueError', 'KeyError'}
                        else:
                            caught |= {n_.id for n_ in ast.walk(h_.type) if isinstance(n_, ast.Name)}
            if caught & {'Exception', 'BaseException'}:
                caught |= {'TypeError', 'ValueError', 'KeyError'}
            miss = sorted({'TypeError', 'ValueError', 'KeyError'} - caught)
            ctx.decide('R07n', not miss, mod_, x_, '%s under handlers for %s' % (short(x_, 40), sorted(caught)),
                       '%s can raise %s, which no enclosing handler catches: a replacement pattern whose placeholders do not '
                       'match the arguments of the macro (the default \\textfrac: two %%s, arguments as parsed) makes '
                       'latex_to_text raise instead of returning text' % (short(x_, 40), miss),
                       construct='pattern substitution ' + short(x_, 40))
    if not n_fmt:
        ctx.unknown('R07n', m, None, 'no pattern substitution found', construct='pattern substitution')

    # ---- R07o: a macro read as a single-token argument has an arguments object
    ctx.rule('R07o', 'the parsers that read a macro / environment / specials call (what spec.get_node_parser() returns) keep '
                     'the inherited contents_can_be_empty() == True: only then is the `return None` of '
                     'LatexExpressionParser._check_if_requires_args dead and nodeargd of a macro taken as a single-token argument '
                     '(\\hat\\title) is an arguments object, which the replacement callables of latex2text read without a None test', 3)
    n_cp = 0
    for cn_ in sorted({c_.name for mod_ in repo.modules.values() for c_ in mod_.classes.values()
                       if repo.is_subclass(c_.name, '_LatexCallableParserBase') or c_.name == '_LatexCallableParserBase'}):
        n_cp += 1
        bad_ = None
        for b_ in repo.mro_names(cn_):
            c_ = repo.find_class(b_)
            if c_ is None:
                continue
            fn_ = [f_ for f_ in c_.body if isinstance(f_, ast.FunctionDef) and f_.name == 'contents_can_be_empty']
            if fn_:
                body_ = [s_ for s_ in fn_[0].body if not (isinstance(s_, ast.Expr) and isinstance(s_.value, ast.Constant))]
                const_true = len(body_) == 1 and isinstance(body_[0], ast.Return) and isinstance(body_[0].value, ast.Constant) \
                    and body_[0].value.value is True
                if not const_true:
                    bad_ = (b_, fn_[0])
                break
        cm_ = repo.find_class(cn_)
        ctx.decide('R07o', bad_ is None, m, bad_[1] if bad_ else cm_, '%s: contents_can_be_empty() is the constant True' % cn_,
                   '%s answers contents_can_be_empty() through %s.contents_can_be_empty, which is not `return True`: in tolerant '
                   'mode a macro with mandatory arguments read as a single-token argument then gets nodeargd=None, and the '
                   'replacement callables of the default text database (\\title, \\author, \\texorpdfstring) raise '
                   'AttributeError / TypeError' % (cn_, bad_[0] if bad_ else ''), construct='%s.contents_can_be_empty' % cn_)
    if n_cp < 3:
        raise AnalysisError('R07o: only %d call-parser classes found' % n_cp)

    return 'other', (
        'Exception-escape analysis of latex_to_text (tolerant configuration), crash-construct rules '
        'G1-G9 on every function reachable from it (including the default replacement callables), a '
        'node-kind typestate analysis of attribute reads in latex2text, agreement of option values '
        'with the code that consumes them, and cross-table checks between the spec classes, the '
        'default tables and the rendering code.')


_LAMBDAS = {}


def _restrict(ks, pname, facts, fields):
    out = set(ks)
    for t, pol in facts:
        if isinstance(t, ast.Call) and call_name(t) == 'isNodeType' and call_recv(t) is not None and \
                unparse(call_recv(t)) == pname and t.args:
            cls = unparse(t.args[0]).rsplit('.', 1)[-1]
            if pol:
                out &= {cls}
            else:
                out -= {cls}
        elif isinstance(t, ast.Call) and call_name(t) == 'hasattr' and len(t.args) == 2 and \
                unparse(t.args[0]) == pname and isinstance(t.args[1], ast.Constant) and pol:
            out = {k for k in out if t.args[1].value in fields.get(k, set())}
    return out


def _resolve_in_lambda(prog, call):
    fn = call.func
    if isinstance(fn, ast.Name):
        return list(prog.by_name.get(fn.id, []))
    if isinstance(fn, ast.Attribute):
        return [x for x in prog.methods.get(fn.attr, []) if x.cls == 'LatexNodes2Text'] or \
            list(prog.methods.get(fn.attr, []))
    return []
