# -*- coding: utf-8 -*-
"""C08  Encoding to LaTeX and converting back to text returns the original (tables only).

R08a table inverse: every entry cp -> latex of the default encoder table is
     decoded by an abstract evaluator over the *evaluated default tables* of the
     walker and of latex2text (control words/symbols, groups, single-token
     arguments, %s replacements, accents + NFC, math alphabets, specials); the
     result must be chr(cp) unless cp is in the frozen list of non-invertible
     entries (data/c08_noninvertible.json).  The invertible set must not shrink.
R08b the two protection schemes that look for a dangling control word use the
     same test (sibling agreement), and a regular expression used for it covers
     both letter cases;
R08c every accent macro of latex2text takes exactly one argument in the walker.
Not decided: neighbour effects between a replacement and adjacent characters.
"""
import ast
import json
import os
import re
import unicodedata

from ..core import (AnalysisError, VERIF_DIR, short, unparse, iter_own, call_name, call_recv, kwarg, parents, enclosing_stmt,
                    is_self_attr, const_value)
from .. import tables
from . import c13

ENC = 'pylatexenc.latexencode._unicode_to_latex_encoder'
L2T = 'pylatexenc.latex2text'
NONINV = os.path.join(VERIF_DIR, 'data', 'c08_noninvertible.json')

SPECIALS_SEQ = ('---', '--', '``', "''", '!`', '?`', '~', '&')


class Unknown(Exception):
    pass


def tokenize(s):
    out = []
    i = 0
    while i < len(s):
        c = s[i]
        if c == '\\':
            j = i + 1
            if j < len(s) and s[j].isalpha() and s[j].isascii():
                while j < len(s) and s[j].isalpha() and s[j].isascii():
                    j += 1
                name = s[i + 1:j]
                # post space is swallowed by an alphabetic control word
                while j < len(s) and s[j] in ' \t\n':
                    j += 1
                out.append(('macro', name))
                i = j
            elif j < len(s):
                out.append(('macro', s[j]))
                i = j + 1
            else:
                raise Unknown('dangling backslash')
        elif c == '{':
            out.append(('open',))
            i += 1
        elif c == '}':
            out.append(('close',))
            i += 1
        else:
            out.append(('char', c))
            i += 1
    return out


def parse(tokens, pos=0, depth=0):
    items = []
    while pos < len(tokens):
        t = tokens[pos]
        if t[0] == 'open':
            sub, pos = parse(tokens, pos + 1, depth + 1)
            items.append(('group', sub))
        elif t[0] == 'close':
            if depth == 0:
                raise Unknown('unbalanced }')
            return items, pos + 1
        else:
            items.append(t)
            pos += 1
    if depth:
        raise Unknown('unbalanced {')
    return items, pos


class Decoder(object):
    def __init__(self, repo):
        self.lt = tables.L2TTable(repo)
        self.wt = tables.WalkerTable(repo)
        m = repo.mod(L2T)
        it = tables.Interp(m)
        env = {}
        self.offsets = it.eval(m.toplevel_assign('_fmt_math_style_offsets'), env)
        self.exceptions = it.eval(m.toplevel_assign('_fmt_math_style_exceptions'), env)

    def nargs(self, name):
        e = self.wt.macros.get(name)
        if e is None or e['args'] is None:
            return []
        return [a for a, mode in e['args']]

    def decode(self, items):
        out = ''
        i = 0
        while i < len(items):
            it = items[i]
            if it[0] == 'char':
                # specials (longest match) over consecutive chars
                rest = ''.join(x[1] for x in items[i:i + 3] if x[0] == 'char')
                # only contiguous chars count
                run = ''
                for x in items[i:i + 3]:
                    if x[0] != 'char':
                        break
                    run += x[1]
                hit = None
                for sq in SPECIALS_SEQ:
                    if run.startswith(sq) and sq in self.lt.specials:
                        hit = sq
                        break
                if hit:
                    r = self.lt.specials[hit]['repl']
                    if not isinstance(r, str):
                        raise Unknown('callable specials')
                    out += r
                    i += len(hit)
                    continue
                if it[1] in '$%#^_':
                    raise Unknown('active character %r' % it[1])
                out += it[1]
                i += 1
            elif it[0] == 'group':
                out += self.decode(it[1])
                i += 1
            else:
                text, i = self.macro(items, i)
                out += text
        return out

    def take_arg(self, items, i):
        """single-token or group argument (whitespace before it is skipped)."""
        while i < len(items) and items[i][0] == 'char' and items[i][1] in ' \t\n':
            i += 1
        if i >= len(items):
            return None, i
        it = items[i]
        if it[0] == 'group':
            return self.decode(it[1]), i + 1
        if it[0] == 'char':
            return it[1], i + 1
        # a macro as single-token argument: rendered without arguments
        name = it[1]
        e = self.lt.macros.get(name)
        if e is None:
            return '', i + 1
        r = e['repl']
        if isinstance(r, str):
            if '%' in r and len(r) != 1:
                n = len(self.nargs(name))
                try:
                    return r % tuple([''] * max(n, r.count('%s'))), i + 1
                except (TypeError, ValueError):
                    return r, i + 1
            return r, i + 1
        if r is None:
            return '', i + 1
        if isinstance(r, tables.Fn) and 'c' in r.closure and isinstance(r.closure['c'], str):
            return self.accent(' ', r.closure['c']), i + 1
        raise Unknown('callable macro as argument')

    def accent(self, text, comb):
        text = text.strip()
        if not text:
            text = ' '
        out = ''
        for ch in text:
            if ch == 'ı':
                ch = 'i'
            if ch == 'ȷ':
                ch = 'j'
            out += unicodedata.normalize('NFC', ch + comb)
        return out

    def macro(self, items, i):
        name = items[i][1]
        i += 1
        e = self.lt.macros.get(name)
        spec = self.nargs(name)
        args = []
        for a in spec:
            if a in ('{', 'm'):
                txt, i = self.take_arg(items, i)
                args.append(txt)
            elif a in ('[', 'o', '*', 's'):
                # optional: present only if the next item is the marker
                if i < len(items) and items[i] == ('char', '[' if a in '[o' else '*'):
                    raise Unknown('optional argument present')
                args.append(None)
            else:
                raise Unknown('argument kind %r' % (a,))
        if e is None:
            return '', i          # unknown to latex2text: discarded
        r = e['repl']
        if isinstance(r, str):
            if '%' in r and len(r) != 1:
                vals = [a or '' for a in args]
                try:
                    if re.search('(^|[^%])(%%)*%s', r):
                        return r % tuple(vals), i
                    return r % dict((str(1 + j), v) for j, v in enumerate(vals)), i
                except (TypeError, ValueError, KeyError):
                    return r, i
            return r, i
        if r is None or r == '':
            if e['discard'] is False:
                return ''.join(a or '' for a in args), i
            return '', i
        if isinstance(r, tables.Fn):
            if 'c' in r.closure and isinstance(r.closure['c'], str) and 'make_accented_char' in unparse(r.node):
                return self.accent(args[0] if args and args[0] is not None else '', r.closure['c']), i
            style = (r.env or {}).get('style') if isinstance(r.env, dict) else None
            if style is not None and getattr(r.node, 'name', '') == 'formatter':
                return self.mathstyle(args[0] if args and args[0] else '', style), i
        raise Unknown('callable replacement for \\%s' % name)

    def mathstyle(self, text, style):
        out = ''
        for c in text:
            oc = ord(c)
            z = self.exceptions.get(style, {}).get(oc)
            if z is not None:
                out += z
                continue
            up, lo = self.offsets.get(style, (ord('A'), ord('a')))
            if ord('A') <= oc <= ord('Z'):
                out += chr(up + oc - ord('A'))
            elif ord('a') <= oc <= ord('z'):
                out += chr(lo + oc - ord('a'))
            else:
                out += c
        return out

    def roundtrip(self, latex):
        items, _ = parse(tokenize(latex))
        return unicodedata.normalize('NFC', self.decode(items))


def compute(repo):
    """cp -> (latex, decoded or None, reason)"""
    mod, tab = c13.load_map(repo, 'pylatexenc.latexencode._uni2latexmap')
    dec = Decoder(repo)
    res = {}
    for cp, (latex, node) in sorted(tab.items()):
        try:
            d = dec.roundtrip(latex)
            res[cp] = (latex, d, None, node)
        except Unknown as e:
            res[cp] = (latex, None, str(e), node)
    return mod, res


PROBES = ['\\textemdash', 'a\\b', '\\"\\cyra', '\\`\\CYRE', 'abc', '\\%', '{\\a}', '\\a{}',
          '\\a ', '\\ABC', 'x\\abc', '', '\\', '\\1', '\\c{c}', '\\cyrchar\\CYROMEGA',
          '\\ensuremath{\\alpha}', '\\textbackslash', "\\'e", '\\i']


def protection_probes(ctx, rule, m, a, b):
    # the test itself, evaluated by the checker's own interpreter on probe replacement texts
    probes = ['\\textemdash', 'a\\b', '\\"\\cyra', '\\`\\CYRE', 'abc', '\\%', '{\\a}', '\\a{}',
              '\\a ', '\\ABC', 'x\\abc', '', '\\', '\\1', '\\c{c}', '\\cyrchar\\CYROMEGA',
              '\\ensuremath{\\alpha}', '\\textbackslash', "\\'e", '\\i']
    for f in (a, b):
        bad, unk = [], None
        for pr in probes:
            want = re.search(r'\\[A-Za-z]+$', pr) is not None
            try:
                got = _protects(m, f, pr)
            except _CannotEval as e:
                unk = str(e)
                break
            if got != want:
                bad.append('%r is %s' % (pr, 'protected' if got else 'left unprotected'))
        cons = '%s: dangling-control-word test on probe texts' % f.name
        if unk is not None:
            ctx.unknown(rule, m, f, 'test not evaluable: %s' % unk, construct=cons)
        else:
            ctx.decide(rule, not bad, m, f,
                       'protects exactly the %d probe texts that end with a control word' % sum(
                           1 for pr in probes if re.search(r'\\[A-Za-z]+$', pr)),
                       '%s misjudges replacement texts: %s -- a replacement ending with a control word '
                       'that is left unprotected fuses with a following letter / swallows a following '
                       'space, so the character does not survive the round trip'
                       % (f.name, '; '.join(bad[:4])), construct=cons)



class _CannotEval(Exception):
    pass


def _protects(m, f, text):
    """does protection method f change `text` (checker-side evaluation of the method's pure
    string predicate on a literal; supports str.rfind/find/isalpha/endswith/startswith, slices,
    comparisons, and/or/not, and match/search/fullmatch of a compiled literal pattern)"""
    param = f.args.args[1].arg
    env = {param: text}

    def rx_of(node):
        # self.<name> / <name> bound to re.compile(<literal>) at class or module level
        nm = node.attr if isinstance(node, ast.Attribute) else (node.id if isinstance(node, ast.Name) else None)
        if nm is None:
            raise _CannotEval('pattern object %s' % unparse(node))
        for st in ast.walk(m.tree):
            if isinstance(st, ast.Assign) and any(unparse(t).split('.')[-1] == nm for t in st.targets) and \
                    isinstance(st.value, ast.Call) and call_name(st.value) == 'compile' and st.value.args \
                    and isinstance(st.value.args[0], ast.Constant):
                flags = 0
                if len(st.value.args) > 1 or st.value.keywords:
                    ft = unparse(st.value.args[1] if len(st.value.args) > 1 else st.value.keywords[0].value)
                    for part in ft.split('|'):
                        part = part.strip().split('.')[-1]
                        if not hasattr(re, part):
                            raise _CannotEval('flag ' + part)
                        flags |= getattr(re, part)
                return re.compile(st.value.args[0].value, flags)
        raise _CannotEval('pattern %s not a compiled literal' % nm)

    def ev(e):
        if isinstance(e, ast.Constant):
            return e.value
        if isinstance(e, ast.Name):
            if e.id in env:
                return env[e.id]
            raise _CannotEval('name ' + e.id)
        if isinstance(e, ast.BoolOp):
            v = None
            for x in e.values:
                v = ev(x)
                if isinstance(e.op, ast.And) and not v:
                    return v
                if isinstance(e.op, ast.Or) and v:
                    return v
            return v
        if isinstance(e, ast.UnaryOp) and isinstance(e.op, ast.Not):
            return not ev(e.operand)
        if isinstance(e, ast.UnaryOp) and isinstance(e.op, ast.USub):
            return -ev(e.operand)
        if isinstance(e, ast.BinOp) and isinstance(e.op, (ast.Add, ast.Sub)):
            l, r = ev(e.left), ev(e.right)
            return l + r if isinstance(e.op, ast.Add) else l - r
        if isinstance(e, ast.Compare):
            left = ev(e.left)
            for op, rn in zip(e.ops, e.comparators):
                right = ev(rn)
                import operator
                fn = {ast.Lt: operator.lt, ast.LtE: operator.le, ast.Gt: operator.gt, ast.GtE: operator.ge,
                      ast.Eq: operator.eq, ast.NotEq: operator.ne, ast.Is: operator.is_,
                      ast.IsNot: operator.is_not, ast.In: lambda a_, b_: a_ in b_,
                      ast.NotIn: lambda a_, b_: a_ not in b_}.get(type(op))
                if fn is None:
                    raise _CannotEval('operator')
                if not fn(left, right):
                    return False
                left = right
            return True
        if isinstance(e, ast.Subscript):
            v = ev(e.value)
            if isinstance(e.slice, ast.Slice):
                lo = ev(e.slice.lower) if e.slice.lower is not None else None
                hi = ev(e.slice.upper) if e.slice.upper is not None else None
                if e.slice.step is not None:
                    raise _CannotEval('slice step')
                return v[lo:hi]
            try:
                return v[ev(e.slice)]
            except IndexError:
                raise _CannotEval('index out of range on probe %r' % text)
        if isinstance(e, ast.Call):
            cn = call_name(e)
            if isinstance(e.func, ast.Name) and cn == 'len' and len(e.args) == 1:
                return len(ev(e.args[0]))
            if isinstance(e.func, ast.Attribute):
                if cn in ('match', 'search', 'fullmatch') and not (
                        isinstance(e.func.value, ast.Name) and e.func.value.id == 're'):
                    rx = rx_of(e.func.value)
                    args = [ev(x) for x in e.args]
                    return getattr(rx, cn)(*args)
                if isinstance(e.func.value, ast.Name) and e.func.value.id == 're' and \
                        cn in ('match', 'search', 'fullmatch') and e.args and isinstance(e.args[0], ast.Constant):
                    return getattr(re, cn)(e.args[0].value, *[ev(x) for x in e.args[1:]])
                if isinstance(e.func.value, ast.Name) and e.func.value.id == 'self' and not e.keywords:
                    cls_ = [p_ for p_ in parents(f) if isinstance(p_, ast.ClassDef)]
                    hm = [x for x in (cls_[0].body if cls_ else []) if isinstance(x, ast.FunctionDef) and x.name == cn]
                    if hm:
                        h = hm[0]
                        hp = [x.arg for x in h.args.args][1:]
                        if len(hp) != len(e.args):
                            raise _CannotEval('helper arity')
                        saved = dict(env)
                        vals = [ev(x) for x in e.args]
                        env.clear()
                        env.update(zip(hp, vals))
                        try:
                            r = run_block(h.body, value=True)
                        finally:
                            env.clear()
                            env.update(saved)
                        if r is None:
                            raise _CannotEval('helper without return')
                        return r[1]
                recv = ev(e.func.value)
                if isinstance(recv, str) and cn in ('rfind', 'find', 'isalpha', 'endswith', 'startswith',
                                                     'isalnum', 'rstrip', 'lstrip', 'strip', 'index',
                                                     'rindex', 'isascii', 'islower', 'isupper'):
                    try:
                        return getattr(recv, cn)(*[ev(x) for x in e.args])
                    except ValueError:
                        raise _CannotEval('str.%s raised on probe %r' % (cn, text))
                if cn in ('group', 'start', 'end') and recv is not None and hasattr(recv, cn):
                    return getattr(recv, cn)(*[ev(x) for x in e.args])
            if isinstance(e.func, ast.Name) and cn in m.functions and not e.keywords:
                # module-level helper: evaluate its body on the argument values
                h = m.functions[cn]
                hp = [x.arg for x in h.args.args]
                if len(hp) != len(e.args):
                    raise _CannotEval('helper arity')
                saved = dict(env)
                vals = [ev(x) for x in e.args]
                env.clear()
                env.update(zip(hp, vals))
                try:
                    r = run_block(h.body, value=True)
                finally:
                    env.clear()
                    env.update(saved)
                if r is None:
                    raise _CannotEval('helper without return')
                return r[1]
            raise _CannotEval('call ' + short(e, 40))
        raise _CannotEval('expression ' + type(e).__name__)

    def run_block(stmts, value=False):
        for st in stmts:
            if isinstance(st, ast.Expr):
                continue
            if isinstance(st, ast.Assign) and len(st.targets) == 1 and isinstance(st.targets[0], ast.Name):
                env[st.targets[0].id] = ev(st.value)
                continue
            if isinstance(st, ast.If):
                r = run_block(st.body if ev(st.test) else st.orelse, value)
                if r is not None:
                    return r
                continue
            if isinstance(st, ast.Return) and value:
                return ('value', ev(st.value) if st.value is not None else None)
            if isinstance(st, ast.Return):
                return ('same',) if (isinstance(st.value, ast.Name) and st.value.id == param) else ('changed',)
            raise _CannotEval('statement ' + type(st).__name__)
        return None
    r = run_block(f.body)
    if r is None:
        raise _CannotEval('no return reached')
    return r == ('changed',)


def run(ctx):
    repo = ctx.repo
    ctx.rule('R08a', 'table inverse: the abstract decode (default walker and latex2text tables) of the '
                     'default encoding of a character is the character itself, for every entry not '
                     'in the frozen list of non-invertible entries; the invertible set does not shrink', 1000)
    ctx.rule('R08b', 'the protection schemes `braces` and `braces-after-macro` decide "the replacement '
                     'ends with a control word" by the same test; a regular expression used for it '
                     'accepts upper- and lower-case letters', 2)
    ctx.rule('R08g', 'the encoder normalises the WHOLE input to NFC before encoding (the round trip is stated up '
                     'to NFC)', 1)
    ctx.rule('R08f', 'whitespace conservation in the parser (C01 R01f): on every path through the token '
                     'dispatcher the token\'s leading whitespace is consumed exactly once -- a space before a '
                     'non-breaking space or a paragraph break survives the round trip', 10)
    ctx.rule('R08e', 'duplicate names inside one category resolve to the last definition, as the table '
                     'evaluation assumes (dict comprehension / dict(generator) / plain store, not setdefault)', 3)
    ctx.rule('R08d', 'the module-level helper caches encoders under a key that covers every option the '
                     'encoder is built from (shared with C04 R04g / C13 R13f)', 1)
    ctx.rule('R08c', 'every accent macro of latex2text is declared with exactly one argument by the '
                     'walker (otherwise its base letter is not taken as argument)', 20)

    mod, res = compute(repo)
    if not os.path.exists(NONINV):
        raise AnalysisError('data/c08_noninvertible.json is missing')
    with open(NONINV, encoding='utf-8') as f:
        noninv = {int(k, 16): v for k, v in json.load(f)['entries'].items()}
    n_inv = 0
    for cp, (latex, d, why, node) in sorted(res.items()):
        want = unicodedata.normalize('NFC', chr(cp))
        if cp in noninv:
            continue
        cons = 'U+%04X %s' % (cp, latex)
        if d == want:
            n_inv += 1
            ctx.holds('R08a', mod, node, 'decodes to itself', construct=cons, trivial=False)
        elif d is None:
            ctx.unknown('R08a', mod, node, 'decoder: %s' % why, construct=cons)
        else:
            ctx.refuted('R08a', mod, node,
                        'U+%04X is encoded as %r, which the default latex2text tables decode to %r '
                        '(U+%s), not back to the character: the round trip loses it (entry is not in '
                        'the reviewed list of non-invertible encodings)'
                        % (cp, latex, d, ' U+'.join('%04X' % ord(c) for c in d)), construct=cons)
    ctx.analysed['encoder_entries'] = len(res)
    ctx.analysed['invertible_by_table_evaluation'] = n_inv
    ctx.analysed['frozen_noninvertible'] = len(noninv)

    # ------------------------------------------------------------ R08b
    m = repo.mod(ENC)
    meths = m.methods('UnicodeToLatexEncoder')
    a, b = meths.get('_apply_protection_braces'), meths.get('_apply_protection_braces_after_macro')
    if a is None or b is None:
        raise AnalysisError('anchor vanished: _apply_protection_braces(_after_macro)')

    def predicate(f):
        """normalised text of the statements up to and including the `if` test."""
        p = f.args.args[1].arg
        parts = []
        for s in f.body:
            if isinstance(s, ast.Expr) and isinstance(s.value, ast.Constant):
                continue
            if isinstance(s, ast.If):
                parts.append('if ' + unparse(s.test))
                break
            parts.append(unparse(s))
        return '; '.join(parts).replace(p, 'REPL')
    pa, pb = predicate(a), predicate(b)
    agree, agree_why = (pa == pb), ''
    if not agree:
        # written differently (one test moved into a helper, say): compared by value on the probe texts
        try:
            diff_ = [pr for pr in PROBES if _protects(m, a, pr) != _protects(m, b, pr)]
            agree = not diff_
            agree_why = 'differ on %r' % diff_[:3] if diff_ else 'equal on all %d probe texts' % len(PROBES)
        except _CannotEval as e:
            agree = None
            agree_why = str(e)
    if agree is None:
        ctx.unknown('R08b', m, a, 'the two dangling-control-word tests are written differently and one is not '
                    'evaluable (%s)' % agree_why, construct='dangling-control-word test (sibling agreement)')
    else:
        ctx.decide('R08b', agree, m, a,
               'both schemes use the same dangling-control-word test: %s %s' % (pa, agree_why),
               'the two protection schemes disagree on what a dangling control word is: braces uses '
               '`%s`, braces-after-macro uses `%s`; one of them leaves some replacement that ends with '
               'a control word unprotected, so it fuses with / swallows the following characters'
               % (pa, pb), construct='dangling-control-word test (sibling agreement)')
    # regular expressions referenced by either predicate must be case-complete
    rx_ok = True
    why = ''
    for f in (a, b):
        for n in ast.walk(f):
            if isinstance(n, ast.Name):
                try:
                    v = m.toplevel_assign(n.id)
                except AnalysisError:
                    continue
                if isinstance(v, ast.Call) and call_name(v) == 'compile' and v.args and \
                        isinstance(v.args[0], ast.Constant):
                    pat = v.args[0].value
                    flags = unparse(v.args[1]) if len(v.args) > 1 else ''
                    low = bool(re.search(pat, '\\abc'))
                    up = bool(re.search(pat, '\\ABC')) or 'IGNORECASE' in flags or 're.I' in flags
                    if low != up:
                        rx_ok = False
                        why = 'pattern %r matches %s-case control words only' % (pat, 'lower' if low else 'upper')
    ctx.decide('R08b', rx_ok, m, b, 'no case-incomplete regular expression in the test',
               'the dangling-control-word test uses a regular expression whose %s: control words of the '
               'other case (\\L, \\O, \\AE, ...) get no protection' % why,
               construct='dangling-control-word test: letter case')

    protection_probes(ctx, 'R08b', m, a, b)

    # ------------------------------------------------------------ R08g (shared with C04 R04f)
    from . import c04
    c04.nfc_whole_input(ctx, 'R08g', m, meths['unicode_to_latex'])

    # ------------------------------------------------------------ R08f (shared with C01 R01f / R01b)
    # the decoder side of the round trip must not lose whitespace: the collector consumes the
    # leading whitespace of every token exactly once, and tokens tile their span
    from . import c01, c05, c11
    co_ = repo.mod(c01.COLL)
    pot_ = co_.methods('LatexNodesCollector').get('process_one_token')
    if pot_ is None:
        raise AnalysisError('anchor vanished: process_one_token')
    c01._whitespace_paths(c05._Sub(ctx, 'R08f'), co_, pot_)

    # ------------------------------------------------------------ R08e
    # the table evaluation above resolves duplicate names inside one category as the database does:
    # the LAST definition wins (the default tables rely on it: \\~ is first the literal tilde, later
    # the tilde accent).  Decide that the database still builds its per-category dicts that way.
    from . import c14
    dbm = repo.mod(c14.MODULE)
    acc_fn = dbm.methods(c14.CLASS).get('add_context_category')
    if acc_fn is None:
        raise AnalysisError('anchor vanished: add_context_category')
    helpers_ = dict((q.rsplit('.', 1)[-1], f_) for q, f_ in dbm.functions.items())
    n_k = 0
    for d_ in [x for x in ast.walk(acc_fn) if isinstance(x, ast.Dict)]:
        keys_ = [k.value if isinstance(k, ast.Constant) else None for k in d_.keys]
        if set(keys_) != {'macros', 'environments', 'specials'}:
            continue
        for k_, v_ in zip(keys_, d_.values):
            n_k += 1
            verdict, why = None, ''
            if isinstance(v_, ast.DictComp) or (isinstance(v_, ast.Call) and call_name(v_) == 'dict' and v_.args
                                                and isinstance(v_.args[0], (ast.GeneratorExp, ast.ListComp))):
                verdict = True
            elif isinstance(v_, ast.Call) and call_name(v_) in helpers_:
                h = helpers_[call_name(v_)]
                first = [x for x in ast.walk(h) if (isinstance(x, ast.Call) and call_name(x) == 'setdefault') or (
                    isinstance(x, ast.Compare) and isinstance(x.ops[0], ast.NotIn))]
                stores = [x for x in ast.walk(h) if isinstance(x, ast.Subscript) and isinstance(x.ctx, ast.Store)]
                if first:
                    verdict, why = False, 'the helper %s keeps the FIRST definition of a name (%s)' % (h.name, short(first[0]))
                elif stores:
                    verdict = True
            if verdict is None:
                ctx.unknown('R08e', dbm, v_, 'construction of the per-category dict not recognised', construct='category dict ' + k_)
            else:
                ctx.decide('R08e', verdict, dbm, v_, 'per-category %s dict: last definition of a name wins' % k_,
                           'per-category %s dict: %s, while the default tables define some names twice and rely '
                           'on the later entry (\\~ as accent, \\blacksquare, \\diamond): every letter with a '
                           'tilde decodes to "~"' % (k_, why), construct='category dict ' + k_)
    if n_k < 3:
        # the literal moved into a helper function (e.g. _make_category_dicts): look there
        called = {call_name(c_) for c_ in ast.walk(acc_fn) if isinstance(c_, ast.Call)}
        for q_, h in dbm.functions.items():
            if h.name not in called:
                continue
            for d_ in [x for x in ast.walk(h) if isinstance(x, ast.Dict)]:
                keys_ = [k.value if isinstance(k, ast.Constant) else None for k in d_.keys]
                if set(keys_) == {'macros', 'environments', 'specials'} and h is not acc_fn:
                    for k_, v_ in zip(keys_, d_.values):
                        n_k += 1
                        ok_ = isinstance(v_, ast.DictComp) or (isinstance(v_, ast.Call) and call_name(v_) == 'dict')
                        if ok_:
                            ctx.holds('R08e', dbm, v_, 'per-category %s dict: last definition wins' % k_,
                                      construct='category dict ' + k_)
                        else:
                            ctx.unknown('R08e', dbm, v_, 'construction not recognised', construct='category dict ' + k_)
    if n_k < 3:
        raise AnalysisError('per-category dict construction not found')

    # ------------------------------------------------------------ R08d
    # the module-level helper unicode_to_latex() must not hand out an encoder cached for other
    # options (a cached 'none'-protection encoder answers a 'braces' call: control words fuse)
    from . import c09
    c09._module_state(ctx, repo, 'R08d', lambda name: name.startswith('pylatexenc.latexencode'))

    # ------------------------------------------------------------ R08c
    lt = tables.L2TTable(repo)
    wt = tables.WalkerTable(repo)
    acc = lt.env.get('unicode_accents_list')
    if not isinstance(acc, (tuple, list)):
        raise AnalysisError('unicode_accents_list not evaluable')
    for name, comb in acc:
        w = wt.macros.get(name)
        n = len(w['args']) if w is not None and w['args'] is not None else None
        ctx.decide('R08c', n == 1, wt.mod, w['rec'].node if w else None,
                   '\\%s takes one argument' % name,
                   'accent macro \\%s is declared by the walker with %s arguments: the accent is applied '
                   'to nothing and the base letter is left alone' % (name, n),
                   construct='accent macro ' + name)
    ctx.assume('neighbour effects (a replacement fusing with, swallowing or separating adjacent '
               'characters under the four protection schemes and two whitespace policies) are run-time '
               'string interactions and are not decided; the abstract decoder models control '
               'words/symbols, groups, single-token arguments, %s replacements, accents, math '
               'alphabets and specials')
    # ---- R08h (C13 R13g) and R08i (C03 R03d/R03f)
    ctx.rule('R08h', 'the built-in encoder tables are never handed out as such (the legacy utf82latex dictionary is a '
                     'copy): nobody can edit the table every encoder reads, so a character keeps the encoding that '
                     'latex2text inverts (C13 R13g)', 2)
    from .. import core as _core
    _core.run_proxied(ctx, c13, 'R08h', ('R13g',))
    ctx.rule('R08i', 'the whitespace policy for formulas is pushed per formula inside a with statement and popped when '
                     'the formula ends: text after a formula is rendered with the document policy again (C03 R03d, R03f)', 2)
    from . import c03 as _c03
    _core.run_proxied(ctx, _c03, 'R08i', ('R03d', 'R03f'))

    # ---- R08n (C03 R03i): the characters of a chars node come back as they are
    ctx.rule('R08o', 'chars_node_to_text returns the node\'s text itself on every path except the documented one that drops '
                     'whitespace-only text when between-latex-constructs is off: the blanks and line breaks between two encoded '
                     'characters are part of the text that must come back; nodelist_to_text appends the rendering of every node in '
                     'order and changes the text of a chars node that follows a macro in no way (C03 R03i, R03h)', 2)
    _core.run_proxied(ctx, _c03, 'R08o', ('R03i', 'R03h'))

    # ---- R08j: specials made of characters the encoder copies through
    ctx.rule('R08j', 'a specials sequence of the default walker table whose characters the default encoder all copies '
                     'through unescaped (printable ASCII without a table entry) is one of the documented ASCII ligatures '
                     '(`` \'\' -- --- !` ?`): any other would turn ordinary input text into another character on the way back', 6)
    LIGATURES = ('``', "''", '--', '---', '!`', '?`')
    wt_ = tables.WalkerTable(repo)
    _m, enc_ = c13.load_map(repo, 'pylatexenc.latexencode._uni2latexmap')
    for sq_ in sorted(wt_.specials):
        if not sq_.strip():
            continue            # the paragraph break: whitespace is outside the alphabet of the property
        passthrough = all(32 <= ord(ch_) < 127 and ord(ch_) not in enc_ for ch_ in sq_)
        ctx.decide('R08j', (not passthrough) or sq_ in LIGATURES, wt_.mod, wt_.specials[sq_]['rec'].node,
                   'specials %r: %s' % (sq_, 'a documented ligature' if passthrough else 'contains a character the encoder escapes'),
                   'the default tables declare the specials sequence %r, all of whose characters the encoder copies through '
                   'unchanged: ordinary text containing %r is encoded as itself and converted back to another character, '
                   'and it is not one of the documented ASCII ligatures' % (sq_, sq_), construct='walker specials %r' % sq_)

    # ---- R08k: module-level tables of latex2text are read-only at run time; R08l (C03 R03g)
    ctx.rule('R08k', 'no function of latex2text changes a module-level table in place, directly or through a local that '
                     'aliases the table or one of its entries (`d = PRESETS[k]; d.update(..)`): every converter shares them', 1)
    from . import c09 as _c09k
    for mod_ in sorted(repo.modules.values(), key=lambda m_: m_.name):
        if not mod_.name.startswith('pylatexenc.latex2text'):
            continue
        tabs_ = {st_.targets[0].id for st_ in mod_.tree.body if isinstance(st_, ast.Assign) and len(st_.targets) == 1
                 and isinstance(st_.targets[0], ast.Name) and (isinstance(st_.value, (ast.Dict, ast.List, ast.Set)) or (
                     isinstance(st_.value, ast.Call) and isinstance(st_.value.func, ast.Name)
                     and st_.value.func.id in ('dict', 'list', 'set')))}
        n_tb = 0
        # helpers that only run while the module is being imported (called from module-level
        # statements, from no function) build the tables; they are not "run time"
        called_in_fn = {call_name(c_) for g_ in mod_.functions.values() for c_ in iter_own(g_) if isinstance(c_, ast.Call)}
        import_time = {call_name(c_) for st_ in mod_.tree.body if not isinstance(st_, (ast.FunctionDef, ast.ClassDef))
                       for c_ in ast.walk(st_) if isinstance(c_, ast.Call) and isinstance(c_.func, ast.Name)} - called_in_fn
        for q_, f_ in sorted(mod_.functions.items()):
            if q_ in import_time:
                continue
            alias_ = {}
            for st_ in iter_own(f_):
                if isinstance(st_, ast.Assign) and len(st_.targets) == 1 and isinstance(st_.targets[0], ast.Name):
                    v_ = st_.value
                    root_ = v_
                    while isinstance(root_, ast.Subscript):
                        root_ = root_.value
                    if isinstance(root_, ast.Name) and root_.id in tabs_ and not isinstance(v_, ast.Call):
                        alias_[st_.targets[0].id] = unparse(v_)
            for x_ in iter_own(f_):
                tgt_ = None
                if isinstance(x_, ast.Call) and call_name(x_) in _c09k.MUTATORS and isinstance(call_recv(x_), ast.Name):
                    tgt_ = call_recv(x_).id
                elif isinstance(x_, ast.Subscript) and isinstance(x_.ctx, (ast.Store, ast.Del)) and isinstance(x_.value, ast.Name):
                    tgt_ = x_.value.id
                if tgt_ is None:
                    continue
                local_names = {a_.arg for a_ in f_.args.args}
                if tgt_ in alias_ or (tgt_ in tabs_ and tgt_ not in local_names and not any(
                        isinstance(s2, ast.Assign) and any(isinstance(t2, ast.Name) and t2.id == tgt_ for t2 in s2.targets)
                        for s2 in iter_own(f_))):
                    n_tb += 1
                    ctx.refuted('R08k', mod_, enclosing_stmt(x_) or x_, '%s changes %s in place, which is %s, a module-level '
                                'table shared by every converter: after one converter was built with a custom dictionary '
                                'all default converters use the changed policy (whitespace between `{\\\'e} {\\\'e}` is '
                                'dropped and the round trip returns another string)'
                                % (q_, tgt_, alias_.get(tgt_, 'the table itself')), construct='%s: in-place change of %s' % (q_, tgt_))
        ctx.holds('R08k', mod_, None, '%d module-level table(s) %s, none changed in place' % (len(tabs_), sorted(tabs_)[:6]),
                  construct='%s: table mutation scan' % mod_.relpath, trivial=True)
    ctx.rule('R08l', 'accented characters are composed with NFC from the base letter and the combining mark (C03 R03g)', 1)
    _core.run_proxied(ctx, _c03, 'R08l', ('R03g',))
    # ---- R08n (C09 R09f): the default text database is built per call
    ctx.rule('R08n', 'get_default_latex_context_db() returns a database constructed by the call: the documented way of '
                     'customising it (add_context_category on the returned object) cannot change what a later default '
                     'LatexNodes2Text() decodes to (C09 R09f)', 2)
    from . import c09 as _c09b
    _c09b.default_db_fresh(ctx, 'R08n', repo)
    # ---- R08m (C04 R04o): what unicode_to_latex returns is what the rules and protections produced
    ctx.rule('R08m', 'every return of unicode_to_latex returns the output it accumulated from the rules and their protection: no '
                     'post-pass rewrites the encoded text (dropping the `{}` after a macro lets the following blank be eaten when '
                     'the text is read back) (C04 R04o)', 1)
    from . import c04 as _c04
    _core.run_proxied(ctx, _c04, 'R08m', ('R04o',))

    return 'other', (
        'Evaluates the default encoder table against the evaluated default walker and latex2text '
        'tables with an abstract decoder: %d of %d entries decode to their own character, %d are '
        'listed as non-invertible (frozen, reviewed); any entry leaving the invertible set is '
        'reported.  Sibling agreement of the two dangling-control-word tests and the argument '
        'count of the accent macros are decided structurally.' % (n_inv, len(res), len(noninv)))
