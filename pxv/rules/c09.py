# -*- coding: utf-8 -*-
"""C09  Parsing is a pure function of input, context and flags.

Effect / ownership analysis: objects that outlive a parse (parser instances,
specs, argument specs, parsing-state deltas, parsing states, context databases,
module-level containers, default argument values) are not written during a parse.
"""
import ast
from ..core import (AnalysisError, short, unparse, iter_own, call_name, call_recv, kwarg,
                    is_self_attr, atomic_facts, parents, enclosing_stmt, enclosing_func,
                    always_exits, names_in)

from .. import symex
MUTATORS = {'append', 'extend', 'insert', 'pop', 'remove', 'clear', 'sort', 'reverse',
            'update', 'setdefault', 'popitem', 'add', 'discard', 'appendleft', '__setitem__'}

SHARED_BASES = ('LatexParserBase', 'CallableSpecBase', 'LatexArgumentSpec', 'ParsingStateDelta',
                'MacroStandardArgsParser', 'LatexContextDbBase')

# parameter-name typing convention of the repository (DESIGN.md E1.3b): names that denote
# objects shared between parses when they appear as the receiver of an attribute store
SHARED_NAMES = {'spec', 'parsing_state', 'latex_walker', 'latex_context', 'parser', 'arg_parser',
                'arguments_parser', 'delimited_expression_parser', 'args_parser', 'argspec',
                'node_parser', 'latex_context_db', 'specs', 'mspec', 'envspec', 'specials_spec',
                'sspec', 'parsing_state_delta', 'group_parsing_state', 'contents_parsing_state',
                'expr_parsing_state', 'math_parser', 'group_parser'}

DB_MUTATORS = {'add_context_category', 'set_unknown_macro_spec', 'set_unknown_environment_spec',
               'set_unknown_specials_spec'}
FRESH_DB_CALLS = {'LatexContextDb', 'create_class', 'filter_context', 'filtered_context',
                  'get_default_latex_context_db'}

# constructor-time helper functions (reviewed): they write attributes of a spec that is under
# construction; verified below to be reachable only from the named constructor.
CTOR_HELPERS = {
    '_legacy_pyltxenc2_CallableSpec_init_from_args_parser': ('CallableSpec', '__init__'),
}


def _root(node):
    while isinstance(node, (ast.Subscript, ast.Attribute)):
        node = node.value
    return node


def _self_rooted_attr(node, selfname='self'):
    """self.X / self.X[..] / self.X.Y -> 'X' ; None if not rooted at self."""
    chain = []
    n = node
    while isinstance(n, (ast.Subscript, ast.Attribute)):
        if isinstance(n, ast.Attribute):
            chain.append(n.attr)
        n = n.value
    if isinstance(n, ast.Name) and n.id == selfname and chain:
        return chain[-1]
    return None


def _own_and_closures(fn, selfname):
    """the nodes of fn and of the functions / lambdas nested in it that still see fn's `self` (closures that
    do not re-bind the name): a write through self in a local helper is a write of the method"""
    stack = list(ast.iter_child_nodes(fn))
    while stack:
        n = stack.pop()
        if isinstance(n, (ast.FunctionDef, ast.AsyncFunctionDef, ast.Lambda)):
            a = n.args
            if selfname in {x.arg for x in a.args + a.kwonlyargs + getattr(a, 'posonlyargs', [])}:
                continue
        elif isinstance(n, ast.ClassDef):
            continue
        yield n
        stack.extend(ast.iter_child_nodes(n))


def _writes_in(fn, selfname='self'):
    """Yield (node, attr, kind) for writes rooted at self inside fn: stores, augmented
    assignments, deletes, in-place mutator calls, setattr(self, ...), and the same through a
    local alias `v = self.X`."""
    alias = {}
    for st in iter_own(fn):
        if isinstance(st, ast.Assign) and len(st.targets) == 1 and isinstance(st.targets[0], ast.Name):
            a = _self_rooted_attr(st.value, selfname)
            if a is not None and isinstance(st.value, (ast.Attribute, ast.Subscript)):
                alias[st.targets[0].id] = a
    for n in _own_and_closures(fn, selfname):
        if isinstance(n, (ast.Assign, ast.AugAssign, ast.Delete)):
            tg = n.targets if isinstance(n, (ast.Assign, ast.Delete)) else [n.target]
            for t in tg:
                for tt in (t.elts if isinstance(t, (ast.Tuple, ast.List)) else [t]):
                    if isinstance(tt, ast.Name):
                        continue
                    a = _self_rooted_attr(tt, selfname)
                    if a is not None:
                        yield n, a, 'store'
                    else:
                        r = _root(tt)
                        if isinstance(r, ast.Name) and r.id in alias and isinstance(tt, ast.Subscript):
                            yield n, alias[r.id], 'store through alias %s' % r.id
        elif isinstance(n, ast.Call):
            cn = call_name(n)
            r = call_recv(n)
            if cn in MUTATORS and r is not None:
                a = _self_rooted_attr(r, selfname)
                if a is not None:
                    yield n, a, 'in-place %s' % cn
                elif isinstance(_root(r), ast.Name) and _root(r).id in alias:
                    yield n, alias[_root(r).id], 'in-place %s through alias %s' % (cn, _root(r).id)
            if cn == 'setattr' and n.args and isinstance(n.args[0], ast.Name) and \
                    n.args[0].id == selfname:
                yield n, short(n.args[1]) if len(n.args) > 1 else '?', 'setattr'


def _class_level_writes(fn, cls):
    """Writes rooted at the class object: ClassName.X = / type(self).X / self.__class__.X / cls.X."""
    names = {cls.name, 'cls'}
    for n in iter_own(fn):
        tgts = []
        if isinstance(n, (ast.Assign, ast.AugAssign)):
            tgts = n.targets if isinstance(n, ast.Assign) else [n.target]
        elif isinstance(n, ast.Call) and call_name(n) in MUTATORS and call_recv(n) is not None:
            tgts = [call_recv(n)]
        for t in tgts:
            for tt in (t.elts if isinstance(t, (ast.Tuple, ast.List)) else [t]):
                if isinstance(tt, ast.Name):
                    continue
                r = _root(tt)
                txt = unparse(tt)
                if (isinstance(r, ast.Name) and r.id in names and r.id != 'cls') or \
                        txt.startswith('self.__class__.') or txt.startswith('type(self).') or \
                        (isinstance(r, ast.Name) and r.id == 'cls' and fn.args.args and
                         fn.args.args[0].arg == 'cls'):
                    yield n, txt


def _is_lazy_memo(fn, node, attr, init_attrs, params):
    """`if self.X is None: self.X = E` where E only depends on self attributes that are set in
    __init__ (not on the method's parameters): a memo of construction-time data."""
    if not isinstance(node, ast.Assign) or len(node.targets) != 1:
        return False
    if not is_self_attr(node.targets[0], attr):
        return False
    guarded = False
    for t, pol in atomic_facts(node):
        txt = unparse(t)
        if pol and txt in ('self.%s is None' % attr, 'getattr(self, %r, None) is None' % attr):
            guarded = True
        if (not pol) and txt in ('self.%s is not None' % attr, "hasattr(self, '%s')" % attr):
            guarded = True
    if not guarded:
        # the attribute read into a local first: `v = self.X; if v is None: v = E; self.X = v`
        aliases = {a_.targets[0].id for a_ in iter_own(fn) if isinstance(a_, ast.Assign) and len(a_.targets) == 1
                   and isinstance(a_.targets[0], ast.Name) and is_self_attr(a_.value, attr)}
        for t, pol in atomic_facts(node):
            txt = unparse(t)
            if (pol and txt in ['%s is None' % a_ for a_ in aliases]) or \
                    ((not pol) and txt in ['%s is not None' % a_ for a_ in aliases]):
                guarded = True
    if not guarded:
        return False
    # everything the value is computed from, through local assignments (handler = latex_walker.x();
    # fn = getattr(handler, ..); value = fn(..) depends on the parameter latex_walker)
    used = _flows_into(fn, node.value)
    if used & set(params):
        return False
    return True


def run(ctx):
    repo = ctx.repo
    ctx.rule('R09a', 'objects that outlive a parse (parser, spec, argument-spec, delta classes) are '
                     'not written outside their constructor: no self.x store, augmented '
                     'assignment, del, setattr or in-place mutator (also through a local alias or '
                     'the class object); exceptions are construction-time memos and classes '
                     'verified to be instantiated per parse', 40)
    ctx.rule('R09a2', 'no attribute store on a receiver that denotes a shared object (spec, '
                      'parsing_state, latex_walker, latex_context, parser, ...) outside '
                      'constructor-time helpers', 1)
    ctx.rule('R09e', 'the (frozen, shared) context database is not written while parsing: every method that '
                     'writes its lookup state raises first when frozen, so lookups (get_*_spec, '
                     'test_for_specials) cannot record what one document asked for (C14 M3)', 4)
    ctx.rule('R09b', 'module-level containers (outside latexencode/latex2text, see C04) are written only by the memo idiom '
                     '`if k not in D: D[k] = ctor(...)`, and everything the stored value is built '
                     'from flows into the key', 1)
    ctx.rule('R09c', 'mutable default argument values are never mutated in place nor stored', 4)
    ctx.rule('R09d2', 'deriving a database while parsing (extended_with / filtered_context) never '
                      'writes to the database it is called on: in-place updates only on containers '
                      'copied to the depth that is mutated', 4)
    ctx.rule('R09d', 'context-database mutators are only called on a database created in the same '
                     'function (freeze() by LatexWalker.__init__ is the documented exception)', 3)

    for b in SHARED_BASES:
        if repo.find_class(b) is None:
            raise AnalysisError('anchor vanished: base class %s' % b)

    shared = []
    for mod in repo.modules.values():
        if mod.name.endswith('__main__'):
            continue
        for q, c in mod.classes.items():
            if any(repo.is_subclass(c.name, b) for b in SHARED_BASES):
                shared.append((mod, q, c))
    # module-level singletons: a class instantiated in a module body is shared by every parse
    seen_sh = {c_.name for _m, _q, c_ in shared}
    for mod in repo.modules.values():
        if mod.name.endswith('__main__'):
            continue
        for st in mod.tree.body:
            if isinstance(st, ast.Assign) and isinstance(st.value, ast.Call) and isinstance(st.value.func, ast.Name):
                c_ = repo.find_class(st.value.func.id)
                if c_ is not None and c_.name not in seen_sh:
                    cm_ = [m_ for m_ in repo.modules.values() if c_.name in m_.classes and m_.classes[c_.name] is c_]
                    if cm_:
                        shared.append((cm_[0], c_.name, c_))
                        seen_sh.add(c_.name)
    ctx.analysed['shared_classes'] = len(shared)
    if len(shared) < 30:
        raise AnalysisError('only %d classes in the shared families (floor 30)' % len(shared))

    # instantiation sites per class name (for the per-parse verification)
    inst_sites = {}
    for mod in repo.modules.values():
        for n in ast.walk(mod.tree):
            if isinstance(n, ast.Call):
                nm = n.func.id if isinstance(n.func, ast.Name) else (
                    n.func.attr if isinstance(n.func, ast.Attribute) else None)
                if nm and repo.find_class(nm) is not None:
                    inst_sites.setdefault(nm, []).append((mod, n))

    def per_parse(cname):
        """Every instantiation of `cname` happens inside a function taking token_reader /
        latex_walker and the instance is returned or bound to a local name."""
        sites = inst_sites.get(cname, [])
        if not sites:
            return False, 'no instantiation site found'
        for mod, call in sites:
            f = enclosing_func(call)
            if f is None or isinstance(f, ast.Lambda):
                return False, 'instantiated at module level / in a lambda in %s' % mod.relpath
            ps = {a.arg for a in f.args.args}
            if not ps & {'token_reader', 'latex_walker', 'w'}:
                return False, 'instantiated in %s, which is not a per-parse function' % f.name
            st = enclosing_stmt(call)
            if isinstance(st, ast.Return) and st.value is call:
                continue
            if isinstance(st, ast.Assign) and st.value is call and \
                    all(isinstance(t, ast.Name) for t in st.targets):
                continue
            return False, 'instance is stored by `%s`' % short(st, 60)
        return True, '%d instantiation site(s), all local to a per-parse function' % len(sites)

    n_methods = 0
    for mod, q, c in sorted(shared, key=lambda x: (x[0].name, x[1])):
        meths = [n for n in c.body if isinstance(n, ast.FunctionDef)]
        init = [f for f in meths if f.name == '__init__']
        init_attrs = set()
        for f in init:
            for node, a, kind in _writes_in(f):
                init_attrs.add(a)
        pp = None
        for f in meths:
            if f.name in ('__init__', '__new__'):
                continue
            selfname = f.args.args[0].arg if f.args.args else 'self'
            n_methods += 1
            params = [a.arg for a in f.args.args[1:]] + [a.arg for a in f.args.kwonlyargs]
            writes = list(_writes_in(f, selfname)) if selfname == 'self' else []
            cw = list(_class_level_writes(f, c))
            if not writes and not cw:
                ctx.holds('R09a', mod, f, 'no write through self or the class object',
                          construct='%s.%s' % (q, f.name), trivial=True)
                continue
            for node, txt in cw:
                ctx.refuted('R09a', mod, enclosing_stmt(node),
                            'writes class-level state %s during a call: every instance (and every '
                            'later parse) sees it' % txt,
                            construct='%s.%s: %s' % (q, f.name, short(enclosing_stmt(node), 80)))
            for node, a, kind in writes:
                st = enclosing_stmt(node)
                cons = '%s.%s: %s' % (q, f.name, short(st, 90))
                if _is_lazy_memo(f, st, a, init_attrs, params):
                    ctx.holds('R09a', mod, st, 'construction-time memo: guarded by `is None`, '
                                               'value independent of the call\'s arguments',
                              construct=cons)
                    continue
                if pp is None:
                    pp = per_parse(c.name)
                if pp[0]:
                    ctx.holds('R09a', mod, st, 'class is instantiated per parse (%s)' % pp[1],
                              construct=cons)
                else:
                    ctx.refuted('R09a', mod, st,
                                '%s of self.%s on an object that outlives the parse (%s is a '
                                'shared %s; %s): a later parse through the same object sees '
                                'state left by this one' % (
                                    kind, a, c.name,
                                    '/'.join(b for b in SHARED_BASES if repo.is_subclass(c.name, b)),
                                    pp[1]), construct=cons)
    ctx.analysed['shared_methods_analysed'] = n_methods

    # ---- R09a2: stores through shared receivers
    n2 = 0
    for mod in repo.modules.values():
        if mod.name.endswith('__main__') or '_legacy_py1x' in mod.name:
            continue
        for x in ast.walk(mod.tree):
            if not isinstance(x, (ast.Assign, ast.AugAssign)):
                continue
            f = enclosing_func(x)
            if f is None:
                continue
            tg = x.targets if isinstance(x, ast.Assign) else [x.target]
            for t0 in tg:
                for tt in (t0.elts if isinstance(t0, (ast.Tuple, ast.List)) else [t0]):
                    if not isinstance(tt, (ast.Attribute, ast.Subscript)):
                        continue
                    r = _root(tt)
                    if not isinstance(r, ast.Name):
                        continue
                    rid = r.id
                    # second-level receiver: self.<shared>.attr = ...
                    lvl2 = None
                    if rid == 'self' and isinstance(tt, ast.Attribute) and \
                            isinstance(tt.value, ast.Attribute) and is_self_attr(tt.value):
                        lvl2 = tt.value.attr
                    if rid not in SHARED_NAMES and not (lvl2 in SHARED_NAMES if lvl2 else False):
                        continue
                    if isinstance(tt, ast.Subscript) and rid not in SHARED_NAMES:
                        continue
                    n2 += 1
                    # local fresh object?
                    fresh = _local_fresh(f, rid)
                    top = f
                    while enclosing_func(top) is not None:
                        top = enclosing_func(top)
                    helper = getattr(top, 'name', '') in CTOR_HELPERS
                    ctx.decide('R09a2', fresh or helper, mod, x,
                               'receiver is %s' % ('created in this function' if fresh else
                                                   'a spec under construction (constructor helper)'),
                               'attribute store %s on `%s`, which by the repository\'s naming '
                               'convention is an object shared between parses' % (short(tt), lvl2 or rid),
                               construct='%s: %s' % (getattr(f, '_qualname', f.name), short(x, 80)))
    # constructor helpers are only reachable from their constructor
    for hname, (cname, mname) in CTOR_HELPERS.items():
        key = hname.replace('_legacy_pyltxenc2_', '')
        sites = []
        for mod in repo.modules.values():
            for n in ast.walk(mod.tree):
                if isinstance(n, ast.Call) and ((isinstance(n.func, ast.Name) and n.func.id == hname)
                                                or (n.args and isinstance(n.args[0], ast.Constant)
                                                    and n.args[0].value == key)):
                    f = enclosing_func(n)
                    sites.append((mod, n, getattr(f, '_qualname', None)))
        ok = sites and all(qn == '%s.%s' % (cname, mname) for _, _, qn in sites)
        m0 = sites[0][0] if sites else None
        ctx.decide('R09a2', bool(ok), m0, sites[0][1] if sites else None,
                   'constructor helper %s is invoked only from %s.%s' % (hname, cname, mname),
                   'constructor helper %s is invoked from %s: it writes spec attributes outside '
                   'construction' % (hname, [qn for _, _, qn in sites]),
                   construct='call sites of ' + hname)
    ctx.analysed['shared_receiver_stores'] = n2

    _module_state(ctx, repo, 'R09b', lambda name: not name.startswith(
        ('pylatexenc.latexencode', 'pylatexenc.latex2text')))
    _mutable_defaults(ctx, repo)
    # R09e: the context database is shared between parses: its lookups write nothing, and every
    # method that does write refuses to once the database is frozen (C14 M3)
    from . import c14, c05
    c14.run(c05._filtered(c05._Sub(ctx, 'R09e'), ('M3',)))
    _db_mutators(ctx, repo)

    # extended_with() is called while parsing (ParsingStateDeltaExtendLatexContextDb): the
    # database it is called on must not be written (same analysis as C14 M4)
    from . import c14
    cm = repo.mod(c14.MODULE)
    meths = cm.methods(c14.CLASS)
    sub = _SubCtx(ctx, 'R09d2')
    for name in ('extended_with', 'filtered_context'):
        if name not in meths:
            raise AnalysisError('anchor vanished: LatexContextDb.' + name)
        c14._check_copy_on_derive(sub, cm, name, meths[name])
        # helpers called on self from a deriving method: a write through self in them is a write to the source
        # database; tolerated only on a path that has found a name collision (`x in self.<list>`), which is how the
        # automatic category name skips names already taken
        for hc in [c_ for c_ in iter_own(meths[name]) if isinstance(c_, ast.Call) and is_self_attr(c_.func)
                   and c_.func.attr in meths and c_.func.attr not in ('extended_with', 'filtered_context')]:
            h = meths[hc.func.attr]
            for node, a, kind in _writes_in(h):
                facts = set()
                for t_, p_ in atomic_facts(node):
                    for a_, ap_ in symex._atoms(t_, p_):
                        facts.add((unparse(a_), ap_))
                collide = any((ap_ and ' in self.' in t_ and ' not in ' not in t_) or ((not ap_) and ' not in self.' in t_)
                              for t_, ap_ in facts)
                ctx.decide('R09d2', collide, cm, enclosing_stmt(node),
                           '%s (called by %s) writes self.%s only after a name collision' % (h.name, name, a),
                           '%s calls self.%s(), which writes self.%s on a path without a name collision (%s): every derivation '
                           '-- one happens whenever a macro or environment extends the context during a parse -- changes the '
                           '(frozen, shared) database it derives from, so identical parses leave different state behind and '
                           'produce differently named categories' % (name, h.name, a, kind),
                           construct='%s -> %s: write of self.%s' % (name, h.name, a))

    ctx.assume('user-supplied callbacks, custom parsers and custom specs are outside the rule')
    ctx.assume('receiver typing of non-self stores uses the repository\'s parameter-name '
               'convention (table SHARED_NAMES)')
    # ---- R09f
    ctx.rule('R09f', 'the default-database getters return a database constructed by the call (no shared instance)', 2)
    default_db_fresh(ctx, 'R09f', repo)

    # ---- R09g (C10 R10g): state factories hand out a state derived from the one they were given
    ctx.rule('R09g', 'the state factories of the parsers (get_group_parsing_state, make_child_parsing_state, ...) return a state '
                     'derived from the parsing state they are given (or fixed at construction), never one remembered from an '
                     'earlier call: a state memoised on the shared parser object under a key that omits the input string or a '
                     'flag makes the contents of a later `[...]` argument depend on what was parsed before (C10 R10g)', 2)
    from .. import core as _core9
    from . import c10 as _c10
    _core9.run_proxied(ctx, _c10, 'R09g', ('R10g',))

    return 'other', (
        'Effect analysis over every class whose instances outlive a parse (%d classes) and over '
        'module-level containers, default values and database mutator call sites.  Decides the '
        'necessary condition "no write to a shared object during a parse"; with it, a parse can '
        'only read state that was fixed before the parse started, which is what makes the result '
        'independent of earlier parses.  Mutation through user callbacks or through objects '
        'reached by an untyped alias is not decided.' % len(shared))


class _SubCtx(object):
    """Adapter: run another property's helper but file its obligations under our rule id."""
    def __init__(self, ctx, rule):
        self.ctx, self.rule = ctx, rule

    def holds(self, rule, *a, **k):
        return self.ctx.holds(self.rule, *a, **k)

    def refuted(self, rule, *a, **k):
        return self.ctx.refuted(self.rule, *a, **k)

    def unknown(self, rule, *a, **k):
        return self.ctx.unknown(self.rule, *a, **k)

    def decide(self, rule, *a, **k):
        return self.ctx.decide(self.rule, *a, **k)


def _local_fresh(fn, name):
    """`name` is bound in fn to a constructor call / fresh copy (not a parameter)."""
    params = {a.arg for a in fn.args.args} | {a.arg for a in fn.args.kwonlyargs} \
        if not isinstance(fn, ast.Lambda) else {a.arg for a in fn.args.args}
    if name in params:
        return False
    for st in iter_own(fn):
        if isinstance(st, ast.Assign) and any(isinstance(t, ast.Name) and t.id == name
                                              for t in st.targets):
            v = st.value
            if isinstance(v, ast.Call):
                return True
    return False


def _module_state(ctx, repo, rule='R09b', modfilter=None):
    for mod in repo.modules.values():
        if mod.name.endswith('__main__'):
            continue
        if modfilter is not None and not modfilter(mod.name):
            continue
        containers = {}
        for st in mod.tree.body:
            if isinstance(st, ast.Assign) and len(st.targets) == 1 and isinstance(st.targets[0], ast.Name):
                v = st.value
                if isinstance(v, (ast.Dict, ast.List, ast.Set)) or (
                        isinstance(v, ast.Call) and call_name(v) in ('dict', 'list', 'set',
                                                                     'OrderedDict', 'defaultdict')):
                    containers[st.targets[0].id] = st
        # global statements that rebind module names from functions
        for n in ast.walk(mod.tree):
            if isinstance(n, ast.Global):
                f = enclosing_func(n)
                for nm in n.names:
                    assigns = [s for s in iter_own(f) if isinstance(s, (ast.Assign, ast.AugAssign))
                               and nm in {t.id for t in ast.walk(s) if isinstance(t, ast.Name)
                                          and isinstance(t.ctx, ast.Store)}]
                    for s in assigns:
                        memo = any(pol and unparse(t) == '%s is None' % nm for t, pol in atomic_facts(s))
                        ctx.decide(rule, memo, mod, s, 'lazy one-time initialisation of a global',
                                   'function rebinds module global %s on every call: later calls '
                                   'observe earlier ones' % nm,
                                   construct='%s: global %s: %s' % (f.name, nm, short(s, 70)))
        if not containers:
            continue
        for q, f in mod.functions.items():
            local_names = {a.arg for a in f.args.args}
            for s in iter_own(f):
                if isinstance(s, ast.Assign):
                    for t in s.targets:
                        if isinstance(t, ast.Name):
                            local_names.add(t.id)
            for n in iter_own(f):
                tgt = None
                kind = None
                if isinstance(n, (ast.Assign, ast.AugAssign)):
                    for t in (n.targets if isinstance(n, ast.Assign) else [n.target]):
                        if isinstance(t, ast.Subscript) and isinstance(t.value, ast.Name) and \
                                t.value.id in containers and t.value.id not in local_names:
                            tgt, kind = t, 'subscript store'
                elif isinstance(n, ast.Call) and call_name(n) in MUTATORS and \
                        isinstance(call_recv(n), ast.Name) and call_recv(n).id in containers and \
                        call_recv(n).id not in local_names:
                    tgt, kind = n, 'in-place ' + call_name(n)
                if tgt is None:
                    continue
                cname = tgt.value.id if isinstance(tgt, ast.Subscript) else call_recv(n).id
                cons = '%s: %s' % (q, short(enclosing_stmt(n), 80))
                if kind != 'subscript store' or not isinstance(n, ast.Assign):
                    ctx.refuted(rule, mod, enclosing_stmt(n),
                                '%s on module-level container %s outside the memo idiom' % (kind, cname),
                                construct=cons)
                    continue
                key = tgt.slice
                keytxt = unparse(key)
                guarded = any(
                    (pol and unparse(t) == '%s not in %s' % (keytxt, cname)) or
                    ((not pol) and unparse(t) == '%s in %s' % (keytxt, cname))
                    for t, pol in atomic_facts(n))
                if not guarded:
                    # `v = D.get(key[, None]); if v is None: v = ctor(...); D[key] = v`
                    getvars = {unparse(s3.targets[0]) for s3 in iter_own(f)
                               if isinstance(s3, ast.Assign) and isinstance(s3.value, ast.Call)
                               and call_name(s3.value) == 'get'
                               and unparse(call_recv(s3.value)) == cname
                               and s3.value.args and unparse(s3.value.args[0]) == keytxt}
                    guarded = any(pol and unparse(t) in ['%s is None' % g for g in getvars]
                                  for t, pol in atomic_facts(n))
                if not guarded:
                    ctx.refuted(rule, mod, n, 'store into module-level %s is not guarded by '
                                                '`%s not in %s`: an existing entry is replaced' %
                                (cname, keytxt, cname), construct=cons)
                    continue
                # a remembered *mutable container* must not be handed out: every caller gets the same
                # list/dict and can change what later callers receive
                vdefs = [n.value]
                if isinstance(n.value, ast.Name):
                    vdefs = [s2.value for s2 in iter_own(f) if isinstance(s2, ast.Assign) and any(
                        isinstance(t, ast.Name) and t.id == n.value.id for t in s2.targets)]
                mutable = [d_ for d_ in vdefs if isinstance(d_, (ast.List, ast.Dict, ast.Set, ast.ListComp, ast.DictComp,
                                                                  ast.SetComp)) or (
                    isinstance(d_, ast.Call) and isinstance(d_.func, ast.Name) and d_.func.id in ('list', 'dict', 'set'))]
                handed = [r_ for r_ in iter_own(f) if isinstance(r_, ast.Return) and r_.value is not None and (
                    (isinstance(n.value, ast.Name) and isinstance(r_.value, ast.Name) and r_.value.id == n.value.id) or
                    (isinstance(r_.value, ast.Subscript) and isinstance(r_.value.value, ast.Name)
                     and r_.value.value.id == cname))]
                if mutable and handed:
                    ctx.refuted(rule, mod, n, '%s remembers a mutable %s in the module-level %s and returns that same '
                                'object to every caller: a caller that changes the result (inserting a rule into the '
                                'list, as the documentation suggests) changes what every later caller -- every later '
                                'encoder -- gets' % (q, type(mutable[0]).__name__.lower(), cname), construct=cons)
                    continue
                # key completeness: names the value is built from must flow into the key
                flows = _flows_into(f, key)
                # an object's identity is not its value: the object can change after the entry was made, and
                # CPython hands the same id() to a later object once the first one is gone
                kdefs = [key] + [s2.value for s2 in iter_own(f) if isinstance(s2, ast.Assign) and any(
                    isinstance(_root(t), ast.Name) and _root(t).id in flows for t in s2.targets)]
                idcalls = [c for kd in kdefs for c in ast.walk(kd) if isinstance(c, ast.Call)
                           and isinstance(c.func, ast.Name) and c.func.id == 'id' and len(c.args) == 1]
                if idcalls:
                    ctx.refuted(rule, mod, n, 'the cache key %s is built from %s: the identity of an object says nothing '
                                'about its contents (the object may be changed after the entry was made) and is reused for '
                                'a later object once this one is collected: a later call gets what was built for another '
                                'argument' % (keytxt, unparse(idcalls[0])), construct=cons)
                    continue
                val_names = set()
                vexpr = n.value
                if isinstance(vexpr, ast.Name):
                    # value is a local: take (the union of) its definitions
                    vname = vexpr.id
                    defs = [s2.value for s2 in iter_own(f)
                            if isinstance(s2, ast.Assign) and any(
                                isinstance(t, ast.Name) and t.id == vname for t in s2.targets)]
                    # what is put into the value in place (v.add(..), v.update(..)) is part of it as well
                    defs += [a_ for e_ in iter_own(f) if isinstance(e_, ast.Expr) and isinstance(e_.value, ast.Call)
                             for c in [e_.value] if isinstance(c.func, ast.Attribute)
                             and isinstance(c.func.value, ast.Name) and c.func.value.id == vname
                             for a_ in list(c.args) + [k.value for k in c.keywords]]
                    if defs:
                        vexpr = ast.Tuple(elts=defs, ctx=ast.Load())
                for nm in ast.walk(vexpr):
                    if isinstance(nm, ast.Name) and nm.id in ({a.arg for a in f.args.args} |
                                                             ({f.args.kwarg.arg} if f.args.kwarg else set()) |
                                                             {a.arg for a in f.args.kwonlyargs}):
                        val_names.add(nm.id)
                missing = sorted(val_names - flows)
                # attribute-level refinement for `self`: attributes of self the value is built
                # from (also through self.method() calls) must appear in the key
                if 'self' in val_names and 'self' in flows:
                    cls = [p for p in parents(f) if isinstance(p, ast.ClassDef)]
                    vattrs = _self_attrs_through_calls(repo, cls[0] if cls else None, vexpr, 2)
                    kexprs = [key]
                    for s2 in iter_own(f):
                        if isinstance(s2, ast.Assign) and any(
                                isinstance(t, ast.Name) and t.id in flows for t in s2.targets):
                            kexprs.append(s2.value)
                    kattrs = set()
                    for ke in kexprs:
                        kattrs |= {a.attr for a in ast.walk(ke) if is_self_attr(a)}
                    init_only = _init_only_attrs(cls[0]) if cls else set()
                    miss_attrs = sorted(a for a in vattrs - kattrs if a in init_only)
                    if miss_attrs:
                        missing = missing + ['self.' + a for a in miss_attrs]
                if not missing:
                    lossy = _lossy_key_use(f, key, val_names & flows, flows)
                    if lossy:
                        ctx.refuted(rule, mod, n, 'the cache key %s is not a one-to-one function of %s: it '
                                    'enters the key through %s, which can map different values to the '
                                    'same key, while the cached object is built from the value itself: '
                                    'whichever spelling is used first decides what later calls get'
                                    % (keytxt, lossy[0], lossy[1]), construct=cons)
                        continue
                ctx.decide(rule, not missing, mod, n,
                           'memo idiom; cached value built from %s, all part of the key'
                           % sorted(val_names),
                           'cached value depends on %s but the cache key %s does not: a later call '
                           'with a different %s gets the object cached for an earlier one'
                           % (missing, keytxt, '/'.join(missing)),
                           construct=cons)


def _init_only_attrs(cls):
    out = set()
    for n in cls.body:
        if isinstance(n, ast.FunctionDef) and n.name == '__init__':
            for x in ast.walk(n):
                if isinstance(x, ast.Attribute) and isinstance(x.ctx, ast.Store) and is_self_attr(x):
                    out.add(x.attr)
    return out


def _self_attrs_through_calls(repo, cls, expr, depth):
    """self attributes read by expr, following self.method(...) calls `depth` levels."""
    out = set()
    for n in ast.walk(expr):
        if is_self_attr(n) and isinstance(n.ctx, ast.Load):
            par = getattr(n, '_parent', None)
            is_callee = isinstance(par, ast.Call) and par.func is n
            if not is_callee:
                out.add(n.attr)
            elif depth > 0 and cls is not None:
                c, m = repo.lookup_method(cls.name, n.attr)
                if m is not None:
                    out |= _self_attrs_through_calls(repo, c, m, depth - 1)
    return out


INJECTIVE_CALLS = {'tuple', 'list', 'sorted', 'dict', 'frozenset', 'items', 'update', 'str', 'repr',
                   'append', 'extend', 'copy'}


def _lossy_key_use(fn, key, names, flows):
    """(name, offending expression text) if one of `names` reaches the cache key only through an
    operation that is not one-to-one (a table lookup with default, lower(), a slice, arithmetic);
    None if every occurrence on the way to the key sits in tuples/lists/dicts/sorted()/items()"""
    exprs = [key]
    for s in iter_own(fn):
        if isinstance(s, ast.Assign) and any(isinstance(_root(t), ast.Name) and _root(t).id in flows
                                             for t in s.targets):
            exprs.append(s.value)
        elif isinstance(s, ast.Call) and call_name(s) in ('update', 'append', 'extend', 'add') and \
                isinstance(call_recv(s), ast.Name) and call_recv(s).id in flows:
            exprs.extend(s.args)

    def ok_parent(child, par):
        if isinstance(par, (ast.Tuple, ast.List, ast.Dict, ast.Set, ast.keyword, ast.Starred)):
            return True
        if isinstance(par, ast.Attribute) and par.value is child:
            gp = getattr(par, '_parent', None)
            return isinstance(gp, ast.Call) and gp.func is par and par.attr in INJECTIVE_CALLS
        if isinstance(par, ast.Call):
            return call_name(par) in INJECTIVE_CALLS
        return False
    direct = {}
    for root in exprs:
        for n in ast.walk(root):
            if isinstance(n, ast.Name) and n.id in names and isinstance(n.ctx, ast.Load):
                child, par, bad = n, getattr(n, '_parent', None), None
                while child is not root and par is not None:
                    if isinstance(par, ast.Lambda):
                        break
                    if not ok_parent(child, par):
                        bad = par
                        break
                    child, par = par, getattr(par, '_parent', None)
                direct.setdefault(n.id, []).append(bad)
    for nm, lst in sorted(direct.items()):
        if lst and all(b is not None for b in lst):
            return nm, short(lst[0], 70)
    return None


def _flows_into(fn, expr):
    """Names that (transitively, path-insensitively) flow into the value of expr via local
    assignments, augmented assignments and X.update(Y)/X.append(Y)."""
    want = {n.id for n in ast.walk(expr) if isinstance(n, ast.Name)}
    changed = True
    edges = {}
    for s in iter_own(fn):
        if isinstance(s, ast.Assign):
            src = {n.id for n in ast.walk(s.value) if isinstance(n, ast.Name)}
            for t in s.targets:
                for tt in (t.elts if isinstance(t, (ast.Tuple, ast.List)) else [t]):
                    r = _root(tt)
                    if isinstance(r, ast.Name):
                        edges.setdefault(r.id, set()).update(src)
        elif isinstance(s, ast.AugAssign) and isinstance(s.target, ast.Name):
            edges.setdefault(s.target.id, set()).update(
                n.id for n in ast.walk(s.value) if isinstance(n, ast.Name))
        elif isinstance(s, ast.Call) and call_name(s) in ('update', 'append', 'extend', 'add') and \
                isinstance(call_recv(s), ast.Name):
            edges.setdefault(call_recv(s).id, set()).update(
                n.id for a in list(s.args) + [k.value for k in s.keywords]
                for n in ast.walk(a) if isinstance(n, ast.Name))
    while changed:
        changed = False
        for w in list(want):
            for src in edges.get(w, ()):
                if src not in want:
                    want.add(src)
                    changed = True
    return want


def _mutable_defaults(ctx, repo):
    n = 0
    for mod, q, f in repo.all_functions():
        if mod.name.endswith('__main__'):
            continue
        args = f.args
        pos = args.args
        defaults = args.defaults
        pairs = list(zip(pos[len(pos) - len(defaults):], defaults)) + \
            [(a, d) for a, d in zip(args.kwonlyargs, args.kw_defaults) if d is not None]
        for a, d in pairs:
            mutable = isinstance(d, (ast.List, ast.Dict, ast.Set)) or (
                isinstance(d, ast.Call) and call_name(d) in ('list', 'dict', 'set'))
            if not mutable:
                continue
            n += 1
            bad = []
            for x in iter_own(f):
                if isinstance(x, ast.Call) and call_name(x) in MUTATORS and \
                        isinstance(call_recv(x), ast.Name) and call_recv(x).id == a.arg:
                    bad.append(x)
                if isinstance(x, (ast.Assign, ast.AugAssign)):
                    for t in (x.targets if isinstance(x, ast.Assign) else [x.target]):
                        if isinstance(t, ast.Subscript) and isinstance(t.value, ast.Name) and \
                                t.value.id == a.arg:
                            bad.append(x)
                        if isinstance(x, ast.AugAssign) and isinstance(t, ast.Name) and t.id == a.arg:
                            bad.append(x)
                    # stored as is on an object (aliasing the default object): a violation
                    # only if that attribute is mutated in place somewhere in the package
                    if isinstance(x, ast.Assign) and isinstance(x.value, ast.Name) and \
                            x.value.id == a.arg:
                        for t in x.targets:
                            if isinstance(t, ast.Attribute) and _attr_mutated(repo, t.attr):
                                bad.append(x)
            if bad:
                for b in bad:
                    ctx.refuted('R09c', mod, b, 'mutable default value of parameter %s is mutated in '
                                                'place or stored on an object: the default is shared '
                                                'by all calls' % a.arg,
                                construct='%s(%s=%s): %s' % (q, a.arg, short(d), short(b, 60)))
            else:
                ctx.holds('R09c', mod, f, 'default %s=%s only read' % (a.arg, short(d)),
                          construct='%s(%s=%s)' % (q, a.arg, short(d)))
    ctx.analysed['mutable_defaults'] = n


_ATTR_MUT_CACHE = {}


def _attr_mutated(repo, attr):
    """Some statement in the package mutates `<anything>.<attr>` in place."""
    key = (id(repo), attr)
    if key not in _ATTR_MUT_CACHE:
        found = False
        for mod in repo.modules.values():
            for n in ast.walk(mod.tree):
                if isinstance(n, ast.Call) and call_name(n) in MUTATORS and \
                        isinstance(call_recv(n), ast.Attribute) and call_recv(n).attr == attr:
                    found = True
                elif isinstance(n, (ast.Assign, ast.AugAssign)):
                    for t in (n.targets if isinstance(n, ast.Assign) else [n.target]):
                        if isinstance(t, ast.Subscript) and isinstance(t.value, ast.Attribute) \
                                and t.value.attr == attr:
                            found = True
                        if isinstance(n, ast.AugAssign) and isinstance(t, ast.Attribute) and \
                                t.attr == attr and isinstance(n.op, ast.Add):
                            found = True
        _ATTR_MUT_CACHE[key] = found
    return _ATTR_MUT_CACHE[key]


def _db_mutators(ctx, repo):
    for mod in repo.modules.values():
        if mod.name.endswith('__main__'):
            continue
        for n in ast.walk(mod.tree):
            if not (isinstance(n, ast.Call) and isinstance(n.func, ast.Attribute)):
                continue
            cn = n.func.attr
            if cn not in DB_MUTATORS and cn != 'freeze':
                continue
            f = enclosing_func(n)
            if f is None:
                continue
            r = n.func.value
            qn = getattr(f, '_qualname', getattr(f, 'name', '?'))
            cons = '%s: %s' % (qn, short(n, 70))
            if cn == 'freeze':
                ok = qn == 'LatexWalker.__init__'
                ctx.decide('R09d', ok, mod, n, 'documented: the walker freezes the database it is given',
                           'freeze() of a database outside LatexWalker.__init__', construct=cons)
                continue
            if isinstance(r, ast.Name) and r.id == 'self':
                continue   # the mutator's own class (C14 M3 covers the guard)
            fresh = False
            if isinstance(r, ast.Name):
                for s in iter_own(f):
                    if isinstance(s, ast.Assign) and any(isinstance(t, ast.Name) and t.id == r.id
                                                         for t in s.targets):
                        v = s.value
                        if isinstance(v, ast.Call) and call_name(v) in FRESH_DB_CALLS:
                            fresh = True
                        else:
                            fresh = False
                            break
            ctx.decide('R09d', fresh, mod, n,
                       'database %s was created in this function' % unparse(r),
                       '%s() is called on %s, a database this function did not create: parsing / '
                       'set-up code modifies a database it was given' % (cn, unparse(r)),
                       construct=cons)



def object_memos(ctx, rule, repo, modfilter):
    """per-object memo dictionaries (self.X = {} in __init__, self.X[key] = value elsewhere): every
    parameter the stored value is computed from reaches the key through one-to-one operations
    only.  Returns the number of memo stores examined."""
    n = 0
    for mod in sorted(repo.modules.values(), key=lambda m_: m_.name):
        if not modfilter(mod.name):
            continue
        for cls in [c for c in ast.walk(mod.tree) if isinstance(c, ast.ClassDef)]:
            init = [f for f in cls.body if isinstance(f, ast.FunctionDef) and f.name == '__init__']
            if not init:
                continue
            dicts = {x.targets[0].attr for x in ast.walk(init[0]) if isinstance(x, ast.Assign)
                     and len(x.targets) == 1 and is_self_attr(x.targets[0]) and (
                         (isinstance(x.value, ast.Dict) and not x.value.keys) or
                         (isinstance(x.value, ast.Call) and call_name(x.value) == 'dict' and not x.value.args
                          and not x.value.keywords))}
            if not dicts:
                continue
            for f in [g for g in cls.body if isinstance(g, ast.FunctionDef) and g.name != '__init__']:
                params = {a.arg for a in f.args.args[1:]} | {a.arg for a in f.args.kwonlyargs}
                for st in iter_own(f):
                    if not (isinstance(st, ast.Assign) and len(st.targets) == 1 and
                            isinstance(st.targets[0], ast.Subscript) and is_self_attr(st.targets[0].value)
                            and st.targets[0].value.attr in dicts):
                        continue
                    key = st.targets[0].slice
                    reads = [x for x in ast.walk(f) if isinstance(x, (ast.Subscript, ast.Call)) and (
                        (isinstance(x, ast.Subscript) and isinstance(x.ctx, ast.Load) and
                         unparse(x.value) == unparse(st.targets[0].value)) or
                        (isinstance(x, ast.Call) and call_name(x) == 'get' and call_recv(x) is not None and
                         unparse(call_recv(x)) == unparse(st.targets[0].value)))]
                    if not reads:
                        continue            # a record, not a memo: nothing is answered from it here
                    n += 1
                    flows = _flows_into(f, key)
                    vflows = _flows_into(f, st.value)
                    val_params = vflows & params
                    missing = sorted(val_params - flows)
                    cons = '%s.%s: memo self.%s' % (cls.name, f.name, st.targets[0].value.attr)
                    if missing:
                        ctx.refuted(rule, mod, st, 'the value remembered in self.%s depends on %s but the key %s '
                                    'does not: a later call with a different %s is answered with the value '
                                    'remembered for an earlier one' % (st.targets[0].value.attr, missing,
                                                                        short(key, 60), '/'.join(missing)),
                                    construct=cons)
                        continue
                    lossy = _lossy_key_use(f, key, val_params & flows, flows)
                    ctx.decide(rule, not lossy, mod, st,
                               'memo key %s is a one-to-one function of %s' % (short(key, 60), sorted(val_params)),
                               'the memo key %s is not a one-to-one function of %s: it enters the key through %s, '
                               'which maps different values to the same key (all lambdas share one __name__), '
                               'while the remembered value is computed from the value itself: a second object '
                               'with the same key is answered with the first one\'s data'
                               % (short(key, 60), lossy[0] if lossy else '', lossy[1] if lossy else ''),
                               construct=cons)
    return n



def default_db_fresh(ctx, rule, repo):
    """the getters of the default databases hand out a database built by that very call: the
    object is documented as the caller's to extend (add_context_category), so one shared instance
    would let one caller's additions change every later default conversion / parse"""
    from .. import symex
    n = 0
    for modname in ('pylatexenc.latex2text', 'pylatexenc.latexwalker._get_defaultspecs'):
        mod = repo.mod(modname)
        f = mod.functions.get('get_default_latex_context_db')
        if f is None:
            raise AnalysisError('anchor vanished: %s.get_default_latex_context_db' % modname)
        n += 1
        glob = [g for g in iter_own(f) if isinstance(g, (ast.Global, ast.Nonlocal))]
        try:
            rcs = [c for c in symex.Walker(want_returns=True).run(f) if c.kind == 'return']
        except symex.TooManyPaths:
            rcs = []
        stale = None
        for c in rcs:
            d = symex.resolve(c.sub, c.env)
            fresh = isinstance(d, ast.Call) and call_name(d) == 'LatexContextDb'
            if not fresh and stale is None:
                stale = c
        ctx.decide(rule, bool(rcs) and stale is None and not glob, mod, (stale.node if stale else (glob[0] if glob else f)),
                   '%s.get_default_latex_context_db returns a LatexContextDb() constructed by the call on every path'
                   % modname,
                   '%s.get_default_latex_context_db %s: callers are told to extend the returned database, so a '
                   'remembered instance makes one caller\'s add_context_category() change the rendering / parsing of '
                   'every later default-constructed object in the process'
                   % (modname, ('returns %s, which is not a database constructed by this call' % short(stale.sub, 50))
                      if stale else 'rebinds module state (%s)' % (short(glob[0], 50) if glob else '')),
                   construct='%s: default database is fresh' % modname)
    return n
