# -*- coding: utf-8 -*-
"""C10  Each node's math/text mode is the one implied by the enclosing structure.

R10a math parser: contents state = outer state + EnterMathMode(delimiter of the
opening token), node keeps the outer state, displaytype/delimiters recorded;
R10b walker events; R10c default-table modes; R10d delimiter choice in the token
reader; R10f a parser never re-binds the parsing state it was given (per-argument
and per-child states are separate values); R10g state factories derive their
result from the state they are given (no remembered state)."""
import ast
from ..core import (AnalysisError, short, unparse, iter_own, call_name, call_recv, kwarg,
                    is_self_attr, atomic_facts, parents, enclosing_stmt, enclosing_func, const_value)
from .. import tables, symex
from . import gcommon

MATH = 'pylatexenc.latexnodes.parsers._math'
DELTA = 'pylatexenc.latexnodes._parsingstatedelta'
WBASE = 'pylatexenc.latexnodes._walkerbase'
TR = 'pylatexenc.latexnodes._tokenreader'
PS = 'pylatexenc.latexnodes._parsingstate'
ARGP = 'pylatexenc.macrospec._argumentsparser'
CALLP = 'pylatexenc.macrospec._macrocallparser'
DELIM = 'pylatexenc.latexnodes.parsers._delimited'
COLL = 'pylatexenc.latexnodes._nodescollector'

TEXT_MACROS = ('text', 'textrm', 'textit', 'textbf', 'textsc', 'textsl', 'textsf', 'texttt',
               'textmd', 'textup', 'mbox')


def _state_from_delta(fn, delta_method):
    """None if some structural path builds get_updated_parsing_state_from_delta(<the parsing_state
    parameter>, self.<delta_method>(...), ...) and no path updates another state; else the reason"""
    params = [a.arg for a in fn.args.args]
    try:
        cases = symex.sink_cases(fn, lambda c: call_name(c) == 'get_updated_parsing_state_from_delta')
    except symex.TooManyPaths as e:
        return str(e)
    if not cases:
        return 'get_updated_parsing_state_from_delta is never called'
    seen = False
    for cs in cases:
        if len(cs.sub.args) < 2:
            return 'update called with %d arguments' % len(cs.sub.args)
        P, D = cs.sub.args[0], cs.sub.args[1]
        d_ = cs.env.get('#def', {}).get(D.id) if isinstance(D, ast.Name) else None
        if isinstance(d_, ast.AST):
            D = d_
        if isinstance(D, ast.Call) and call_name(D) == delta_method:
            seen = True
            if not (isinstance(P, ast.Name) and P.id in params and 'parsing_state' in P.id):
                return 'the state updated by %s is %s, not the parsing state of the call' % (
                    delta_method, short(P))
    if not seen:
        return 'no update uses self.%s()' % delta_method
    return None


def _loop_var_over(f, name, attr):
    """is `name` bound by a for loop of f iterating over (an enumerate of) self.<attr>"""
    for l in iter_own(f):
        if isinstance(l, ast.For) and any(isinstance(n, ast.Name) and n.id == name for n in ast.walk(l.target)) \
                and any(is_self_attr(n, attr) for n in ast.walk(l.iter)):
            return True
    return False


def _per_argument_state(meths, ap):
    """(reason or None, node, number of cases).  The state handed to parse_content for an
    argument must be get_updated_parsing_state_from_delta(<call state>, <that argument>.
    parsing_state_delta, ...) -- or the call state itself on a path where that delta is None --
    on every structural path, whether the loop body lives in parse() or in a helper method."""
    n = 0
    where = None
    for fname, f in sorted(meths.items()):
        fparams = [a.arg for a in f.args.args]
        try:
            cases = symex.sink_cases(f, lambda c: call_name(c) == 'parse_content')
        except symex.TooManyPaths as e:
            return str(e), f, n
        for cs in cases:
            n += 1
            where = cs.node
            st = cs.sub.args[2] if len(cs.sub.args) > 2 else kwarg(cs.sub, 'parsing_state')
            if st is None:
                return 'parse_content is called without a parsing state', cs.node, n
            d = cs.env.get('#def', {}).get(st.id) if isinstance(st, ast.Name) else None
            if isinstance(d, ast.AST):
                st = d
            path = ' & '.join(cs.cond_src())[:100]
            if isinstance(st, ast.Call) and call_name(st) == 'get_updated_parsing_state_from_delta' \
                    and len(st.args) >= 2:
                P, D = st.args[0], st.args[1]
                if not (isinstance(D, ast.Attribute) and D.attr == 'parsing_state_delta'
                        and isinstance(D.value, ast.Name)):
                    return 'the delta applied is %s, not <argument spec>.parsing_state_delta' % short(D), cs.node, n
                A = D.value.id
            elif isinstance(st, ast.Name):
                # the call state itself: only on a path where the argument's delta is None
                P = st
                A = None
                for t, pol in cs.conds:
                    for a, ap_ in symex._atoms(t, pol):
                        tx = unparse(a)
                        if (ap_ and tx.endswith('.parsing_state_delta is None')) or \
                                (not ap_ and tx.endswith('.parsing_state_delta is not None')) or \
                                (not ap_ and tx.endswith('.parsing_state_delta')):
                            A = tx.split('.parsing_state_delta')[0]
                if A is None:
                    return ('on the path [%s] the argument is parsed in state %s, which is not the '
                            'call state updated by the argument\'s delta (a state left over from an '
                            'earlier argument leaks into this one)' % (path, short(st))), cs.node, n
            else:
                return 'on the path [%s] the argument state is %s' % (path, short(st)), cs.node, n
            if not (isinstance(P, ast.Name) and P.id in fparams):
                return ('the state updated is %s, not the state the parser was called with'
                        % short(P)), cs.node, n
            # relate P and A to parse()'s own state / loop variable
            if f is ap:
                if P.id != ap.args.args[3].arg:
                    return 'the state updated is parameter %s, not the parsing state' % P.id, cs.node, n
                if not _loop_var_over(f, A, 'arguments_spec_list'):
                    return '%s is not the loop variable over self.arguments_spec_list' % A, cs.node, n
            else:
                if A not in fparams:
                    return '%s is neither a parameter nor the loop variable' % A, cs.node, n
                hp = fparams[1:]
                ok_call = False
                try:
                    hc = symex.sink_cases(ap, lambda c: call_name(c) == fname and
                                          isinstance(c.func, ast.Attribute) and unparse(c.func.value) == 'self')
                except symex.TooManyPaths as e:
                    return str(e), ap, n
                for h in hc:
                    amap = dict(zip(hp, h.sub.args))
                    amap.update((k.arg, k.value) for k in h.sub.keywords if k.arg)
                    pa, aa = amap.get(P.id), amap.get(A)
                    if pa is None or aa is None:
                        continue
                    if not (isinstance(pa, ast.Name) and pa.id == ap.args.args[3].arg):
                        return ('parse() hands %s to %s as the state, not its own parsing state'
                                % (short(pa), fname)), h.node, n
                    if not (isinstance(aa, ast.Name) and _loop_var_over(ap, aa.id, 'arguments_spec_list')):
                        return ('parse() hands %s to %s as the argument spec, not the loop variable '
                                'over self.arguments_spec_list' % (short(aa), fname)), h.node, n
                    ok_call = True
                if not ok_call:
                    return 'parse() does not call %s with the state and the argument spec' % fname, f, n
    if n == 0:
        return 'no parse_content call in LatexArgumentsParser', ap, 0
    return None, where, n


def run(ctx):
    repo = ctx.repo
    ctx.rule('R10a', 'math parser: the contents are parsed in the outer state updated by '
                     'ParsingStateDeltaEnterMathMode(math_mode_delimiter=<opening token text>); the '
                     'math node records the outer state, the display type of its token kind and the '
                     'parsed delimiters; the closing test uses the same token kind and the expected '
                     'closer', 5)
    ctx.rule('R10b', 'walker events: enter_math_mode sets in_math_mode=True and forwards its '
                     'delimiter, leave_math_mode sets False/None; the event names used by the delta '
                     'classes exist on the handler', 4)
    ctx.rule('R10c', 'default table: \\text-like macros and \\mbox parse their argument in text mode, '
                     '\\ensuremath in math mode, math environments are declared is_math_mode', 12)
    ctx.rule('R10d', 'token reader: in math mode the expected closing delimiter is tested before the '
                     'scan of all delimiters, which is ordered by decreasing length', 3)
    ctx.rule('R10f', 'a parse method never re-binds the parsing_state it was given: per-argument, '
                     'per-body and per-child states are separate values, so one argument\'s mode '
                     'does not leak into the next', 40)
    ctx.rule('R10g', 'state factories (get_group_parsing_state, make_child_parsing_state, '
                     'get_updated_parsing_state) derive their result from their parsing_state '
                     'argument / the states fixed at construction; no state remembered from an '
                     'earlier call is returned', 8)
    ctx.rule('R10i', 'legacy MacroStandardArgsParser(args_math_mode=[...]): None keeps the mode, True and '
                     'False set math and text mode (False is not "unset")', 1)
    ctx.rule('R10h', 'per-argument and per-body deltas: the arguments parser applies each '
                     'argument\'s own delta to the state of the call; the environment body state is '
                     'the call state updated by the spec\'s body delta; EnterMathMode for '
                     'is_math_mode environments', 4)

    mm = repo.mod(MATH)
    mi = mm.methods('LatexMathParserInfo')
    init = mi.get('initialize')
    mg = mi.get('make_group_node_and_parsing_state_delta')
    st = mi.get('stop_token_condition')
    if init is None or mg is None or st is None:
        raise AnalysisError('anchor vanished: LatexMathParserInfo.initialize/make_group_node/stop_token_condition')
    # R10a
    TR_ = ('self.math_mode_delimiter', 'self.math_parsing_state', 'self.contents_parsing_state',
           'self.math_mode_type')
    ends = [c for c in symex.Walker(want_exits=True, track_attrs=TR_).run_block(init.body)
            if c.kind in ('end', 'return')]
    why = None
    if not ends:
        why = 'initialize() has no normal exit'
    for cs in ends:
        mps = symex.resolve(cs.env.get('self.math_parsing_state') or ast.Constant(value=None), cs.env)
        if not (isinstance(mps, ast.Call) and call_name(mps) == 'get_updated_parsing_state_from_delta'
                and len(mps.args) >= 2):
            why = 'self.math_parsing_state is %s' % short(mps)
            break
        base, delta = mps.args[0], symex.resolve(mps.args[1], cs.env)
        dl = kwarg(delta, 'math_mode_delimiter') if isinstance(delta, ast.Call) else None
        if unparse(base) != 'self.parsing_state':
            why = 'the state updated is %s, not the outer state' % short(base)
        elif not (isinstance(delta, ast.Call) and call_name(delta) == 'ParsingStateDeltaEnterMathMode'):
            why = 'the delta applied is %s, not EnterMathMode' % short(delta)
        elif dl is None or unparse(dl) != 'self.first_token.arg':
            why = 'the delimiter recorded is %s, not the opening token' % (short(dl) if dl is not None else 'missing')
    ctx.decide('R10a', why is None, mm, init,
               'contents state = outer state + EnterMathMode(delimiter = opening token)',
               'the math contents state is not the outer state updated by '
               'EnterMathMode(math_mode_delimiter=<opening token>) (%s): the wrong closing delimiter '
               'is expected / the mode is not entered' % why, construct='LatexMathParserInfo.initialize')
    why = None
    for cs in ends:
        cps, mps = cs.env.get('self.contents_parsing_state'), cs.env.get('self.math_parsing_state')
        mt = cs.env.get('self.math_mode_type')
        if cps is None or mps is None or unparse(cps) != unparse(mps):
            why = 'the contents are parsed in %s' % (short(cps) if cps is not None else 'an unset state')
        elif mt is None or unparse(mt) != 'self.first_token.tok':
            why = 'the token kind remembered is %s' % (short(mt) if mt is not None else 'not set')
    ctx.decide('R10a', why is None and bool(ends), mm, init,
               'contents parsed in the math state; kind remembered from the token',
               'initialize(): %s' % why, construct='LatexMathParserInfo.initialize: contents state')
    mkc = symex.sink_cases(mg, lambda c: call_name(c) == 'make_node')
    why = None if mkc else 'no node is built'
    dt = {}
    for cs in mkc:
        k = cs.sub
        if unparse(kwarg(k, 'parsing_state') or ast.Constant(0)) != 'self.parsing_state':
            why = 'the math node records the state %s, not the outer state' % short(kwarg(k, 'parsing_state'))
        elif unparse(kwarg(k, 'delimiters') or ast.Constant(0)) != 'self.parsed_delimiters':
            why = 'the math node records the delimiters %s' % short(kwarg(k, 'delimiters'))
        d_ = kwarg(k, 'displaytype')
        d_ = symex.resolve(d_, cs.env) if d_ is not None else None
        if isinstance(d_, ast.Constant):
            for t_, pol in cs.conds:
                for a, ap in symex._atoms(t_, pol):
                    if ap and isinstance(a, ast.Compare) and unparse(a.left) == 'self.math_mode_type' and \
                            isinstance(a.ops[0], ast.Eq) and isinstance(a.comparators[0], ast.Constant):
                        dt[a.comparators[0].value] = d_.value
        elif isinstance(d_, ast.Call) and call_name(d_) == 'get' and d_.args and \
                unparse(d_.args[0]) == 'self.math_mode_type' and isinstance(call_recv(d_), ast.Name):
            try:
                lit = mm.toplevel_assign(call_recv(d_).id)
            except AnalysisError:
                lit = None
            if isinstance(lit, ast.Dict):
                for kk, vv in zip(lit.keys, lit.values):
                    if isinstance(kk, ast.Constant) and isinstance(vv, ast.Constant):
                        dt[kk.value] = vv.value
        elif d_ is None:
            why = 'the math node has no display type'
    ctx.decide('R10a', why is None, mm, mkc[0].node if mkc else mg,
               'math node: outer state, parsed delimiters, display type',
               'make_group_node_and_parsing_state_delta: %s' % why, construct='math node fields')
    ok = dt.get('mathmode_inline') == 'inline' and dt.get('mathmode_display') == 'display'
    ctx.decide('R10a', ok, mm, mg, 'mathmode_inline -> inline, mathmode_display -> display',
               'display type mapping is %s' % dt, construct='display type mapping')
    for r in [r for r in iter_own(st) if isinstance(r, ast.Return) and isinstance(r.value, ast.Constant)
              and r.value.value is True]:
        facts = [unparse(t) for t, pol in atomic_facts(r) if pol]
        ok = 'token.tok == self.math_mode_type' in facts and 'token.arg == self.parsed_delimiters[1]' in facts
        ctx.decide('R10a', ok, mm, r, 'closes on the same token kind and the expected closer',
                   'the math closing test is %s: $a$$b$ / $$a$$ are split wrongly' % facts,
                   construct='LatexMathParserInfo.stop_token_condition')
    gmd = mi.get('get_matching_delimiter')
    ok = False
    if gmd is not None:
        # every returned value, locals expanded, is <..>.math_parsing_state._math_expecting_close_delim_info['close_delim']
        try:
            grs = [c_ for c_ in symex.Walker(want_returns=True).run(gmd) if c_.kind == 'return']
        except symex.TooManyPaths:
            grs = []
        ok = bool(grs) and all(unparse(symex.expand(c_.sub, c_.env)).replace('"', "'") ==
                               "self.math_parsing_state._math_expecting_close_delim_info['close_delim']" for c_ in grs)
    ctx.decide('R10a', ok, mm, gmd or init, 'closing delimiter taken from the math state\'s table',
               'get_matching_delimiter does not read the expected closer from the math state',
               construct='LatexMathParserInfo.get_matching_delimiter', trivial=True)

    # R10b
    wb = repo.mod(WBASE)
    hm = wb.methods('LatexWalkerParsingStateEventHandler')
    dm = repo.mod(DELTA)
    for ev, want in (('enter_math_mode', {'in_math_mode': 'True', 'math_mode_delimiter': 'math_mode_delimiter'}),
                     ('leave_math_mode', {'in_math_mode': 'False', 'math_mode_delimiter': 'None'})):
        f = hm.get(ev)
        got = {}
        if f is not None:
            for cs in symex.return_cases(f):
                v = symex.resolve(cs.sub, cs.env)
                sa = kwarg(v, 'set_attributes') if isinstance(v, ast.Call) else None
                sa = symex.resolve(sa, cs.env) if sa is not None else None
                if isinstance(sa, ast.Call) and call_name(sa) == 'dict':
                    got = {k.arg: unparse(k.value) for k in sa.keywords}
                elif isinstance(sa, ast.Dict):
                    got = {(k.value if isinstance(k, ast.Constant) else unparse(k)): unparse(v2)
                           for k, v2 in zip(sa.keys, sa.values)}
        ctx.decide('R10b', f is not None and got == want, wb, f or wb.cls('LatexWalkerParsingStateEventHandler'),
                   '%s -> %s' % (ev, want), 'event %s sets %s (expected %s)' % (ev, got, want),
                   construct='event handler ' + ev)
    for cls, ev in (('ParsingStateDeltaEnterMathMode', 'enter_math_mode'),
                    ('ParsingStateDeltaLeaveMathMode', 'leave_math_mode')):
        f = dm.methods(cls).get('__init__')
        ok, why = False, 'no __init__'
        if f is not None:
            base_init = dm.methods('ParsingStateDeltaWalkerEvent').get('__init__')
            bparams = [a.arg for a in base_init.args.args][1:] if base_init is not None else []
            sup = symex.sink_cases(f, lambda c: call_name(c) == '__init__' and isinstance(c.func, ast.Attribute)
                                   and isinstance(c.func.value, ast.Call) and call_name(c.func.value) == 'super')
            why = 'the walker-event constructor is not called'
            for cs in sup:
                byname = dict(zip(bparams, cs.sub.args))
                byname.update((k.arg, k.value) for k in cs.sub.keywords if k.arg)
                evn = byname.get('walker_event_name')
                kws = byname.get('walker_event_kwargs')
                kws = symex.resolve(kws, cs.env) if kws is not None else None
                kmap = {}
                if isinstance(kws, ast.Call) and call_name(kws) == 'dict':
                    kmap = dict((k.arg, unparse(k.value)) for k in kws.keywords)
                elif isinstance(kws, ast.Dict):
                    kmap = dict((k.value if isinstance(k, ast.Constant) else unparse(k), unparse(v_))
                                for k, v_ in zip(kws.keys, kws.values))
                ok = isinstance(evn, ast.Constant) and evn.value == ev and ev in hm
                why = 'event name %s' % (short(evn) if evn is not None else 'missing')
                if ok and cls.endswith('EnterMathMode'):
                    ok = kmap.get('math_mode_delimiter') == 'math_mode_delimiter'
                    why = 'event arguments %s' % kmap
        ctx.decide('R10b', ok, dm, f or dm.cls(cls), '%s fires %s' % (cls, ev),
                   '%s does not fire the handler event %s with its arguments (%s)' % (cls, ev, why),
                   construct=cls + ' event')
    we = dm.methods('ParsingStateDeltaWalkerEvent').get('get_updated_parsing_state')
    if we is None:
        raise AnalysisError('anchor vanished: ParsingStateDeltaWalkerEvent.get_updated_parsing_state')
    wp_ = [a.arg for a in we.args.args]
    want_txt = ('get_updated_parsing_state_from_delta(%s, getattr(%s.parsing_state_event_handler(), '
                'self.walker_event_name)(**self.walker_event_kwargs), %s)' % (wp_[1], wp_[2], wp_[2]))
    rcs = symex.return_cases(we)
    want_d = 'getattr(%s.parsing_state_event_handler(), self.walker_event_name)(**self.walker_event_kwargs)' % wp_[2]
    got_txt = []
    for c in rcs:
        e_ = symex.inline_value_helpers(symex.expand(c.sub, c.env, depth=6), dm.methods('ParsingStateDeltaWalkerEvent'))
        g_ = unparse(e_)
        if isinstance(e_, ast.Call) and call_name(e_) == 'get_updated_parsing_state' and call_recv(e_) is not None \
                and len(e_.args) == 2 and unparse(call_recv(e_)) == want_d and unparse(e_.args[0]) == wp_[1] \
                and unparse(e_.args[1]) == wp_[2]:
            g_ = want_txt           # the helper written out: delta.get_updated_parsing_state(state, walker)
        elif isinstance(e_, ast.Name) and e_.id == wp_[1] and any(
                pol and unparse(symex.expand(t_, c.env, depth=6)) == want_d + ' is None' for t_, pol in c.conds):
            g_ = want_txt           # no delta from the handler: the state is returned unchanged
        got_txt.append(g_)
    ctx.decide('R10b', bool(rcs) and all(g == want_txt for g in got_txt), dm, we,
               'event resolved on the walker\'s handler and applied to the given state',
               'ParsingStateDeltaWalkerEvent does not apply the handler\'s delta to the state it is '
               'given: returns %s' % (got_txt[:1]),
               construct='ParsingStateDeltaWalkerEvent.get_updated_parsing_state')

    # R10b: the enter/leave deltas are applied through the walker event only
    for cls in ('ParsingStateDeltaEnterMathMode', 'ParsingStateDeltaLeaveMathMode'):
        own = dm.methods(cls).get('get_updated_parsing_state')
        if own is None:
            ctx.holds('R10b', dm, dm.cls(cls), '%s inherits get_updated_parsing_state from the walker-event delta' % cls,
                      construct=cls + ': application', trivial=True)
            continue
        bad = None
        for cs in symex.return_cases(own):
            v = symex.resolve(cs.sub, cs.env)
            if not (isinstance(v, ast.Call) and isinstance(v.func, ast.Attribute) and
                    isinstance(v.func.value, ast.Call) and call_name(v.func.value) == 'super'):
                bad = cs
        ctx.decide('R10b', bad is None, dm, bad.node if bad else own,
                   '%s applies the walker event on every path' % cls,
                   '%s.get_updated_parsing_state returns %s on the path [%s] instead of the state derived by '
                   'the walker event: a formula opened while the state is already in math mode (inside a '
                   'group or an unknown macro\'s argument in math) keeps the OUTER delimiter, so its closing '
                   'delimiter is not recognised / the recorded delimiters are wrong'
                   % (cls, short(bad.sub) if bad else '', ' & '.join(bad.cond_src()) if bad else ''),
                   construct=cls + ': application')

    # R10i: legacy per-argument modes: None = keep, True = math, False = text
    bm = repo.mod('pylatexenc.macrospec._pyltxenc2_argparsers._base')
    gi = bm.functions.get('MacroStandardArgsParser.parse_args.<locals>.get_inner_parsing_state')
    if gi is None:
        cand = [f_ for q_, f_ in bm.functions.items() if q_.endswith('get_inner_parsing_state')]
        gi = cand[0] if cand else None
    if gi is None:
        ctx.unknown('R10i', bm, None, 'get_inner_parsing_state not found', construct='legacy argument modes')
    else:
        why = None
        n_keep = n_set = 0
        for cs in symex.return_cases(gi):
            v = cs.sub
            if isinstance(v, ast.Name):        # state returned unchanged
                n_keep += 1
                for t_, pol in cs.conds:
                    if not pol:
                        continue
                    for dj in (t_.values if isinstance(t_, ast.BoolOp) and isinstance(t_.op, ast.Or) else [t_]):
                        tx = unparse(dj)
                        if tx.endswith(' is None') or (isinstance(dj, ast.Compare) and isinstance(dj.ops[0], ast.Eq)
                                                       and 'in_math_mode' in tx):
                            continue
                        if isinstance(dj, ast.UnaryOp) and isinstance(dj.op, ast.Not) or isinstance(dj, ast.Name):
                            why = ('the state is returned unchanged when %s holds: an entry False (force text '
                                   'mode) is treated like None (keep the mode), so the argument of a legacy '
                                   'text-like macro stays in math mode' % tx)
            elif isinstance(v, ast.Call) and call_name(v) == 'sub_context':
                n_set += 1
                im = kwarg(v, 'in_math_mode')
                if im is None:
                    why = 'a per-argument state does not set in_math_mode'
            else:
                why = 'returns %s' % short(v)
        if why is None and not (n_keep and n_set):
            why = 'keep / set cases not both present'
        ctx.decide('R10i', why is None, bm, gi, 'None keeps the mode, True/False set it',
                   'legacy args_math_mode: %s' % why, construct='get_inner_parsing_state')

    # R10c
    wt = tables.WalkerTable(repo)
    for name in TEXT_MACROS:
        e = wt.macros.get(name)
        modes = [mo for (_, mo) in (e['args'] or [])] if e else []
        ctx.decide('R10c', e is not None and modes == ['text'], wt.mod, e['rec'].node if e else None,
                   '\\%s: one argument parsed in text mode' % name,
                   '\\%s is declared with argument modes %s (expected one text-mode argument): its '
                   'argument is recorded in the wrong mode inside formulas' % (name, modes),
                   construct='walker table: \\' + name)
    e = wt.macros.get('ensuremath')
    modes = [mo for (_, mo) in (e['args'] or [])] if e else []
    ctx.decide('R10c', modes == ['math'], wt.mod, e['rec'].node if e else None,
               '\\ensuremath: argument parsed in math mode',
               '\\ensuremath is declared with argument modes %s' % modes,
               construct='walker table: \\ensuremath')
    lt = tables.L2TTable(repo)
    for name, le in sorted(lt.environments.items()):
        if getattr(le['repl'], 'name', None) != 'fmt_equation_environment':
            continue
        we_ = wt.environments.get(name)
        if we_ is None:
            continue     # not known to the walker (e.g. dmath): parsed as unknown environment
        ctx.decide('R10c', we_['is_math_mode'], wt.mod, we_['rec'].node,
                   'environment %s is parsed in math mode' % name,
                   'environment %s is rendered as an equation but the walker does not parse its body '
                   'in math mode' % name, construct='walker table: environment ' + name)

    # R10d
    tr = repo.mod(TR)
    mr = tr.methods('LatexTokenReader').get('impl_maybe_read_math_mode_delimiter')
    if mr is None:
        raise AnalysisError('anchor vanished: impl_maybe_read_math_mode_delimiter')
    loops = [l for l in iter_own(mr) if isinstance(l, ast.For) and '_math_all_delims_by_len' in unparse(l.iter)]
    psn = [a.arg for a in mr.args.args if 'parsing_state' in a.arg]
    psn = psn[0] if psn else 'parsing_state'
    info = psn + '._math_expecting_close_delim_info'
    closers, why = [], None
    for cs in symex.sink_cases(mr, lambda c: call_name(c) == 'make_token'):
        a_, t_ = kwarg(cs.sub, 'arg'), kwarg(cs.sub, 'tok')
        if a_ is None or t_ is None:
            continue
        ax, tx = unparse(symex.expand(a_, cs.env)), unparse(symex.expand(t_, cs.env))
        if ax.replace('"', "'") != info + "['close_delim']":
            continue
        closers.append(cs)
        facts = set()
        for c_, pol in cs.conds:
            for a2, ap in symex._atoms(c_, pol):
                facts.add((unparse(symex.expand(a2, cs.env)).replace('"', "'"), ap))
        if tx.replace('"', "'") != info + "['tok']":
            why = 'the closing token has kind %s, not the kind recorded with the expected closer' % tx
        elif (psn + '.in_math_mode', True) not in facts:
            why = 'the expected closer is looked for outside math mode'
        elif not any(ap and f_.startswith('s.startswith(' + info + "['close_delim']") for f_, ap in facts):
            why = 'the closing token is emitted without testing that the input continues with the expected closer'
    if not closers:
        why = 'no token is built from the expected closing delimiter'
    ctx.decide('R10d', why is None, tr, closers[0].node if closers else mr,
               'closing token emitted only when the input continues with the expected closer',
               'impl_maybe_read_math_mode_delimiter: %s' % why,
               construct='impl_maybe_read_math_mode_delimiter: closer')
    ok = len(loops) == 1 and bool(closers) and all(c.node.lineno < loops[0].lineno for c in closers)
    ctx.decide('R10d', ok, tr, mr, 'expected closer tested first, then all delimiters longest-first',
               'the expected closing delimiter is not tested before the generic delimiter scan',
               construct='impl_maybe_read_math_mode_delimiter: order')
    # no look-behind: whether a delimiter is recognised at pos depends on s[pos:] and the state only
    look_behind_scan(ctx, 'R10d', tr,
                     'whether a math delimiter is recognised then depends on the preceding characters -- after a '
                     'line-break macro \\\\ the dollar of `\\\\$x$` is taken for an escaped \\$ and the formula is '
                     'not recognised')
    psm = repo.mod(PS)
    fm = psm.methods('ParsingState').get('_finalize_state_latex_math_delim_info')
    t = unparse(fm) if fm is not None else ''
    ok = 'sorted(' in t and 'key=lambda x: len(x[0])' in t and 'reverse=True' in t
    ctx.decide('R10d', ok, psm, fm or psm.cls('ParsingState'),
               '_math_all_delims_by_len sorted by decreasing delimiter length',
               '_math_all_delims_by_len is not sorted longest-first: `$$` is read as two `$`',
               construct='_math_all_delims_by_len order')

    # R10f: parsing_state parameter never re-bound in parser / info / collector methods
    n_f = 0
    for mod in repo.modules.values():
        if not (mod.name.startswith('pylatexenc.latexnodes') or mod.name.startswith('pylatexenc.macrospec')):
            continue
        if '_pyltxenc2_argparsers' in mod.name:
            continue
        for q, f in mod.functions.items():
            params = [a.arg for a in f.args.args]
            if 'parsing_state' not in params or 'token_reader' not in params and 'latex_walker' not in params \
                    and f.name not in ('make_child_parsing_state', 'get_group_parsing_state'):
                continue
            n_f += 1
            rebinds = []
            for s in iter_own(f):
                if isinstance(s, (ast.Assign, ast.AugAssign)):
                    for t in (s.targets if isinstance(s, ast.Assign) else [s.target]):
                        for tt in (t.elts if isinstance(t, (ast.Tuple, ast.List)) else [t]):
                            if isinstance(tt, ast.Name) and tt.id == 'parsing_state':
                                rebinds.append(s)
                elif isinstance(s, ast.For):
                    if any(isinstance(x, ast.Name) and x.id == 'parsing_state' for x in ast.walk(s.target)):
                        rebinds.append(s)
            rebinds = [s for s in rebinds if not any(
                pol and unparse(t) == 'parsing_state is None' for t, pol in atomic_facts(s))]
            if rebinds:
                for s in rebinds:
                    ctx.refuted('R10f', mod, s,
                                '%s re-binds the parsing state it was given (%s): the state of one '
                                'argument/child replaces the state of the call, so a text-mode or '
                                'math-mode argument changes the mode recorded for everything parsed '
                                'after it' % (q, short(s, 70)), construct='%s: %s' % (q, short(s, 70)))
            else:
                ctx.holds('R10f', mod, f, 'parsing_state parameter is never re-bound',
                          construct=q + ': parsing_state parameter', trivial=True)
    ctx.analysed['parse_functions_checked'] = n_f

    # R10g: state factories
    dlm = repo.mod(DELIM)
    for mod in repo.modules.values():
        for q, f in mod.functions.items():
            if f.name == 'get_group_parsing_state':
                for r in [r for r in iter_own(f) if isinstance(r, ast.Return) and r.value is not None]:
                    v = r.value
                    ok = unparse(v) == 'parsing_state' or (
                        isinstance(v, ast.Call) and unparse(v.func) == 'parsing_state.sub_context')
                    ctx.decide('R10g', ok, mod, r, 'derived from the given parsing_state',
                               '%s returns %s, which is not derived from the parsing state it was '
                               'given: a state remembered from an earlier call (other math mode, '
                               'other context) is handed out' % (q, short(v)),
                               construct='%s: %s' % (q, short(r, 60)))
            elif f.name == 'make_child_parsing_state' and not q.startswith('LatexNodesCollector'):
                for r in [r for r in iter_own(f) if isinstance(r, ast.Return) and r.value is not None]:
                    v = unparse(r.value)
                    ok = v in ('parsing_state', 'self.parsing_state', 'self.contents_parsing_state') or \
                        v.startswith('get_updated_parsing_state_from_delta(self.group_parsing_state')
                    ctx.decide('R10g', ok, mod, r, 'child state is one of the states fixed at construction',
                               '%s returns %s' % (q, v), construct='%s: %s' % (q, short(r, 60)))
    co = repo.mod(COLL)
    mc = co.methods('LatexNodesCollector').get('make_child_parsing_state')
    if mc is None:
        raise AnalysisError('anchor vanished: LatexNodesCollector.make_child_parsing_state')
    why = None
    rcs = symex.return_cases(mc)
    n_plain = n_fn = 0
    for cs in rcs:
        v = cs.sub
        facts = set()
        for t_, pol in cs.conds:
            for a, ap in symex._atoms(t_, pol):
                facts.add((unparse(a), ap))
        nofn = ('self._make_child_parsing_state_fn is None', True) in facts or \
            ('self._make_child_parsing_state_fn is not None', False) in facts
        if nofn:
            n_plain += 1
            if unparse(v) != 'self.parsing_state':
                why = 'without a factory the child state is %s, not the collector\'s current state' % short(v)
        else:
            n_fn += 1
            ps = kwarg(v, 'parsing_state') if isinstance(v, ast.Call) else None
            if not (isinstance(v, ast.Call) and unparse(v.func) == 'self._make_child_parsing_state_fn'
                    and ps is not None and unparse(ps) == mc.args.args[1].arg):
                why = 'with a factory the child state is %s, not the factory applied to the given state' % short(v)
    if why is None and not (n_plain and n_fn):
        why = 'the two cases (factory / no factory) are not distinguished'
    ctx.decide('R10g', why is None, co, mc,
               'children inherit the collector\'s current state unless a factory is given',
               'the collector does not hand its current parsing state to children: %s' % why,
               construct='LatexNodesCollector.make_child_parsing_state')

    # R10h
    am = repo.mod(ARGP)
    ap = am.methods('LatexArgumentsParser').get('parse')
    if ap is None:
        raise AnalysisError('anchor vanished: LatexArgumentsParser.parse')
    why, where, n_cases = _per_argument_state(am.methods('LatexArgumentsParser'), ap)
    ctx.decide('R10h', why is None, am, where or ap,
               'argument state = call state + the argument\'s own delta, used for that argument only '
               '(%d structural case(s))' % n_cases,
               'the arguments parser does not parse each argument in (call state + that argument\'s '
               'delta): %s' % why, construct='LatexArgumentsParser.parse: per-argument state')
    cm = repo.mod(CALLP)
    for cls_, mname, dname, what in (
            ('LatexEnvironmentCallParser', 'make_body_parser_and_parsing_state',
             'make_body_parsing_state_delta', 'body'),
            ('_LatexCallableParserBase', 'parse_call_arguments',
             'make_arguments_parsing_state_delta', 'arguments')):
        fn_ = cm.methods(cls_).get(mname)
        if fn_ is None:
            raise AnalysisError('anchor vanished: %s.%s' % (cls_, mname))
        why = _state_from_delta(fn_, dname)
        ctx.decide('R10h', why is None, cm, fn_,
                   '%s state = call state + the spec\'s %s delta' % (what, what),
                   '%s: %s: the %s is parsed in a state that is not the call state updated by the '
                   'spec\'s %s delta' % (mname, why, what, what), construct=mname)
    # every returning path of make_body_parser_and_parsing_state hands out the updated state (not merely some path)
    bfn = cm.methods('LatexEnvironmentCallParser').get('make_body_parser_and_parsing_state')
    try:
        brs = [c_ for c_ in symex.Walker(want_returns=True).run(bfn) if c_.kind == 'return']
    except symex.TooManyPaths:
        brs = []
    seen_b = set()
    for cs in brs:
        v = cs.sub
        st_ = v.elts[1] if isinstance(v, ast.Tuple) and len(v.elts) == 2 else None
        full = symex.expand(st_, cs.env) if st_ is not None else None
        okb = isinstance(full, ast.Call) and call_name(full) == 'get_updated_parsing_state_from_delta' and len(full.args) >= 2 \
            and unparse(full.args[0]) == 'parsing_state' and isinstance(full.args[1], ast.Call) \
            and call_name(full.args[1]) == 'make_body_parsing_state_delta'
        key_ = (id(cs.node), okb)
        if key_ in seen_b:
            continue
        seen_b.add(key_)
        ctx.decide('R10h', okb, cm, cs.node, 'returns (parser, call state + body delta)',
                   'make_body_parser_and_parsing_state returns %s on the path [%s]: the state handed on for the body is not '
                   'the call state updated by the body delta, so the direct contents of a math environment are recorded in '
                   'text mode (only nested groups get the delta)' % (short(v, 60), ' & '.join(cs.cond_src())[-120:]),
                   construct='make_body_parser_and_parsing_state: returned state')
    sp = repo.mod('pylatexenc.macrospec._specclasses')
    ci = sp.methods('CallableSpec').get('__init__')
    if ci is None:
        raise AnalysisError('anchor vanished: CallableSpec.__init__')
    # every path on which is_math_mode is truthy stores an EnterMathMode delta (or raises)
    why = None
    try:
        w_ = symex.Walker(want_exits=True, track_attrs=('self.body_parsing_state_delta', 'self.is_math_mode'))
        ends = [c for c in w_.run_block(ci.body) if c.kind in ('end', 'return')]
    except symex.TooManyPaths as e:
        ends, why = [], str(e)
    n_mm = 0
    for cs in ends:
        mm = None
        for t_, pol in cs.conds:
            for a, ap in symex._atoms(t_, pol):
                d_ = cs.env.get('#def', {}).get(unparse(a))
                txt = unparse(d_) if isinstance(d_, ast.AST) else unparse(a)
                if "'is_math_mode'" in txt or txt.endswith('is_math_mode'):
                    mm = ap
        if mm:
            n_mm += 1
            v = cs.env.get('self.body_parsing_state_delta')
            d_ = cs.env.get('#def', {}).get(v.id) if isinstance(v, ast.Name) else None
            if isinstance(d_, ast.AST):
                v = d_
            if not (isinstance(v, ast.Call) and call_name(v) == 'ParsingStateDeltaEnterMathMode'):
                why = 'with is_math_mode set the stored body delta is %s' % (short(v) if v is not None else 'not set')
    if why is None and n_mm == 0:
        why = 'no path tests is_math_mode'
    ctx.decide('R10h', why is None, sp, ci, 'is_math_mode environments get an EnterMathMode body delta',
               'CallableSpec.__init__: %s: the body of a math environment declared with '
               'is_math_mode=True is parsed in text mode' % why, construct='CallableSpec.__init__: is_math_mode')
    ctx.assume('user-supplied child-state factories and custom deltas are outside the rule')
    # ---- R10j
    ctx.rule('R10j', 'a chain of parsing-state deltas is applied to the running state, step by step', 1)
    _delta_chain_threading(ctx, repo)

    # ---- R10k
    ctx.rule('R10k', 'a parsing-state delta applies every component it was configured with (set_attributes together '
                     'with a context extension, ...)', 1)
    _delta_components_applied(ctx, repo)

    # ---- R10l (C09 R09a), R10m (C16 R16u)
    ctx.rule('R10l', 'parser objects (cached and shared, also re-entered for nested arguments) keep no per-parse data: the '
                     'state a group is built from cannot be overwritten by a nested parse (C09 R09a)', 20)
    from . import c09 as _c09, c16 as _c16
    from .. import core as _core
    _core.run_proxied(ctx, _c09, 'R10l', ('R09a',))
    ctx.rule('R10m', 'legacy methods derive the states they use from the caller\'s parsing state (C16 R16u)', 5)
    _c16.shim_state_derivation(ctx, 'R10m', repo.mod(_c16.WALKER))

    # ---- R10n (C17 P2/P4): the expected-closing-delimiter table of a derived state
    ctx.rule('R10n', 'the lookup tables cached on a parsing state (which closing delimiter a formula expects) are reused from '
                     'the parent only when no field they depend on changes: `$` directly inside `\\(` or a math environment '
                     'otherwise records the parent\'s delimiters and the dollar run is split wrongly (C17 P2, P4)', 4)
    from . import c17 as _c17, c05 as _c05
    _c17.run(_c05._filtered(_c05._Sub(ctx, 'R10n'), ('P2', 'P4')))

    # ---- R10o: the collector reports a state change only when the state changed
    ctx.rule('R10o', 'LatexNodesCollector.get_parser_parsing_state_delta(): "no change" (None) is decided by comparing the state '
                     'the collector ended with against the state it started with, not by whether some construct handed in a '
                     'delta: a no-op delta (\\verb through the legacy layer) inside a formula must not make the math parser '
                     'hand its math-mode state on to what follows the formula', 2)
    ncm = repo.mod('pylatexenc.latexnodes._nodescollector')
    gd = ncm.functions.get('LatexNodesCollector.get_parser_parsing_state_delta')
    if gd is None:
        raise AnalysisError('anchor vanished: LatexNodesCollector.get_parser_parsing_state_delta')
    try:
        gcs = [c_ for c_ in symex.Walker(want_returns=True).run(gd) if c_.kind == 'return']
    except symex.TooManyPaths:
        gcs = []
    if not gcs:
        ctx.unknown('R10o', ncm, gd, 'no return found', construct='get_parser_parsing_state_delta')
    for cs in gcs:
        isnone = isinstance(cs.sub, ast.Constant) and cs.sub.value is None
        cmp_ = None
        for t_, p_ in cs.conds:
            for a_, ap_ in symex._atoms(t_, p_):
                if isinstance(a_, ast.Compare) and len(a_.ops) == 1 and isinstance(a_.ops[0], (ast.Is, ast.IsNot, ast.Eq, ast.NotEq)):
                    sides = {unparse(a_.left), unparse(a_.comparators[0])}
                    if sides == {'self.start_parsing_state', 'self.parsing_state'}:
                        same = ap_ if isinstance(a_.ops[0], (ast.Is, ast.Eq)) else (not ap_)
                        cmp_ = same
        ctx.decide('R10o', cmp_ is not None and cmp_ == isnone, ncm, cs.node,
                   '%s returned when the final state %s the start state' % ('None' if isnone else 'a delta', 'is' if isnone else 'is not'),
                   'get_parser_parsing_state_delta returns %s on the path [%s], which does not compare self.parsing_state with '
                   'self.start_parsing_state: a delta that changes nothing still makes the collector report a state change, and '
                   'after `$a \\verb|x| b$` the text that follows is recorded in math mode'
                   % ('None' if isnone else short(cs.sub, 50), ' & '.join(cs.cond_src())[-120:]),
                   construct='get_parser_parsing_state_delta: %s' % ('no change' if isnone else 'changed state'))

    from ..core import set_parents as _sp
    # ---- R10q: a call that delegates to the same helper forwards every option the helper reads
    ctx.rule('R10q', 'the specification helpers (std_macro, std_environment, ...): a call by which such a function delegates to '
                     'itself passes on every option it reads from its **kwargs (or the whole **kwargs): dropping '
                     'environment_is_math_mode in one calling form builds a text-mode environment from is_math_mode=True '
                     '(exercised on a built-in example on every run)', 0)

    def _dropped_options(fn_):
        if fn_.args.kwarg is None:
            return
        kw_ = fn_.args.kwarg.arg
        opts = set()
        for c_ in ast.walk(fn_):
            if isinstance(c_, ast.Call) and call_name(c_) in ('get', 'pop') and isinstance(call_recv(c_), ast.Name) \
                    and call_recv(c_).id == kw_ and c_.args and isinstance(c_.args[0], ast.Constant):
                opts.add(c_.args[0].value)
            elif isinstance(c_, ast.Subscript) and isinstance(c_.value, ast.Name) and c_.value.id == kw_ and \
                    isinstance(c_.slice, ast.Constant):
                opts.add(c_.slice.value)
        for c_ in ast.walk(fn_):
            if isinstance(c_, ast.Call) and isinstance(c_.func, ast.Name) and c_.func.id == fn_.name:
                if any(k_.arg is None for k_ in c_.keywords):
                    continue
                missing = sorted(opts - {k_.arg for k_ in c_.keywords})
                if missing:
                    yield c_, missing

    exq = ast.parse('def h(n, *a, **kw):\n if len(a) == 2:\n  return h(n, a[1], mk=kw.get("mk", False))\n'
                    ' return S(n, a[0], m=kw.get("m", None)) if kw.get("mk", False) else M(n, a[0])\n')
    _sp(exq)
    if len(list(_dropped_options(exq.body[0]))) != 1:
        raise AnalysisError('R10q: the rule no longer fires on its built-in example')
    shm = repo.mod('pylatexenc.macrospec._spechelpers')
    n_do = 0
    for q_, f_ in sorted(shm.functions.items()):
        for c_, miss_ in _dropped_options(f_):
            n_do += 1
            ctx.refuted('R10q', shm, c_, '%s delegates to itself (%s) without the option(s) %s that it reads from its keyword '
                        'arguments: in this calling form they silently take their defaults -- std_environment(name, None, '
                        'argspec, is_math_mode=True) builds an environment whose body is parsed in text mode'
                        % (q_, short(c_, 60), miss_), construct='%s: self-delegation without %s' % (q_, miss_))
    ctx.holds('R10q', shm, None, 'no self-delegating call drops an option in the specification helpers',
              construct='self-delegation scan', trivial=True)

    # ---- R10p: a field takes the value prepared for it
    ctx.rule('R10p', 'in the specification and parser classes no field is set from a like-named *other* variable while the '
                     'variable prepared for it (a local or parameter of the field\'s own name) is never read: the delta meant '
                     'for the arguments of a call is not the one meant for its body (grules.mismatched_field_source; exercised '
                     'on a built-in example on every run)', 0)
    from .. import grules as _gr
    from ..core import set_parents as _sp
    ex_ = ast.parse('class S:\n def __init__(self, **kw):\n  a_delta = kw.pop("a_delta", None)\n  b_delta = kw.pop("b_delta", None)\n'
                    '  self.b_delta = b_delta\n  self.a_delta = b_delta\n')
    _sp(ex_)
    if len(list(_gr.mismatched_field_source(ex_.body[0].body[0]))) != 1:
        raise AnalysisError('R10p: the rule no longer fires on its built-in example')
    n_mf = 0
    for mod_ in sorted(repo.modules.values(), key=lambda m_: m_.name):
        if not mod_.name.startswith(('pylatexenc.macrospec', 'pylatexenc.latexnodes', 'pylatexenc.latexwalker')):
            continue
        for q_, f_ in sorted(mod_.functions.items()):
            for st_, fld_, src_ in _gr.mismatched_field_source(f_):
                n_mf += 1
                ctx.refuted('R10p', mod_, st_, '%s sets self.%s from `%s` although it prepared a variable `%s` that is never '
                            'read: the field carries the value meant for another one (the parsing-state change meant for the '
                            'body of an environment is applied to its arguments, so `{2}` in \\begin{alignat}{2} is recorded in '
                            'math mode)' % (q_, fld_, src_, fld_), construct='%s: self.%s = %s' % (q_, fld_, src_))
    ctx.holds('R10p', repo.mod('pylatexenc.macrospec._specclasses'), None, 'no field set from a like-named other variable',
              construct='mismatched field source scan', trivial=True)

    return 'other', (
        'Decides the places where the mode of a node is determined: the math parser\'s contents '
        'state and recorded fields, the walker events, the per-argument / per-body deltas, the '
        'default-table modes, the delimiter choice in the token reader, and two discipline rules '
        'over all parse functions: the given parsing state is never re-bound, and state factories '
        'return states derived from their argument.  Run-time inheritance through user factories is '
        'not decided.')



def look_behind_scan(ctx, rule, tr, consequence):
    """no impl_* method of the token reader reads the input before the position it tokenizes at"""
    from .. import affine as _aff
    for fname_, f_ in sorted(tr.methods('LatexTokenReader').items()):
        if not fname_.startswith('impl_'):
            continue
        pp_ = [a.arg for a in f_.args.args] + [t_.id for st_ in iter_own(f_) if isinstance(st_, ast.Assign)
                                               for t_ in st_.targets if isinstance(t_, ast.Name)]
        if 's' not in pp_ or 'pos' not in pp_:
            continue
        for x in iter_own(f_):
            idx = None
            if isinstance(x, ast.Subscript) and isinstance(x.value, ast.Name) and x.value.id == 's':
                idx = x.slice.lower if isinstance(x.slice, ast.Slice) else x.slice
            elif isinstance(x, ast.Call) and call_name(x) in ('startswith', 'find') and \
                    unparse(call_recv(x) or ast.Constant(0)) == 's' and len(x.args) >= 2:
                idx = x.args[1]
            if idx is None:
                continue
            try:
                d_ = _aff.diff(idx, ast.Name(id='pos', ctx=ast.Load()), {})
            except _aff.NotAffine:
                continue
            if not d_[1] and d_[0] < 0:
                ctx.refuted(rule, tr, x, '%s reads the input BEFORE the position it tokenizes at (%s): %s'
                            % (fname_, short(x, 50), consequence),
                            construct='%s: look-behind %s' % (fname_, short(x, 40)))
    ctx.holds(rule, tr, None, 'no impl_* method of the token reader reads s before pos',
              construct='look-behind scan', trivial=True)



def _delta_chain_threading(ctx, repo):
    """R10j: a loop that applies a sequence of parsing-state deltas threads the running state:
    every re-binding of the accumulated state inside the loop is computed from its previous value"""
    dm = repo.mod('pylatexenc.latexnodes._parsingstatedelta')
    n = 0
    for q, f in sorted(dm.functions.items()):
        for lp in [l for l in f.body if isinstance(l, ast.For)]:
            rets = [r for r in f.body if isinstance(r, ast.Return) and isinstance(r.value, ast.Name)]
            if not rets:
                continue
            acc = rets[-1].value.id
            if not any(isinstance(x, ast.Name) and x.id == acc and isinstance(x.ctx, ast.Store) for x in ast.walk(lp)):
                continue
            n += 1
            try:
                cases = [c for c in symex.Walker(want_exits=True).run_block(lp.body) if c.kind in ('end', 'continue')]
            except symex.TooManyPaths:
                ctx.unknown('R10j', dm, lp, 'too many paths', construct='%s: chained deltas' % q)
                continue
            bad = None
            n_re = 0
            for cs in cases:
                v = cs.env.get(acc)
                if acc not in cs.env or (isinstance(v, ast.AST) and unparse(v) == acc):
                    continue
                n_re += 1
                d = symex.resolve(v, cs.env) if isinstance(v, ast.AST) else cs.env.get('#def', {}).get(acc)
                uses = d is not None and any(isinstance(x, ast.Name) and x.id == acc for x in ast.walk(d))
                if not uses and bad is None:
                    bad = (cs, d)
            ctx.decide('R10j', bad is None and n_re > 0, dm, lp,
                       '%s: every step is computed from the running state %s (%d re-binding path(s))' % (q, acc, n_re),
                       '%s: inside the loop %s is re-bound to %s, which is not computed from the running value of %s: '
                       'each delta is applied to the original state and only the last one survives (a math/text switch '
                       'chained with another change is lost)' % (q, acc, short(bad[1], 70) if bad and bad[1] is not None
                                                                  else '?', acc),
                       construct='%s: chained deltas' % q)
    if n == 0:
        ctx.unknown('R10j', dm, None, 'no loop applying a sequence of deltas found', construct='chained deltas')



def _delta_components_applied(ctx, repo):
    """R10k: a delta object applies every component it was configured with: on each returning path
    of get_updated_parsing_state() on which a component attribute (tested by truthiness in the
    method) is set, the returned state is computed from that attribute"""
    n = 0
    for modname in ('pylatexenc.latexnodes._parsingstatedelta', 'pylatexenc.macrospec._latexcontextdb'):
        mod = repo.mod(modname)
        for q, f in sorted(mod.functions.items()):
            if not q.endswith('.get_updated_parsing_state'):
                continue
            comps = set()
            for t, _w in gcommon.truthiness_tests(f):
                x = t.operand if isinstance(t, ast.UnaryOp) and isinstance(t.op, ast.Not) else t
                if is_self_attr(x):
                    comps.add(x.attr)
            if not comps:
                continue
            try:
                rcs = [c for c in symex.Walker(want_returns=True, pure=('dict',)).run(f) if c.kind == 'return']
            except symex.TooManyPaths:
                ctx.unknown('R10k', mod, f, 'too many paths', construct=q + ': components applied')
                continue
            n += 1
            bad = None
            for c in rcs:
                facts = symex.facts_of(c.conds, c.env)
                full = unparse(symex.expand(c.sub, c.env, depth=5))
                for a in sorted(comps):
                    if ('self.' + a, True) in facts and ('self.' + a) not in full and bad is None:
                        bad = (c, a, full)
            ctx.decide('R10k', bad is None, mod, bad[0].node if bad else f,
                       '%s: every configured component (%s) reaches the returned state on the paths where it is set'
                       % (q, ', '.join(sorted(comps))),
                       '%s: on the path [%s] self.%s is set but the returned state %s is not computed from it: the '
                       'component is silently dropped (a math/text switch given together with a context extension is '
                       'lost, and the body is recorded in the wrong mode)'
                       % (q, ' & '.join(bad[0].cond_src())[-120:] if bad else '', bad[1] if bad else '',
                          short(ast.parse(bad[2], mode='eval').body, 70) if bad else ''),
                       construct=q + ': components applied')
    if n == 0:
        ctx.unknown('R10k', repo.mod('pylatexenc.latexnodes._parsingstatedelta'), None,
                    'no delta with optional components found', construct='components applied')
