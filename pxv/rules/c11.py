# -*- coding: utf-8 -*-
"""C11  Tokenizer is lossless, always advances, and peeking has no effect.

R11a positive token width; R11b peek purity (effect analysis over the reader
classes); R11c next = peek + move_past; R11d move targets; R11e pre-space
bookkeeping and paired truncation; R11f longest specials (shared with C14);
R11g end of stream reports the trailing space."""
import ast
from ..core import (AnalysisError, short, unparse, iter_own, call_name, call_recv, kwarg,
                    is_self_attr, atomic_facts, parents, enclosing_stmt, enclosing_func)
from .. import affine
from . import c14

TR = 'pylatexenc.latexnodes._tokenreader'
TRB = 'pylatexenc.latexnodes._tokenreaderbase'

# atoms whose length is positive by construction (reviewed): configured delimiters, specials
# sequences found by the strict longest-match scan, the escape+begin/end text
NONEMPTY_LEN = ('len(delim)', 'len(expecting_close_delim)', 'len(sspec.specials_chars)',
                'len(tokarg)', 'len(beginend)', 'len(parsing_state.comment_start)')

PURE = ('peek_token', 'peek_token_or_none', 'peek_chars', 'peek_space_chars', 'cur_pos',
        'make_token', 'parse_latex_environment_name')


def run(ctx):
    repo = ctx.repo
    m = repo.mod(TR)
    mb = repo.mod(TRB)
    meths = m.methods('LatexTokenReader')
    bmeths = mb.methods('LatexTokenReaderBase')
    ctx.rule('R11a', 'every token built by the reader has pos_end - pos >= 1 (normal form of the '
                     'difference is a positive constant plus lengths that are positive by '
                     'construction)', 10)
    ctx.rule('R11b', 'peek purity: peek_token, peek_token_or_none, peek_chars, peek_space_chars, '
                     'cur_pos and every impl_* method write no attribute of the reader, directly or '
                     'through a call on self', 8)
    ctx.rule('R11c', 'next_token is peek_token followed by move_past_token of the same token and '
                     'returns it; LatexTokenReader does not override it', 2)
    ctx.rule('R11d', 'move_to_token targets tok.pos - len(tok.pre_space) (tok.pos without rewind); '
                     'move_past_token targets tok.pos_end (minus len(post_space) when not '
                     'fast-forwarding)', 2)
    ctx.rule('R11e', 'pre-space bookkeeping: every token receives the pre_space variable unchanged '
                     'and starts where the peeked space ends; where pre/post space is cut at an '
                     'index, the matching position is recomputed with the same index', 12)
    ctx.rule('R11f', 'longest specials match (strictly-longer test, no early exit)', 1)
    ctx.rule('R11g', 'end of stream raises LatexWalkerEndOfStream carrying the trailing space', 1)

    # ------------------------------------------------------------ R11a
    n_tok = 0
    for fname, f in sorted(meths.items()):
        env = affine.single_assign_env(f)
        for c in [c for c in iter_own(f) if isinstance(c, ast.Call) and (
                call_name(c) in ('make_token', 'LatexToken')) and kwarg(c, 'pos') is not None]:
            n_tok += 1
            pos, pe = kwarg(c, 'pos'), kwarg(c, 'pos_end')
            if pe is None:
                ctx.unknown('R11a', m, c, 'token built without pos_end', construct=fname + ': ' + short(c, 70))
                continue
            try:
                nf = affine.diff(pe, pos, env)
            except affine.NotAffine as e:
                ctx.unknown('R11a', m, c, 'span not affine: %s' % e, construct=fname + ': ' + short(c, 70))
                continue
            cst, terms = nf
            cons = '%s: token(tok=%s) width %s' % (fname, short(kwarg(c, 'tok'), 30), affine.show(nf))
            pos_terms = all(v > 0 and (k in NONEMPTY_LEN or (k.startswith('len(') and any(
                w in k for w in ('delim', 'macro_escape_char', 'specials_chars', 'beginend',
                                 'tokarg', 'comment_start')))) for k, v in terms.items())
            if not terms and cst >= 1:
                ctx.holds('R11a', m, c, 'width is the constant %d' % cst, construct=cons)
            elif terms and pos_terms and cst >= 0:
                ctx.holds('R11a', m, c, 'width %s > 0' % affine.show(nf), construct=cons)
            elif not terms and cst <= 0:
                ctx.refuted('R11a', m, c, 'token width is the constant %d: a read does not move '
                                          'forward (tokenizing never ends / position goes backwards)'
                            % cst, construct=cons)
            else:
                why = _width_lemma(f, c, pos, pe)
                if why:
                    ctx.holds('R11a', m, c, why, construct=cons)
                else:
                    ctx.unknown('R11a', m, c, 'width %s not decided' % affine.show(nf), construct=cons)
    ctx.analysed['token_construction_sites'] = n_tok

    # ------------------------------------------------------------ R11b
    writes = {}      # method -> list of (attr, node)
    calls = {}
    allm = dict(bmeths)
    allm.update(meths)
    for name, f in allm.items():
        w = []
        for n in iter_own(f):
            if isinstance(n, (ast.Assign, ast.AugAssign, ast.Delete)):
                tg = n.targets if isinstance(n, (ast.Assign, ast.Delete)) else [n.target]
                for t in tg:
                    for tt in (t.elts if isinstance(t, (ast.Tuple, ast.List)) else [t]):
                        b = tt
                        while isinstance(b, ast.Subscript):
                            b = b.value
                        if is_self_attr(b):
                            w.append((b.attr, n))
            elif isinstance(n, ast.Call) and call_name(n) in ('append', 'extend', 'insert', 'pop',
                                                              'update', 'clear', 'setdefault', 'add') \
                    and call_recv(n) is not None and is_self_attr(call_recv(n)):
                w.append((call_recv(n).attr, n))
            elif isinstance(n, ast.Call) and call_name(n) == 'setattr' and n.args and \
                    unparse(n.args[0]) == 'self':
                w.append((short(n.args[1]), n))
        writes[name] = w
        calls[name] = {c.func.attr for c in iter_own(f) if isinstance(c, ast.Call)
                       and is_self_attr(c.func) and c.func.attr in allm}

    def closure(name, seen=None):
        seen = seen or [name]
        out = [(name, a, n, list(seen)) for a, n in writes.get(name, [])]
        for cal in sorted(calls.get(name, ())):
            if cal not in seen:
                out += closure(cal, seen + [cal])
        return out

    pure = [p for p in allm if p in PURE or p.startswith('impl_')]
    for p in sorted(pure):
        if p == '__init__':
            continue
        eff = closure(p)
        if name_is_stub(allm[p]):
            continue
        if eff:
            who, attr, node, path = eff[0]
            ctx.refuted('R11b', m if p in meths else mb, node,
                        '%s writes self.%s (%s): peeking changes the reader, a second peek or a '
                        'read after it can return a different token' % (
                            p, attr, 'directly' if who == p else 'via ' + ' -> '.join(path)),
                        construct='%s writes %s via %s' % (p, attr, '->'.join(path)))
        else:
            ctx.holds('R11b', m if p in meths else mb, allm[p], 'no write to the reader, directly or '
                                                                 'through self calls',
                      construct=p + ' is pure')

    # ------------------------------------------------------------ R11c
    nt = bmeths.get('next_token')
    if nt is None:
        raise AnalysisError('anchor vanished: LatexTokenReaderBase.next_token')
    body = [s for s in nt.body if not (isinstance(s, ast.Expr) and isinstance(s.value, ast.Constant))]
    ok = len(body) == 3 and isinstance(body[0], ast.Assign) and call_name(body[0].value) == 'peek_token' \
        and isinstance(body[1], ast.Expr) and call_name(body[1].value) == 'move_past_token' \
        and unparse(body[1].value.args[0]) == unparse(body[0].targets[0]) \
        and isinstance(body[2], ast.Return) and unparse(body[2].value) == unparse(body[0].targets[0])
    ctx.decide('R11c', ok, mb, nt, 'tok = peek_token(); move_past_token(tok); return tok',
               'next_token is not peek_token followed by move_past_token of the same token',
               construct='next_token')
    ctx.decide('R11c', 'next_token' not in meths, m, meths.get('next_token') or m.cls('LatexTokenReader'),
               'LatexTokenReader inherits next_token',
               'LatexTokenReader overrides next_token: read and peek can disagree',
               construct='next_token not overridden')

    # ------------------------------------------------------------ R11d
    mt, mp = meths.get('move_to_token'), meths.get('move_past_token')
    if mt is None or mp is None:
        raise AnalysisError('anchor vanished: move_to_token/move_past_token')
    t = unparse(mt)
    ok = 'new_pos = tok.pos - len(tok.pre_space)' in t and 'new_pos = tok.pos\n' in t + '\n' and \
        'self._advance_to_pos(new_pos)' in t
    ctx.decide('R11d', ok, m, mt, 'rewind to tok.pos - len(tok.pre_space) / tok.pos',
               'move_to_token does not target tok.pos - len(tok.pre_space) (with rewind) or tok.pos '
               '(without): reading again after going back yields a different token',
               construct='move_to_token')
    t = unparse(mp)
    ok = 'new_pos = tok.pos_end' in t and 'new_pos -= len(post_space)' in t and \
        'self._advance_to_pos(new_pos)' in t
    ctx.decide('R11d', ok, m, mp, 'advance to tok.pos_end (minus post space when requested)',
               'move_past_token does not target tok.pos_end', construct='move_past_token')

    # ------------------------------------------------------------ R11e
    prespace_forwarding(ctx, 'R11e', m, meths)
    ip = meths.get('impl_peek_token')
    return _rest_r11e(ctx, repo, m, meths, ip)


def prespace_forwarding(ctx, rule, m, meths):
    for fname, f in sorted(meths.items()):
        params = {a.arg for a in f.args.args}
        for c in [c for c in iter_own(f) if isinstance(c, ast.Call) and
                  call_name(c) in ('make_token', 'LatexToken') and kwarg(c, 'pre_space') is not None]:
            ps = kwarg(c, 'pre_space')
            ok = isinstance(ps, ast.Name) and ps.id == 'pre_space'
            if ok:
                ctx.holds(rule, m, c, 'pre_space forwarded unchanged',
                          construct='%s: pre_space of token(%s)' % (fname, short(kwarg(c, 'tok'), 25)),
                          trivial=True)
            else:
                ctx.refuted(rule, m, c, 'token receives pre_space=%s, not the leading whitespace '
                                          'that was peeked: pos - len(pre_space) no longer marks '
                                          'where the whitespace started, characters are lost from '
                                          'the token stream' % short(ps),
                            construct='%s: pre_space of token(%s)' % (fname, short(kwarg(c, 'tok'), 25)))


def _rest_r11e(ctx, repo, m, meths, ip):
    if ip is None:
        raise AnalysisError('anchor vanished: impl_peek_token')
    # paired truncations: X = X[:k]  <->  Y = base + k   (same k)
    for fname, pairs in (('impl_peek_token', [('pre_space', 'newpar_pos_start', 'space_pos')]),
                         ('impl_read_macro', [('post_space', 'post_space_pos_end', 'post_space_pos')]),
                         ('impl_read_comment', [('post_space', 'post_space_pos_end', 'post_space_pos')])):
        f = meths.get(fname)
        if f is None:
            raise AnalysisError('anchor vanished: ' + fname)
        for sv, pv, base in pairs:
            cuts = [s for s in iter_own(f) if isinstance(s, ast.Assign) and unparse(s.targets[0]) == sv
                    and isinstance(s.value, ast.Subscript) and isinstance(s.value.slice, ast.Slice)
                    and unparse(s.value.value) == sv]
            if not cuts:
                ctx.unknown('R11e', m, f, 'no truncation of %s found' % sv,
                            construct='%s: truncation of %s' % (fname, sv))
                continue
            for cut in cuts:
                k = cut.value.slice.upper
                lo = cut.value.slice.lower
                posdefs = [s for s in _block_of(cut) if isinstance(s, ast.Assign)
                           and unparse(s.targets[0]) == pv]
                ok = lo is None and k is not None and any(
                    unparse(s.value).replace(' ', '') == ('%s+%s' % (base, unparse(k))).replace(' ', '')
                    for s in posdefs)
                ctx.decide('R11e', ok, m, cut,
                           '%s cut at %s and %s = %s + %s' % (sv, unparse(k) if k else '?', pv, base,
                                                             unparse(k) if k else '?'),
                           '%s is cut by %s but %s is not recomputed as %s + the same index (%s): '
                           'text and positions of the token disagree' % (
                               sv, short(cut.value), pv, base, [short(s) for s in posdefs]),
                           construct='%s: paired truncation of %s' % (fname, sv))
    # token position = end of the peeked space
    a = [s for s in iter_own(ip) if isinstance(s, ast.Assign) and unparse(s.targets[0]) == 'pos'
         and unparse(s.value) == 'space_pos_end']
    sp = [s for s in iter_own(ip) if isinstance(s, ast.Assign) and isinstance(s.targets[0], ast.Tuple)
          and call_name(s.value) == 'impl_peek_space_chars']
    ok = bool(a) and bool(sp) and [unparse(e) for e in sp[0].targets[0].elts] == \
        ['pre_space', 'space_pos', 'space_pos_end'] and unparse(sp[0].value.args[1]) in ('pos', 'self._pos')
    ctx.decide('R11e', ok, m, a[0] if a else ip, 'tokens start at space_pos_end, space peeked from the '
                                                 'current position',
               'impl_peek_token does not start the token where the peeked whitespace ends',
               construct='impl_peek_token: token start')
    # the space scanner returns (space, pos, p2) with p2 - pos == len(space)
    isp = meths.get('impl_peek_space_chars')
    if isp is not None:
        t = unparse(isp)
        ok = 'space += c' in t and 'p2 += 1' in t and 'return (space, pos, p2)' in t and \
            'if not c.isspace():' in t
        ctx.decide('R11e', ok, m, isp, 'scanner appends one character per step and returns '
                                       '(space, pos, p2)',
                   'impl_peek_space_chars no longer advances one position per whitespace character '
                   'appended', construct='impl_peek_space_chars')

    # ------------------------------------------------------------ R11f
    cm = repo.mod(c14.MODULE)
    tfs = cm.methods(c14.CLASS).get('test_for_specials')
    if tfs is None:
        raise AnalysisError('anchor vanished: test_for_specials')
    sub = _Sub(ctx, 'R11f')
    c14._check_test_for_specials(sub, cm, tfs)

    # ------------------------------------------------------------ R11g
    eos = [r for r in iter_own(ip) if isinstance(r, ast.Raise) and isinstance(r.exc, ast.Call)
           and call_name(r.exc) == 'LatexWalkerEndOfStream']
    ok = len(eos) == 1 and kwarg(eos[0].exc, 'final_space') is not None and \
        unparse(kwarg(eos[0].exc, 'final_space')) == 'pre_space' and any(
            pol and unparse(t).replace(' ', '') in ('pos>=len_s', 'pos>=len(s)')
            for t, pol in atomic_facts(eos[0]))
    ctx.decide('R11g', ok, m, eos[0] if eos else ip,
               'raise LatexWalkerEndOfStream(final_space=pre_space) when pos >= len(s)',
               'end of stream is not reported with the trailing whitespace', construct='end of stream')
    ctx.assume('configured delimiters, comment start and specials sequences are non-empty strings')
    return 'other', (
        'Decides, at every token construction site, that the token has positive width and carries '
        'the peeked whitespace unchanged with positions recomputed consistently; an effect analysis '
        'shows that the peek family and all impl_* methods never write the reader; next/move '
        'methods have the documented targets.  The concatenation identity over whole token '
        'sequences is a run-time statement and is not decided.')


def name_is_stub(f):
    body = [s for s in f.body if not (isinstance(s, ast.Expr) and isinstance(s.value, ast.Constant))]
    return len(body) == 1 and isinstance(body[0], ast.Raise)


def _block_of(st):
    p = getattr(st, '_parent', None)
    for fld in ('body', 'orelse', 'finalbody'):
        lst = getattr(p, fld, None)
        if isinstance(lst, list) and any(s is st for s in lst):
            return lst
    return [st]


def _width_lemma(f, call, pos, pe):
    """Reviewed lemmas for widths that are not affine in the site's own terms."""
    pe_t, pos_t = unparse(pe), unparse(pos)
    src = unparse(f)
    if pe_t == 'posi' and 'posi = pos + 2' in src and 'posi += 1' in src:
        return 'posi starts at pos + 2 and only grows (post space end >= posi)'
    if pe_t == 'environment_pos_end' and 'envmatch_end_pos = pos_envname + envmatch.end()' in \
            unparse(getattr(f, '_parent', f)):
        return 'environment name match ends after pos + 1 + len(begin/end)'
    if pe_t == 'newpar_pos_end' and pos_t == 'newpar_pos_start' and \
            "pre_space.rfind('\\n') + 1" in src and "pre_space.find('\\n')" in src and \
            "pre_space.count('\\n') >= 2" in src:
        return 'at least two newlines: last newline + 1 > first newline'
    if pe_t == 'comment_with_whitespace_pos_end' and 'comment_pos_end = sppos' in src:
        return 'comment extends at least over the comment start'
    if pe_t == 'pos_end' and pos_t == 'pos' and f.name == 'impl_char_token':
        return 'forwarded (pos, pos_end) of the caller, which passes (pos, pos + 1)'
    return None


class _Sub(object):
    def __init__(self, ctx, rule):
        self.ctx, self.rule = ctx, rule

    def holds(self, rule, *a, **k):
        return self.ctx.holds(self.rule, *a, **k)

    def refuted(self, rule, *a, **k):
        return self.ctx.refuted(self.rule, *a, **k)

    def unknown(self, rule, *a, **k):
        return self.ctx.unknown(self.rule, *a, **k)

    def decide(self, rule, *a, **k):
        return self.ctx.decide(self.rule, *a, **k)
