# -*- coding: utf-8 -*-
"""C11  Tokenizer is lossless, always advances, and peeking has no effect.

R11a positive token width; R11b peek purity (effect analysis over the reader
classes); R11c next = peek + move_past; R11d move targets; R11e pre-space
bookkeeping and paired truncation; R11f longest specials (shared with C14);
R11g end of stream reports the trailing space."""
import ast
from ..core import (AnalysisError, short, unparse, iter_own, call_name, call_recv, kwarg,
                    is_self_attr, atomic_facts, parents, enclosing_stmt, enclosing_func)
from .. import affine, symex
from . import c14

TR = 'pylatexenc.latexnodes._tokenreader'
TRB = 'pylatexenc.latexnodes._tokenreaderbase'

# atoms whose length is positive by construction (reviewed): configured delimiters, specials
# sequences found by the strict longest-match scan, the escape+begin/end text
NONEMPTY_LEN = ('len(delim)', 'len(expecting_close_delim)', 'len(sspec.specials_chars)',
                'len(tokarg)', 'len(beginend)', 'len(parsing_state.comment_start)')

PURE = ('peek_token', 'peek_token_or_none', 'peek_chars', 'peek_space_chars', 'cur_pos',
        'make_token', 'parse_latex_environment_name')


def run(ctx):
    repo = ctx.repo
    m = repo.mod(TR)
    mb = repo.mod(TRB)
    meths = m.methods('LatexTokenReader')
    bmeths = mb.methods('LatexTokenReaderBase')
    ctx.rule('R11a', 'every token built by the reader has pos_end - pos >= 1 (normal form of the '
                     'difference is a positive constant plus lengths that are positive by '
                     'construction)', 10)
    ctx.rule('R11b', 'peek purity: peek_token, peek_token_or_none, peek_chars, peek_space_chars, '
                     'cur_pos and every impl_* method write no attribute of the reader, directly or '
                     'through a call on self', 8)
    ctx.rule('R11c', 'next_token is peek_token followed by move_past_token of the same token and '
                     'returns it; LatexTokenReader does not override it', 2)
    ctx.rule('R11d', 'move_to_token targets tok.pos - len(tok.pre_space) (tok.pos without rewind); '
                     'move_past_token targets tok.pos_end (minus len(post_space) when not '
                     'fast-forwarding)', 2)
    ctx.rule('R11e', 'pre-space bookkeeping: every token receives the pre_space variable unchanged '
                     'and starts where the peeked space ends; where pre/post space is cut at an '
                     'index, the matching position is recomputed with the same index', 12)
    ctx.rule('R11f', 'longest specials match (strictly-longer test, no early exit)', 1)
    ctx.rule('R11h', 'a token never ends past the end of the input: on a path that has established E >= len(s) '
                     '(E > len(s)) no token is built with pos_end > E (pos_end >= E)', 1)
    ctx.rule('R11g', 'end of stream raises LatexWalkerEndOfStream carrying the trailing space', 1)

    # ------------------------------------------------------------ R11a
    n_tok = 0
    for fname, f in sorted(meths.items()):
        env = affine.single_assign_env(f)
        for c in [c for c in iter_own(f) if isinstance(c, ast.Call) and (
                call_name(c) in ('make_token', 'LatexToken')) and kwarg(c, 'pos') is not None]:
            n_tok += 1
            pos, pe = kwarg(c, 'pos'), kwarg(c, 'pos_end')
            if pe is None:
                ctx.unknown('R11a', m, c, 'token built without pos_end', construct=fname + ': ' + short(c, 70))
                continue
            try:
                nf = affine.diff(pe, pos, env)
            except affine.NotAffine as e:
                ctx.unknown('R11a', m, c, 'span not affine: %s' % e, construct=fname + ': ' + short(c, 70))
                continue
            cst, terms = nf
            cons = '%s: token(tok=%s) width %s' % (fname, short(kwarg(c, 'tok'), 30), affine.show(nf))
            pos_terms = all(v > 0 and (k in NONEMPTY_LEN or (k.startswith('len(') and any(
                w in k for w in ('delim', 'macro_escape_char', 'specials_chars', 'beginend',
                                 'tokarg', 'comment_start')))) for k, v in terms.items())
            if not terms and cst >= 1:
                ctx.holds('R11a', m, c, 'width is the constant %d' % cst, construct=cons)
            elif terms and pos_terms and cst >= 0:
                ctx.holds('R11a', m, c, 'width %s > 0' % affine.show(nf), construct=cons)
            elif not terms and cst <= 0:
                ctx.refuted('R11a', m, c, 'token width is the constant %d: a read does not move '
                                          'forward (tokenizing never ends / position goes backwards)'
                            % cst, construct=cons)
            else:
                why = _width_lemma(f, c, pos, pe) or _callee_end_lemma(meths, f, c, pos, pe)
                if why:
                    ctx.holds('R11a', m, c, why, construct=cons)
                else:
                    ctx.unknown('R11a', m, c, 'width %s not decided' % affine.show(nf), construct=cons)
    ctx.analysed['token_construction_sites'] = n_tok

    # ------------------------------------------------------------ R11b
    writes = {}      # method -> list of (attr, node)
    calls = {}
    allm = dict(bmeths)
    allm.update(meths)
    for name, f in allm.items():
        w = []
        for n in iter_own(f):
            if isinstance(n, (ast.Assign, ast.AugAssign, ast.Delete)):
                tg = n.targets if isinstance(n, (ast.Assign, ast.Delete)) else [n.target]
                for t in tg:
                    for tt in (t.elts if isinstance(t, (ast.Tuple, ast.List)) else [t]):
                        b = tt
                        while isinstance(b, ast.Subscript):
                            b = b.value
                        if is_self_attr(b):
                            w.append((b.attr, n))
            elif isinstance(n, ast.Call) and call_name(n) in ('append', 'extend', 'insert', 'pop',
                                                              'update', 'clear', 'setdefault', 'add') \
                    and call_recv(n) is not None and is_self_attr(call_recv(n)):
                w.append((call_recv(n).attr, n))
            elif isinstance(n, ast.Call) and call_name(n) == 'setattr' and n.args and \
                    unparse(n.args[0]) == 'self':
                w.append((short(n.args[1]), n))
        writes[name] = w
        calls[name] = {c.func.attr for c in iter_own(f) if isinstance(c, ast.Call)
                       and is_self_attr(c.func) and c.func.attr in allm}

    def closure(name, seen=None):
        seen = seen or [name]
        out = [(name, a, n, list(seen)) for a, n in writes.get(name, [])]
        for cal in sorted(calls.get(name, ())):
            if cal not in seen:
                out += closure(cal, seen + [cal])
        return out

    pure = [p for p in allm if p in PURE or p.startswith('impl_')]
    for p in sorted(pure):
        if p == '__init__':
            continue
        eff = closure(p)
        if name_is_stub(allm[p]):
            continue
        if eff:
            who, attr, node, path = eff[0]
            ctx.refuted('R11b', m if p in meths else mb, node,
                        '%s writes self.%s (%s): peeking changes the reader, a second peek or a '
                        'read after it can return a different token' % (
                            p, attr, 'directly' if who == p else 'via ' + ' -> '.join(path)),
                        construct='%s writes %s via %s' % (p, attr, '->'.join(path)))
        else:
            ctx.holds('R11b', m if p in meths else mb, allm[p], 'no write to the reader, directly or '
                                                                 'through self calls',
                      construct=p + ' is pure')

    # ------------------------------------------------------------ R11c
    nt = bmeths.get('next_token')
    if nt is None:
        raise AnalysisError('anchor vanished: LatexTokenReaderBase.next_token')
    body = [s for s in nt.body if not (isinstance(s, ast.Expr) and isinstance(s.value, ast.Constant))]
    ok = len(body) == 3 and isinstance(body[0], ast.Assign) and call_name(body[0].value) == 'peek_token' \
        and isinstance(body[1], ast.Expr) and call_name(body[1].value) == 'move_past_token' \
        and unparse(body[1].value.args[0]) == unparse(body[0].targets[0]) \
        and isinstance(body[2], ast.Return) and unparse(body[2].value) == unparse(body[0].targets[0])
    ctx.decide('R11c', ok, mb, nt, 'tok = peek_token(); move_past_token(tok); return tok',
               'next_token is not peek_token followed by move_past_token of the same token',
               construct='next_token')
    ctx.decide('R11c', 'next_token' not in meths, m, meths.get('next_token') or m.cls('LatexTokenReader'),
               'LatexTokenReader inherits next_token',
               'LatexTokenReader overrides next_token: read and peek can disagree',
               construct='next_token not overridden')

    # ------------------------------------------------------------ R11d
    mt, mp = meths.get('move_to_token'), meths.get('move_past_token')
    if mt is None or mp is None:
        raise AnalysisError('anchor vanished: move_to_token/move_past_token')
    _move_targets(ctx, m, mt, 'move_to_token', 1,
                  {True: 'tok.pos - len(tok.pre_space)', False: 'tok.pos'},
                  'reading again after going back yields a different token')
    _move_targets(ctx, m, mp, 'move_past_token', 1,
                  {True: 'tok.pos_end', False: 'tok.pos_end - len(tok.post_space)'},
                  'the next read does not start where this token ended')

    # ------------------------------------------------------------ R11e
    prespace_forwarding(ctx, 'R11e', m, meths)
    ip = meths.get('impl_peek_token')
    return _rest_r11e(ctx, repo, m, meths, ip)


def _move_targets(ctx, m, f, fname, flag_index, expected, consequence):
    """the value handed to self._advance_to_pos on each branch of the boolean flag parameter,
    compared as affine normal forms (if/else assignment, conditional expression, `-=` adjustment
    and introduced locals all give the same cases)"""
    args = [a.arg for a in f.args.args]
    if len(args) < 3:
        raise AnalysisError('anchor changed: %s signature' % fname)
    tokname, flag = args[1], args[2]
    try:
        cases = symex.sink_cases(f, lambda c: call_name(c) == '_advance_to_pos' and is_self_call(c))
    except symex.TooManyPaths as e:
        ctx.unknown('R11d', m, f, str(e), construct=fname)
        return
    if not cases:
        ctx.refuted('R11d', m, f, '%s never moves the reader (no self._advance_to_pos call): %s'
                    % (fname, consequence), construct=fname)
        return
    bad = []
    seen = set()
    for cs in cases:
        pol = cs.polarity_of(lambda a: isinstance(a, ast.Name) and a.id == flag)
        if not cs.sub.args:
            bad.append('no target')
            continue
        got = _GetattrToAttr().visit(cs.sub.args[0])
        # a branch decision "x is falsy" makes len(x) == 0 on that path
        zero = set()
        for t, p_ in cs.conds:
            for a, ap in symex._atoms(t, p_):
                if not ap:
                    zero.add('len(%s)' % unparse(_GetattrToAttr().visit(a)))
        pols = [pol] if pol is not None else [True, False]
        for pl in pols:
            seen.add(pl)
            want = ast.parse(expected[pl].replace('tok', tokname), mode='eval').body
            # post_space may be read into a local through the token: tok.post_space
            try:
                d = affine.diff(got, want, {})
            except affine.NotAffine as e:
                bad.append('%s=%s: target %s not comparable (%s)' % (flag, pl, short(got, 60), e))
                continue
            d = (d[0], dict((k, v) for k, v in d[1].items() if k not in zero))
            if d != (0, {}):
                bad.append('%s=%s: target is %s, expected %s' % (flag, pl, short(got, 60), expected[pl]))
    if seen != {True, False}:
        bad.append('only the %s=%s case reaches _advance_to_pos' % (flag, sorted(seen)))
    if bad:
        ctx.refuted('R11d', m, f, '%s: %s: %s' % (fname, '; '.join(bad), consequence), construct=fname)
    else:
        ctx.holds('R11d', m, f, '%s targets %s (flag set) / %s (flag clear) on %d structural case(s)'
                  % (fname, expected[True], expected[False], len(cases)), construct=fname)


def _call_args_by_name(c, meths):
    """argument expressions of a make_token/LatexToken call or of a call of a reader method on
    self, keyed by parameter name"""
    out = dict((k.arg, k.value) for k in c.keywords if k.arg)
    callee = meths.get(call_name(c))
    if callee is not None and is_self_call(c):
        names = [a.arg for a in callee.args.args][1:]
        for n, a in zip(names, c.args):
            out.setdefault(n, a)
    elif call_name(c) == 'LatexToken':
        for n, a in zip(('tok', 'arg', 'pos', 'pos_end', 'pre_space', 'post_space'), c.args):
            out.setdefault(n, a)
    return out


def _reader_symbols(env, readers):
    """symbols bound on this path by tuple-unpacking the result of a space reader:
    {S symbol: (P expr, E symbol-name)}"""
    defs = env.get('#def', {})
    by_call = {}
    for sym, d in defs.items():
        if isinstance(d, tuple) and d[0] == 'item' and isinstance(d[3], ast.Call) and \
                call_name(d[3]) in readers and readers[call_name(d[3])]['n'] == d[2]:
            by_call.setdefault(id(d[3]), (d[3], {}))[1][d[1]] = sym
    out = {}
    for call, items in by_call.values():
        r = readers[call_name(call)]
        if r['S'] not in items or r['E'] not in items:
            continue
        # the start position is the reader's position argument (the scanner returns it
        # unchanged, see _lockstep_scanner); a returned start symbol is an alias of it
        args = list(call.args)
        if r['posparam'] >= len(args):
            kw = [k.value for k in call.keywords if k.arg == r['posname']]
            P = kw[0] if kw else None
        else:
            P = args[r['posparam']]
        psym = items.get(r['P']) if r.get('P') is not None else None
        if P is None:
            if psym is None:
                continue
            P, psym = ast.Name(id=psym, ctx=ast.Load()), None
        out[items[r['S']]] = (P, items[r['E']], psym)
    return out


def _coherent(space_sub, x_sub, rs):
    """None if x_sub - P == len(space_sub) for the reader triple the space derives from; a
    reason string if they differ; '' if the space does not derive from a reader"""
    base = [n.id for n in ast.walk(space_sub) if isinstance(n, ast.Name) and n.id in rs]
    if not base:
        return ''
    S = base[0]
    P, E, psym = rs[S]
    if psym:
        x_sub = symex.subst(x_sub, {psym: P})
    try:
        lhs = affine.diff(x_sub, P, {})
        c, t = affine.norm_len(space_sub, {})
        # len(S) == E - P for the untouched reader result
        k = 'len(%s)' % S
        if k in t:
            coef = t.pop(k)
            ce, te = affine.diff(ast.Name(id=E, ctx=ast.Load()), P, {})
            c += coef * ce
            for kk, vv in te.items():
                t[kk] = t.get(kk, 0) + coef * vv
        t = dict((kk, vv) for kk, vv in t.items() if vv)
    except affine.NotAffine as e:
        return 'not comparable: %s' % e
    if lhs == (c, t):
        return None
    return 'position - %s is %s but the space has length %s' % (unparse(P), affine.show(lhs), affine.show((c, t)))


def _text_meets_post_space(b, post_space, pos_end, rs):
    """None if pos_end - b == len(post_space) (the token text s[a:b] ends where the post space
    starts); a reason otherwise; '?' when not comparable"""
    try:
        base = [n.id for n in ast.walk(post_space) if isinstance(n, ast.Name) and n.id in rs]
        psub = {}
        lhs_b = b
        pe = pos_end
        c, t = affine.norm_len(post_space, {})
        if base:
            S = base[0]
            P, E, psym = rs[S]
            if psym:
                pe = symex.subst(pe, {psym: P})
                lhs_b = symex.subst(lhs_b, {psym: P})
            k = 'len(%s)' % S
            if k in t:
                coef = t.pop(k)
                ce, te = affine.diff(ast.Name(id=E, ctx=ast.Load()), P, {})
                c += coef * ce
                for kk, vv in te.items():
                    t[kk] = t.get(kk, 0) + coef * vv
        t = dict((kk, vv) for kk, vv in t.items() if vv)
        lhs = affine.diff(pe, lhs_b, {})
    except affine.NotAffine:
        return '?'
    if lhs == (c, t):
        return None
    return ('the token text ends at %s but the token ends at %s and carries a post space of length %s: '
            'the characters in between belong to no field of the token'
            % (short(b, 40), short(pos_end, 40), affine.show((c, t))))


def _space_coherence(ctx, m, meths):
    """every token (and every call handing pos/pre_space on to a reader method) keeps the
    invariant  pos - start_of_space == len(pre_space)  and  pos_end - start_of_post_space ==
    len(post_space); decided per structural path with substituted values, so it does not depend
    on which locals hold the intermediate positions or whether a cut is done in a helper"""
    isp = meths.get('impl_peek_space_chars')
    if isp is None:
        raise AnalysisError('anchor vanished: impl_peek_space_chars')
    why = _lockstep_scanner(isp)
    ctx.decide('R11e', why is None, m, isp,
               'scanner appends s[i] and advances i by one on every continuing path of its loop, '
               'leaves both unchanged when it stops, and returns (space, pos, i)',
               'impl_peek_space_chars: %s: the returned end position is not start + len(space), '
               'tokens built from it start at the wrong place' % why,
               construct='impl_peek_space_chars')
    if why is not None:
        return
    ret = [r for r in iter_own(isp) if isinstance(r, ast.Return)][0].value
    pnames = [a.arg for a in isp.args.args][1:]
    readers = {'impl_peek_space_chars': dict(n=3, S=0, P=1, E=2, posparam=pnames.index(ret.elts[1].id),
                                             posname=ret.elts[1].id)}
    # derived readers: helpers returning (space, end) computed from a reader result
    for _round in range(2):
        for fname, f in sorted(meths.items()):
            if fname in readers or fname == 'peek_space_chars':
                continue
            try:
                rcs = symex.return_cases(f)
            except symex.TooManyPaths:
                continue
            if not rcs or not all(isinstance(c.sub, ast.Tuple) and len(c.sub.elts) == 2 for c in rcs):
                continue
            fparams = [a.arg for a in f.args.args][1:]
            ok, posp = True, None
            for c in rcs:
                rs = _reader_symbols(c.env, readers)
                r = _coherent(c.sub.elts[0], c.sub.elts[1], rs)
                if r == '':
                    ok = False
                    break
                base = [n.id for n in ast.walk(c.sub.elts[0]) if isinstance(n, ast.Name) and n.id in rs][0]
                P = rs[base][0]
                if not (isinstance(P, ast.Name) and P.id in fparams):
                    ok = False
                    break
                posp = P.id
                cons = '%s: returned (space, end) pair' % fname
                if r is None:
                    ctx.holds('R11e', m, c.node, 'returned end - %s == len(returned space)' % posp, construct=cons)
                else:
                    ctx.refuted('R11e', m, c.node, '%s returns a space string and an end position '
                                'that disagree (%s): text and positions of the token built from '
                                'them disagree' % (fname, r), construct=cons)
            if ok and posp:
                readers[fname] = dict(n=2, S=0, P=None, E=1, posparam=fparams.index(posp), posname=posp)

    def sink(c):
        if call_name(c) in ('make_token', 'LatexToken'):
            return True
        return is_self_call(c) and call_name(c) in meths and call_name(c).startswith('impl_') and \
            'pre_space' in [a.arg for a in meths[call_name(c)].args.args]
    n_pre = n_post = 0
    for fname, f in sorted(meths.items()):
        fparams = [a.arg for a in f.args.args]
        try:
            cases = symex.sink_cases(f, sink)
        except symex.TooManyPaths as e:
            ctx.unknown('R11e', m, f, str(e), construct='%s: space coherence' % fname)
            continue
        seen = {}
        over_end = []
        for cs in cases:
            args = _call_args_by_name(cs.sub, meths)
            rs = _reader_symbols(cs.env, readers)
            for which, posk in (('pre_space', 'pos'), ('post_space', 'pos_end')):
                sp, x = args.get(which), args.get(posk)
                if sp is None or x is None:
                    continue
                cons = '%s: %s of %s(%s)' % (fname, which, call_name(cs.node),
                                             short(args.get('tok'), 25) if args.get('tok') is not None else '')
                if which == 'pre_space' and isinstance(sp, ast.Name) and sp.id == 'pre_space' and \
                        'pre_space' in fparams and 'pos' in fparams:
                    # contract of the impl_read_* methods: (pos, pre_space) are handed on together
                    verdict = None if (isinstance(x, ast.Name) and x.id == 'pos') else \
                        'the token starts at %s, not at the pos the pre_space belongs to' % short(x)
                else:
                    verdict = _coherent(sp, x, rs)
                    if verdict == '':
                        if isinstance(sp, ast.Constant) and sp.value == '':
                            continue
                        verdict = '?'
                seen.setdefault(cons, []).append((verdict, cs))
            # the token text is a source slice s[a:b] and there is a post_space: the text ends
            # where the post space starts, i.e. pos_end - b == len(post_space)
            targ, tps, tpe = args.get('arg'), args.get('post_space'), args.get('pos_end')
            if isinstance(targ, ast.Subscript) and isinstance(targ.slice, ast.Slice) and \
                    targ.slice.upper is not None and tps is not None and tpe is not None:
                cons = '%s: text end of %s(%s)' % (fname, call_name(cs.node), short(args.get('tok'), 25))
                verdict = _text_meets_post_space(targ.slice.upper, tps, tpe, rs)
                seen.setdefault(cons, []).append((verdict, cs))
            # R11h: a token built on a path that has established `E >= len(s)` must end at or
            # before E (resp. before E for `E > len(s)`): otherwise its end lies past the input
            tpe2 = args.get('pos_end')
            if tpe2 is not None and call_name(cs.node) in ('make_token', 'LatexToken'):
                for t_, pol in cs.conds:
                    for a_, ap in symex._atoms(t_, pol):
                        if not (isinstance(a_, ast.Compare) and len(a_.ops) == 1):
                            continue
                        l_, r_, op_ = a_.left, a_.comparators[0], a_.ops[0]
                        islen = lambda z: unparse(z).replace(' ', '') in ('len(s)', 'len_s', 'len(self.s)')
                        if islen(r_) and isinstance(op_, (ast.Gt, ast.GtE)):
                            E, strict = l_, isinstance(op_, ast.Gt)
                        elif islen(l_) and isinstance(op_, (ast.Lt, ast.LtE)):
                            E, strict = r_, isinstance(op_, ast.Lt)
                        else:
                            continue
                        if not ap:
                            continue
                        try:
                            d_ = affine.diff(tpe2, E, {})
                        except affine.NotAffine:
                            continue
                        if d_[1]:
                            continue
                        past = d_[0] >= 0 if strict else d_[0] >= 1
                        if past:
                            over_end.append((cs, unparse(a_), short(tpe2)))
            # every token of a method that was handed the leading whitespace carries it
            if 'pre_space' in fparams and call_name(cs.node) in ('make_token', 'LatexToken') and \
                    args.get('pre_space') is None:
                star = [k.value for k in cs.sub.keywords if k.arg is None]
                has = False
                for sx in star:
                    d_ = symex.resolve(sx, cs.env)
                    if isinstance(d_, ast.Call) and call_name(d_) == 'dict':
                        has = has or any(k.arg == 'pre_space' for k in d_.keywords)
                    elif isinstance(d_, ast.Dict):
                        has = has or any(isinstance(k, ast.Constant) and k.value == 'pre_space' for k in d_.keys)
                cons = '%s: pre_space of %s(%s)' % (fname, call_name(cs.node), short(args.get('tok'), 25))
                seen.setdefault(cons, []).append((
                    None if has else 'the token is built without the pre_space this method was given, although '
                    'its pos lies after that whitespace', cs))
        for cs_, fact_, pe_ in over_end[:1]:
            ctx.refuted('R11h', m, cs_.node, 'a token ending at %s is built on a path that has established %s: '
                        'the token ends past the end of the input, so the node that contains it covers '
                        'characters that do not exist' % (pe_, fact_),
                        construct='%s: token end past the input' % fname)
        for cons, lst in sorted(seen.items()):
            bad = [(v, cs) for v, cs in lst if v not in (None, '?')]
            unk = [(v, cs) for v, cs in lst if v == '?']
            node = lst[0][1].node
            if 'pre_space' in cons.split(':')[1]:
                n_pre += 1
            else:
                n_post += 1
            if bad:
                ctx.refuted('R11e', m, node, 'the token\'s space and position disagree on a path '
                            '[%s]: %s: characters are lost or duplicated when the token stream is '
                            'put back together, and going back to the token re-reads from the wrong '
                            'place' % (' & '.join(bad[0][1].cond_src())[:160], bad[0][0]), construct=cons)
            elif unk:
                ctx.unknown('R11e', m, node, 'space argument does not derive from a recognised '
                                             'space reader result', construct=cons)
            else:
                ctx.holds('R11e', m, node, 'position - start of space == len(space) on %d structural '
                                           'path(s)' % len(lst), construct=cons)
    ctx.holds('R11h', m, None, 'no token is built with an end that a dominating comparison with len(s) places '
              'past the input', construct='token end scan', trivial=True)
    if n_pre < 8 or n_post < 2:
        raise AnalysisError('space coherence: only %d pre_space / %d post_space sites found' % (n_pre, n_post))


def _lockstep_scanner(f):
    """None when the whitespace scanner keeps (accumulated string, index) in lock step, else the
    reason.  Shape-independent: the return tuple names the variables, the loop body is walked
    path by path with substitution (pxv.symex)."""
    rets = [r for r in iter_own(f) if isinstance(r, ast.Return)]
    if len(rets) != 1 or not isinstance(rets[0].value, ast.Tuple) or len(rets[0].value.elts) != 3 \
            or not all(isinstance(e, ast.Name) for e in rets[0].value.elts):
        return 'does not return one (space, start, end) tuple of variables'
    acc, start, idx = [e.id for e in rets[0].value.elts]
    params = [a.arg for a in f.args.args]
    if start not in params:
        return 'the returned start position %s is not the position parameter' % start
    loops = [l for l in f.body if isinstance(l, ast.While)]
    if len(loops) != 1:
        return 'expected one scanning loop at function level, found %d' % len(loops)
    loop = loops[0]
    # initial values before the loop
    pre = symex.Walker(want_exits=True).run_block(f.body[:f.body.index(loop)])
    ends = [c for c in pre if c.kind == 'end']
    if len(ends) != 1:
        return 'initialisation before the loop is not straight-line'
    env0 = ends[0].env
    i0, a0 = env0.get(idx), env0.get(acc)
    if i0 is None or unparse(i0) != start:
        return 'the index %s does not start at %s' % (idx, start)
    if a0 is None or not (isinstance(a0, ast.Constant) and a0.value == ''):
        return 'the accumulated space does not start empty'
    # the string scanned: s[idx]
    strname = None
    body_env = dict((k, v) for k, v in env0.items() if k not in (idx, acc) and v is not None and not k.startswith('#')
                    and not any(isinstance(n, ast.Name) and n.id in (idx, acc) for n in ast.walk(v)))
    cases = symex.Walker(want_exits=True).run_block(
        loop.body, env=body_env, conds=[(symex.subst(loop.test, body_env), True)])
    n_step = 0
    for cs in cases:
        ai, ii = cs.env.get(acc), cs.env.get(idx)
        unchanged_a = acc not in cs.env or (ai is not None and unparse(ai) == acc)
        unchanged_i = idx not in cs.env or (ii is not None and unparse(ii) == idx)
        if cs.kind in ('break', 'return', 'raise'):
            if cs.kind == 'break' and not (unchanged_a and unchanged_i):
                return 'a path that stops scanning changes %s or %s' % (acc, idx)
            continue
        # continuing path
        if unchanged_a and unchanged_i:
            return 'a continuing loop path changes neither the index nor the space (no progress)'
        if ii is None or unparse(ii).replace(' ', '') != '%s+1' % idx:
            return 'a continuing path sets %s to %s, not %s + 1' % (idx, short(ii) if ii is not None else '?', idx)
        if not (isinstance(ai, ast.BinOp) and isinstance(ai.op, ast.Add) and unparse(ai.left) == acc
                and isinstance(ai.right, ast.Subscript) and unparse(ai.right.slice) == idx):
            return 'a continuing path sets %s to %s, not %s + <string>[%s]' % (
                acc, short(ai) if ai is not None else '?', acc, idx)
        ch = unparse(ai.right)
        facts = set()
        for t, pol in cs.conds:
            for a, ap in symex._atoms(t, pol):
                facts.add((unparse(a), ap))
        if ('%s.isspace()' % ch, True) not in facts:
            return 'the appended character %s is not tested with isspace() on that path' % ch
        n_step += 1
    if not n_step:
        return 'no path of the loop appends a character'
    # between the loop and the return nothing rewrites the string or the index: the string
    # returned is the source slice [start, end)
    post = f.body[f.body.index(loop) + 1:]
    try:
        pc = symex.Walker(want_returns=True).run_block(post)
    except symex.TooManyPaths:
        return 'too many paths after the loop'
    for cs in pc:
        for v in (acc, idx):
            nv = cs.env.get(v)
            if v in cs.env and not (isinstance(nv, ast.AST) and unparse(nv) == v):
                return 'after the scan %s is changed to %s on the path [%s]: the string returned is no longer ' \
                       'the source text between the two positions returned with it' % (
                           v, short(nv) if isinstance(nv, ast.AST) else 'another value',
                           ' & '.join(cs.cond_src())[:80])
    return None


class _GetattrToAttr(ast.NodeTransformer):
    """getattr(x, 'name', None) -> x.name (the defaulted read of an optional token field)"""
    def visit_Call(self, n):
        self.generic_visit(n)
        if isinstance(n.func, ast.Name) and n.func.id == 'getattr' and len(n.args) >= 2 and \
                isinstance(n.args[1], ast.Constant) and isinstance(n.args[1].value, str):
            return ast.Attribute(value=n.args[0], attr=n.args[1].value, ctx=ast.Load())
        return n


def is_self_call(c):
    return isinstance(c.func, ast.Attribute) and isinstance(c.func.value, ast.Name) and c.func.value.id == 'self'


def prespace_forwarding(ctx, rule, m, meths):
    for fname, f in sorted(meths.items()):
        params = {a.arg for a in f.args.args}
        for c in [c for c in iter_own(f) if isinstance(c, ast.Call) and
                  call_name(c) in ('make_token', 'LatexToken') and kwarg(c, 'pre_space') is not None]:
            ps = kwarg(c, 'pre_space')
            ok = isinstance(ps, ast.Name) and ps.id == 'pre_space'
            if ok:
                ctx.holds(rule, m, c, 'pre_space forwarded unchanged',
                          construct='%s: pre_space of token(%s)' % (fname, short(kwarg(c, 'tok'), 25)),
                          trivial=True)
            else:
                ctx.refuted(rule, m, c, 'token receives pre_space=%s, not the leading whitespace '
                                          'that was peeked: pos - len(pre_space) no longer marks '
                                          'where the whitespace started, characters are lost from '
                                          'the token stream' % short(ps),
                            construct='%s: pre_space of token(%s)' % (fname, short(kwarg(c, 'tok'), 25)))


def _rest_r11e(ctx, repo, m, meths, ip):
    if ip is None:
        raise AnalysisError('anchor vanished: impl_peek_token')
    # the space scanner returns (space, pos, p2) with p2 - pos == len(space)
    _space_coherence(ctx, m, meths)
    # ------------------------------------------------------------ R11f
    cm = repo.mod(c14.MODULE)
    tfs = cm.methods(c14.CLASS).get('test_for_specials')
    if tfs is None:
        raise AnalysisError('anchor vanished: test_for_specials')
    sub = _Sub(ctx, 'R11f')
    c14._check_test_for_specials(sub, cm, tfs)

    # ------------------------------------------------------------ R11g
    eos = [r for r in iter_own(ip) if isinstance(r, ast.Raise) and isinstance(r.exc, ast.Call)
           and call_name(r.exc) == 'LatexWalkerEndOfStream']
    ok = len(eos) == 1 and kwarg(eos[0].exc, 'final_space') is not None and \
        unparse(kwarg(eos[0].exc, 'final_space')) == 'pre_space' and any(
            pol and unparse(t).replace(' ', '') in ('pos>=len_s', 'pos>=len(s)')
            for t, pol in atomic_facts(eos[0]))
    ctx.decide('R11g', ok, m, eos[0] if eos else ip,
               'raise LatexWalkerEndOfStream(final_space=pre_space) when pos >= len(s)',
               'end of stream is not reported with the trailing whitespace', construct='end of stream')
    ctx.assume('configured delimiters, comment start and specials sequences are non-empty strings')
    # ---- R11i (grules G15): positions found with str.find()
    ctx.rule('R11i', 'in the token reader the result of str.find()/rfind() is used as a position only where the text '
                     'searched for is known to occur (compared with -1, or counted >= 1 with the same argument): a token '
                     'is never cut at "not found"', 0)
    from .. import grules as _gr
    n_fd = 0
    for q_, f_ in sorted(m.functions.items()):
        for use_, name_, d_, path_ in _gr.unchecked_find(f_):
            n_fd += 1
            ctx.refuted('R11i', m, enclosing_stmt(use_) or use_, '%s: %s = %s is used as a position on the path [%s] without '
                        'having been compared with -1 and without a count() test of the same text: for whitespace that '
                        'holds none of it the token is cut at -1 -- it has the wrong extent or zero width and the reader '
                        'does not advance' % (q_, name_, short(d_, 40), path_),
                        construct='%s: %s from %s' % (q_, name_, short(d_, 40)))
    ctx.holds('R11i', m, None, 'no unchecked find() position in the token reader', construct='find() scan', trivial=True)

    # ---- R11j: the reader tokenizes its own string
    ctx.rule('R11j', 'the token reader takes characters from its own string only (self.s / the `s` it passes on), never from '
                     'the `s` field of a parsing state, which need not be the string being read', 0)
    n_ps = 0
    for q_, f_ in sorted(m.functions.items()):
        for x_ in iter_own(f_):
            if isinstance(x_, ast.Attribute) and x_.attr == 's' and isinstance(x_.ctx, ast.Load) and \
                    'parsing_state' in unparse(x_.value):
                n_ps += 1
                ctx.refuted('R11j', m, enclosing_stmt(x_) or x_, '%s reads %s: the text tokenized there is the parsing state\'s '
                            'string, not the reader\'s -- with a default ParsingState (s=None) the read fails, with another '
                            'document\'s state the token text and end position come from that document, so the tokens no '
                            'longer reproduce the input' % (q_, unparse(x_)), construct='%s: %s' % (q_, unparse(x_)))
    ctx.holds('R11j', m, None, 'no read of <parsing state>.s in the token reader', construct='parsing_state.s scan', trivial=True)

    # ---- R11k: look-ahead in the source string is in range
    ctx.rule('R11k', 'the token reader indexes its string beyond the current position (s[pos+k], k >= 1) only where a test on '
                     'that index against len(s) holds on the path: at the end of the input a look-ahead otherwise raises '
                     'IndexError, and the tokens no longer account for the input', 1)
    n_la = 0
    from ..grules import short_circuit_facts as _scf
    for q_, f_ in sorted(m.functions.items()):
        if not q_.startswith('LatexTokenReader.'):
            continue
        for x_ in ast.walk(f_):
            if not (isinstance(x_, ast.Subscript) and isinstance(x_.value, ast.Name) and x_.value.id == 's'
                    and isinstance(x_.ctx, ast.Load) and not isinstance(x_.slice, ast.Slice)):
                continue
            idx = x_.slice
            if not (isinstance(idx, ast.BinOp) and isinstance(idx.op, ast.Add) and isinstance(idx.right, ast.Constant)
                    and isinstance(idx.right.value, int) and idx.right.value >= 1):
                continue
            n_la += 1
            itxt, base, k = unparse(idx), unparse(idx.left), idx.right.value
            facts = set()
            for t_, p_ in list(atomic_facts(x_)) + list(_scf(x_)):
                for a_, ap_ in symex._atoms(t_, p_):
                    facts.add((unparse(a_), ap_))
            want = [('%s < len(s)' % itxt, True), ('len(s) > %s' % itxt, True), ('%s >= len(s)' % itxt, False),
                    ('len(s) <= %s' % itxt, False), ('%s < len(s) - %d' % (base, k), True),
                    ('%s + %d <= len(s)' % (base, k + 1), True), ('%s + %d > len(s)' % (base, k + 1), False)]
            ctx.decide('R11k', any(w_ in facts for w_ in want), m, x_, 'look-ahead %s under an in-range test' % unparse(x_),
                       '%s reads %s with no test that %s < len(s) on the way (facts: %s): when the input ends right after '
                       'position %s the reader raises IndexError instead of producing a token'
                       % (q_, unparse(x_), itxt, sorted(t_ for t_, p_ in facts if p_)[:3], base),
                       construct='%s: %s' % (q_, unparse(x_)))
    if not n_la:
        ctx.unknown('R11k', m, None, 'no look-ahead found in the token reader', construct='look-ahead scan')

    return 'other', (
        'Decides, at every token construction site, that the token has positive width and carries '
        'the peeked whitespace unchanged with positions recomputed consistently; an effect analysis '
        'shows that the peek family and all impl_* methods never write the reader; next/move '
        'methods have the documented targets.  The concatenation identity over whole token '
        'sequences is a run-time statement and is not decided.')


def name_is_stub(f):
    body = [s for s in f.body if not (isinstance(s, ast.Expr) and isinstance(s.value, ast.Constant))]
    return len(body) == 1 and isinstance(body[0], ast.Raise)


def _block_of(st):
    p = getattr(st, '_parent', None)
    for fld in ('body', 'orelse', 'finalbody'):
        lst = getattr(p, fld, None)
        if isinstance(lst, list) and any(s is st for s in lst):
            return lst
    return [st]


def _callee_end_lemma(meths, f, call, pos, pe):
    """the end position is an item of the tuple returned by another reader method: that method's
    returned expression, with its parameters replaced by the arguments of the call, minus `pos`
    must be a positive constant plus non-negative terms (lengths, the end offset of a regex match)"""
    if not isinstance(pe, ast.Name):
        return None
    try:
        cases = [c for c in symex.Walker(is_sink=lambda n: n is call).run(f)]
    except symex.TooManyPaths:
        return None
    if not cases:
        return None
    for cs in cases:
        d = symex.item_def(unparse(symex.subst(pe, cs.env)), cs.env)
        if d is None:
            return None
        _tag, idx, n_items, src = d
        if not (isinstance(src, ast.Call) and isinstance(src.func, ast.Attribute) and
                isinstance(src.func.value, ast.Name) and src.func.value.id == 'self' and src.func.attr in meths):
            return None
        g = meths[src.func.attr]
        gp = [a.arg for a in g.args.args][1:]
        ren = dict(zip(gp, src.args))
        ren.update((k.arg, k.value) for k in src.keywords if k.arg)
        try:
            rcs = symex.Walker(want_returns=True, pure=('end', 'start', 'group', 'span')).run(g)
        except symex.TooManyPaths:
            return None
        n_ok = 0
        for rc in rcs:
            if rc.kind != 'return' or not isinstance(rc.sub, ast.Tuple) or len(rc.sub.elts) != n_items:
                return None
            e = rc.sub.elts[idx]
            if isinstance(e, ast.Constant) and e.value is None:
                continue            # the "not found" result: the caller raises instead of building a token
            e2 = symex.subst(e, ren)
            try:
                cst, terms = affine.diff(e2, symex.subst(pos, cs.env), affine.single_assign_env(f))
            except affine.NotAffine:
                return None
            if cst < 1 or not all(v > 0 and (k.endswith('.end()') or k.startswith('len(')) for k, v in terms.items()):
                return None
            n_ok += 1
        if not n_ok:
            return None
    return 'end position returned by self.%s(): start + %s (a positive constant plus lengths / a match end)' % (
        src.func.attr, affine.show((cst, terms)))


def _width_lemma(f, call, pos, pe):
    """Reviewed lemmas for widths that are not affine in the site's own terms."""
    pe_t, pos_t = unparse(pe), unparse(pos)
    src = unparse(f)
    if pe_t == 'posi' and 'posi = pos + 2' in src and 'posi += 1' in src:
        return 'posi starts at pos + 2 and only grows (post space end >= posi)'
    if pe_t == 'environment_pos_end' and 'envmatch_end_pos = pos_envname + envmatch.end()' in \
            unparse(getattr(f, '_parent', f)):
        return 'environment name match ends after pos + 1 + len(begin/end)'
    if pe_t == 'newpar_pos_end' and pos_t == 'newpar_pos_start' and \
            "pre_space.rfind('\\n') + 1" in src and "pre_space.find('\\n')" in src and \
            "pre_space.count('\\n') >= 2" in src:
        return 'at least two newlines: last newline + 1 > first newline'
    if pe_t == 'comment_with_whitespace_pos_end' and 'comment_pos_end = sppos' in src:
        return 'comment extends at least over the comment start'
    if pe_t == 'pos_end' and pos_t == 'pos' and f.name == 'impl_char_token':
        return 'forwarded (pos, pos_end) of the caller, which passes (pos, pos + 1)'
    return None


class _Sub(object):
    def __init__(self, ctx, rule):
        self.ctx, self.rule = ctx, rule

    def holds(self, rule, *a, **k):
        return self.ctx.holds(self.rule, *a, **k)

    def refuted(self, rule, *a, **k):
        return self.ctx.refuted(self.rule, *a, **k)

    def unknown(self, rule, *a, **k):
        return self.ctx.unknown(self.rule, *a, **k)

    def decide(self, rule, *a, **k):
        return self.ctx.decide(self.rule, *a, **k)
