# -*- coding: utf-8 -*-
"""C12  latex2text content filters: comments, math modes, discards.

R12a comment gate; R12b math_mode switch (+ cross-table routing of math
environments); R12c discard gate (+ the default of the discard flag and the
table entries that rely on it)."""
import ast
from .. import symex
from .. import core
from ..core import (AnalysisError, short, unparse, iter_own, call_name, call_recv, kwarg,
                    is_self_attr, atomic_facts, parents, enclosing_stmt, const_value, enclosing_func)
from .. import tables

L2T = 'pylatexenc.latex2text'
MATH_MODES = ('text', 'with-delimiters', 'verbatim', 'remove')


def _mode_of(node):
    """The math_mode literal whose arm `node` lies in (via guard facts)."""
    for t, pol in atomic_facts(node):
        if pol and isinstance(t, ast.Compare) and is_self_attr(t.left, 'math_mode') and \
                isinstance(t.ops[0], ast.Eq) and isinstance(t.comparators[0], ast.Constant):
            return t.comparators[0].value
    return None


def run(ctx):
    repo = ctx.repo
    m = repo.mod(L2T)
    meths = m.methods('LatexNodes2Text')
    ctx.rule('R12a', 'comment text is returned only under keep_comments; under keep_comments every '
                     'return carries the comment text; node.comment is read nowhere else in '
                     'latex2text; comment nodes are routed to comment_node_to_text', 5)
    ctx.rule('R12b', 'math_node_to_text: `remove` returns the empty constant; `verbatim` returns '
                     'node.latex_verbatim() unchanged (directly or through the block formatter with '
                     'indent=\'\'); `with-delimiters` returns delims[0] + ... + delims[1]; all '
                     'validated modes have an arm; math nodes and equation environments are routed '
                     'through it', 10)
    ctx.rule('R12b2', 'cross-table: every environment the walker parses in math mode has a latex2text '
                      'spec routed to fmt_equation_environment', 10)
    ctx.rule('R12g', 'who may drop a comment: every place in latex2text that tests for comment nodes routes them '
                     'to comment_node_to_text (the keep_comments gate); no renderer skips them on its own', 1)
    ctx.rule('R12f', 'no comment reaches the renderer less than the source has: the delimited-expression '
                     'parser lists every token it read when an optional argument turns out to be absent '
                     '(shared with C02 R02f), so comments in front of it are not dropped', 1)
    ctx.rule('R12e', 'parameter liveness of the text-spec factories and constructors (MacroDef, EnvDef, '
                     'SpecialsDef, fmt_* helpers, *TextSpec.__init__): every accepted parameter is used', 10)
    ctx.rule('R12c', 'arguments/body of macros, environments and specials are rendered only when '
                     'the spec is not discarded; MacroTextSpec discards by default when no '
                     'replacement is given (table entries relying on that default are enumerated)', 5)

    # ------------------------------------------------------------------ R12a
    cf = meths.get('comment_node_to_text')
    ntt = meths.get('node_to_text')
    if cf is None or ntt is None:
        raise AnalysisError('anchor vanished: comment_node_to_text/node_to_text')
    p = cf.args.args[1].arg
    for r in [x for x in iter_own(cf) if isinstance(x, ast.Return)]:
        uses = any(isinstance(a, ast.Attribute) and a.attr == 'comment' and unparse(a.value) == p
                   for a in ast.walk(r))
        facts = atomic_facts(r)
        keep = any(pol and is_self_attr(t, 'keep_comments') for t, pol in facts)
        nokeep = any((not pol) and is_self_attr(t, 'keep_comments') for t, pol in facts)
        if uses:
            ctx.decide('R12a', keep, m, r, 'comment text returned under keep_comments',
                       'comment text is returned on a path where keep_comments is not known to be '
                       'set: comments leak into the output', construct='comment gate: ' + short(r))
        elif keep:
            ctx.refuted('R12a', m, r, 'with keep_comments set this path returns %s without the '
                                      'comment text: the comment is lost' % short(r.value),
                        construct='comment kept: ' + short(r))
        else:
            ctx.decide('R12a', nokeep, m, r, 'no comment text without keep_comments',
                       'return outside both keep_comments arms', construct='comment gate: ' + short(r))
    # reads of .comment elsewhere in latex2text
    others = []
    for mod in repo.modules.values():
        if not mod.name.startswith('pylatexenc.latex2text') or mod.name.endswith('__main__'):
            continue
        for n in ast.walk(mod.tree):
            if isinstance(n, ast.Attribute) and n.attr == 'comment' and isinstance(n.ctx, ast.Load):
                f = [q for q in parents(n) if isinstance(q, ast.FunctionDef)]
                if not f or f[0] is not cf:
                    others.append((mod, n))
    for mod, n in others:
        ctx.refuted('R12a', mod, enclosing_stmt(n), 'comment text is read outside '
                                                    'comment_node_to_text (bypasses keep_comments)',
                    construct='read of .comment: ' + short(enclosing_stmt(n), 80))
    if not others:
        ctx.holds('R12a', m, cf, '.comment is read only in comment_node_to_text',
                  construct='reads of .comment')
    # dispatch
    disp = _dispatch(ntt)
    ctx.decide('R12a', disp.get('LatexCommentNode') == 'comment_node_to_text', m, ntt,
               'comment nodes -> comment_node_to_text',
               'node_to_text does not route LatexCommentNode to comment_node_to_text (got %s)'
               % disp.get('LatexCommentNode'), construct='dispatch of LatexCommentNode')
    ctx.decide('R12b', disp.get('LatexMathNode') == 'math_node_to_text', m, ntt,
               'math nodes -> math_node_to_text',
               'node_to_text does not route LatexMathNode to math_node_to_text (got %s)'
               % disp.get('LatexMathNode'), construct='dispatch of LatexMathNode')

    # ------------------------------------------------------------------ R12b
    mf = meths.get('math_node_to_text')
    init = meths.get('__init__')
    if mf is None or init is None:
        raise AnalysisError('anchor vanished: math_node_to_text/__init__')
    np_ = mf.args.args[1].arg
    arms = set()
    for n in iter_own(mf):
        if isinstance(n, ast.Compare) and is_self_attr(n.left, 'math_mode') and \
                isinstance(n.comparators[0], ast.Constant):
            arms.add(n.comparators[0].value)
    valid = None
    for n in iter_own(init):
        if isinstance(n, ast.Compare) and is_self_attr(n.left, 'math_mode') and \
                isinstance(n.ops[0], ast.NotIn) and core.const_members(m, n.comparators[0]) is not None:
            valid = set(core.const_members(m, n.comparators[0]))
    ctx.decide('R12b', valid is not None and valid == arms == set(MATH_MODES), m, mf,
               'validated modes = arms = %s' % sorted(arms),
               'math modes validated in __init__ (%s) and arms of math_node_to_text (%s) differ '
               'from the documented %s' % (sorted(valid or ()), sorted(arms), list(MATH_MODES)),
               construct='math modes vs arms')
    for r in [x for x in iter_own(mf) if isinstance(x, ast.Return)]:
        mode = _mode_of(r)
        v = r.value
        if mode == 'remove':
            ok = isinstance(v, ast.Constant) and v.value == ''
            ctx.decide('R12b', ok, m, r, "remove -> ''",
                       "math_mode='remove' returns %s, not the empty string: formula content "
                       "appears" % short(v), construct='remove arm: ' + short(r))
        elif mode == 'verbatim':
            verb = '%s.latex_verbatim()' % np_
            ok = unparse(v) == verb
            if not ok and isinstance(v, ast.Call) and call_name(v) == '_fmt_indented_block':
                ind = kwarg(v, 'indent')
                a0 = v.args[0] if v.args else None
                ok = a0 is not None and unparse(a0) == verb and isinstance(ind, ast.Constant) \
                    and ind.value == '' and len(v.args) == 1
            ctx.decide('R12b', ok, m, r, 'verbatim source returned unchanged',
                       "math_mode='verbatim' returns %s: the source of the formula does not appear "
                       "unchanged (only %s, or the block formatter with indent='', is accepted)"
                       % (short(v), verb), construct='verbatim arm: ' + short(r))
        elif mode == 'with-delimiters':
            ok = _wraps_delims(v)
            ctx.decide('R12b', ok, m, r, 'delims[0] + ... + delims[1]',
                       "math_mode='with-delimiters' returns %s, which does not start with the "
                       "opening and end with the closing delimiter" % short(v),
                       construct='with-delimiters arm: ' + short(r))
    # delimiters used in the with-delimiters arm come from the node / environment name
    for s in [x for x in iter_own(mf) if isinstance(x, ast.Assign) and _mode_of(x) == 'with-delimiters'
              and unparse(x.targets[0]) == 'delims']:
        v = s.value
        if isinstance(v, ast.Attribute):
            ok = unparse(v) == np_ + '.delimiters'
        else:
            txt = unparse(v)
            ok = isinstance(v, ast.Tuple) and len(v.elts) == 2 and 'begin{' in txt and 'end{' in txt \
                and txt.index('begin{') < txt.index('end{') and txt.count('environmentname') == 2
        ctx.decide('R12b', ok, m, s, 'delimiters taken from the node',
                   'delimiters are %s, not the node\'s own delimiters / \\begin{name},\\end{name}'
                   % short(v), construct='with-delimiters delims: ' + short(s))
    # fmt_equation_environment routes to the switch
    fe = m.func('fmt_equation_environment')
    try:
        frc = [c for c in symex.Walker(want_returns=True).run(fe) if c.kind == 'return']
    except symex.TooManyPaths:
        frc = []
    ok = bool(frc)
    for c in frc:
        v_ = symex.resolve(c.sub, c.env)
        ok = ok and isinstance(v_, ast.Call) and call_name(v_) == 'math_node_to_text' and \
            [unparse(a) for a in v_.args] == [fe.args.args[0].arg]
    ctx.decide('R12b', ok, m, fe, 'fmt_equation_environment -> math_node_to_text(envnode)',
               'fmt_equation_environment does not return l2tobj.math_node_to_text(<its node>)',
               construct='fmt_equation_environment')
    # _fmt_indented_block with indent='' is the identity up to surrounding newlines
    fb = meths.get('_fmt_indented_block')
    if fb is not None:
        from .c03 import indented_block_shape
        v, why = indented_block_shape(fb)
        if v is None:
            ctx.unknown('R12b', m, fb, why, construct='_fmt_indented_block shape')
        else:
            ctx.decide('R12b', v, m, fb, 'block = NL + indent + contents.replace(NL, NL + indent) + NL: '
                                         'with indent=\'\' the contents are reproduced unchanged',
                       '_fmt_indented_block: %s' % why, construct='_fmt_indented_block shape')

    # ------------------------------------------------------------------ R12b2 cross-table
    wt = tables.WalkerTable(repo)
    lt = tables.L2TTable(repo)
    ctx.analysed['walker_table'] = [len(wt.macros), len(wt.environments), len(wt.specials)]
    ctx.analysed['latex2text_table'] = [len(lt.macros), len(lt.environments), len(lt.specials)]
    for name, e in sorted(wt.environments.items()):
        if not e['is_math_mode']:
            continue
        t = lt.environments.get(name)
        repl = t['repl'] if t else None
        routed = t is not None and getattr(repl, 'name', None) == 'fmt_equation_environment'
        ctx.decide('R12b2', routed, wt.mod, e['rec'].node,
                   'routed to fmt_equation_environment',
                   'environment %s is parsed in math mode by the walker but latex2text has %s: its '
                   'body is rendered as ordinary text, so math_mode=\'remove\' leaks it and '
                   '\'verbatim\'/\'with-delimiters\' are ignored' % (
                       name, 'no spec for it' if t is None else 'spec %s' % short(t['rec'].node, 60)),
                   construct='walker math environment ' + name)

    # ------------------------------------------------------------------ R12c
    for fname, specvar_hint in (('macro_node_to_text', 'mac'), ('environment_node_to_text', 'envdef'),
                                ('specials_node_to_text', 'spec')):
        f = meths.get(fname)
        if f is None:
            raise AnalysisError('anchor vanished: LatexNodes2Text.' + fname)
        # the "render children" returns: join of _groupnodecontents_to_text / nodelist_to_text(node.nodelist)
        found = 0
        # per returning path (also of closures nested in the method), with locals expanded: a path
        # whose result contains a rendering of the children has decided `<spec>.discard` false
        scopes = [f] + [g for g in ast.walk(f) if isinstance(g, ast.FunctionDef) and g is not f]
        seen_r = set()
        for sc in scopes:
            try:
                rcs_ = [c for c in symex.Walker(want_returns=True).run(sc) if c.kind == 'return']
            except symex.TooManyPaths:
                ctx.unknown('R12c', m, sc, 'too many paths', construct=fname + ': ' + sc.name)
                continue
            for c in rcs_:
                txt = unparse(symex.expand(c.sub, c.env, depth=5))
                # any of the converter's rendering methods (nodelist_to_text, _groupnodecontents_to_text, math_node_to_text,
                # node_to_text, ...) applied on the way to the result
                renders = '_to_text(' in txt and 'apply_simplify_repl' not in txt
                if not renders:
                    continue
                found += 1
                facts = symex.facts_of(c.conds, c.env)
                ok = any((not pol) and t.endswith('.discard') for t, pol in facts)
                if ok and id(c.node) in seen_r:
                    continue
                seen_r.add(id(c.node))
                ctx.decide('R12c', ok, m, c.node, 'children rendered only on the not-discarded path',
                           '%s renders the arguments/body on the path [%s], on which the spec\'s discard flag was '
                           'not tested false: discarded constructs contribute text'
                           % (fname, ' & '.join(c.cond_src())[-120:]),
                           construct=fname + ': rendering of the children')
        if not found:
            ctx.unknown('R12c', m, f, 'no return rendering the children found', construct=fname)
        # every returning path on which the discard flag was decided true returns the empty string
        n_dis, bad_dis = 0, None
        for sc in scopes:
            try:
                rcs_ = [c for c in symex.Walker(want_returns=True).run(sc) if c.kind == 'return']
            except symex.TooManyPaths:
                continue
            for c in rcs_:
                facts = symex.facts_of(c.conds, c.env)
                if any(pol and t.endswith('.discard') for t, pol in facts):
                    n_dis += 1
                    v_ = c.sub
                    if not (isinstance(v_, ast.Constant) and v_.value == '') and bad_dis is None:
                        bad_dis = c
        if n_dis or any(isinstance(x, ast.Attribute) and x.attr == 'discard' for x in ast.walk(f)):
            ctx.decide('R12c', bad_dis is None and n_dis > 0, m, bad_dis.node if bad_dis else f,
                       "discard -> '' on every path where the flag is set (%d path(s))" % n_dis,
                       'the discard branch of %s does not return the empty string (it returns %s)'
                       % (fname, short(bad_dis.sub, 50) if bad_dis else 'on no path'),
                       construct=fname + ': discard branch')
    # default of MacroTextSpec.discard
    mts = m.methods('MacroTextSpec').get('__init__')
    if mts is None:
        raise AnalysisError('anchor vanished: MacroTextSpec.__init__')
    st = [s for s in iter_own(mts) if isinstance(s, ast.Assign) and is_self_attr(s.targets[0], 'discard')]
    ok = False
    if len(st) == 1:
        v = st[0].value
        # True if (discard is None) else discard
        ok = isinstance(v, ast.IfExp) and unparse(v.test) in ('discard is None',) and \
            isinstance(v.body, ast.Constant) and v.body.value is True and unparse(v.orelse) == 'discard'
        dflt = mts.args.defaults[-1] if mts.args.defaults else None
        ok = ok and isinstance(dflt, ast.Constant) and dflt.value is None
    relying = [e for e in lt.all_entries if e['kind'] == 'macros' and not e['has_discard']
               and (e['repl'] is None or e['repl'] == '')]
    ctx.decide('R12c', ok, m, st[0] if st else mts,
               'MacroTextSpec discards by default (discard=None -> True); %d default-table entries '
               'rely on it (%s)' % (len(relying), ', '.join(sorted(e['name'] for e in relying)[:8])),
               'MacroTextSpec no longer discards by default (self.discard = %s): the %d table '
               'entries without replacement and without explicit discard (%s) now render their '
               'arguments' % (short(st[0].value) if st else '?', len(relying),
                              ', '.join(sorted(e['name'] for e in relying)[:8])),
               construct='MacroTextSpec.__init__: default of discard')
    # unknown macros are discarded, unknown environments render their body (documented)
    mn = meths['macro_node_to_text']
    dm = [c for c in ast.walk(mn) if isinstance(c, ast.Call) and call_name(c) == 'MacroTextSpec']
    okd = bool(dm) and isinstance(kwarg(dm[0], 'discard'), ast.Constant) and \
        kwarg(dm[0], 'discard').value is True
    ctx.decide('R12c', okd, m, dm[0] if dm else mn, 'unknown macros are discarded',
               'the fallback spec for unknown macros is not MacroTextSpec(\'\', discard=True)',
               construct='macro_node_to_text: unknown macro fallback')
    # ------------------------------------------------------------------ R12g
    # who-may-drop-comments: only comment_node_to_text decides (under keep_comments) what becomes
    # of a comment; a renderer that singles out comment nodes must hand them to it
    n_cm = 0
    for mod_ in (m, repo.mod('pylatexenc.latex2text._defaultspecs')):
        for q_, f_ in sorted(mod_.functions.items()):
            for i_ in [x for x in iter_own(f_) if isinstance(x, ast.If)]:
                if 'LatexCommentNode' not in unparse(i_.test):
                    continue
                n_cm += 1
                routed = any(isinstance(c_, ast.Call) and call_name(c_) in ('comment_node_to_text', 'node_to_text',
                                                                         'nodelist_to_text')
                             for b_ in i_.body for c_ in ast.walk(b_))
                ctx.decide('R12g', routed, mod_, i_, 'comment nodes are routed to comment_node_to_text',
                           '%s singles out comment nodes (%s) without handing them to comment_node_to_text: with '
                           'keep_comments=True the comment is lost from the output of this construct'
                           % (q_, short(i_.test, 60)), construct='%s: %s' % (q_, short(i_.test, 60)))
    if not n_cm:
        raise AnalysisError('no dispatch on LatexCommentNode found in latex2text')

    # ------------------------------------------------------------------ R12f
    from . import c02, c05
    c02.first_tokens_complete(c05._Sub(ctx, 'R12f'), repo, 'R12f')
    # ------------------------------------------------------------------ R12e
    # the spec factories (legacy MacroDef/EnvDef/SpecialsDef, and the spec classes' constructors)
    # use every filter-relevant parameter they accept: a dropped `discard=` leaks the content
    n_live = 0
    for q, f in sorted(m.functions.items()):
        parts = q.split('.')
        is_factory = len(parts) == 1 and not q.startswith('_')
        is_spec_init = len(parts) == 2 and parts[1] == '__init__' and parts[0].endswith('TextSpec')
        if not (is_factory or is_spec_init):
            continue
        params = [a.arg for a in f.args.args + f.args.kwonlyargs if a.arg not in ('self', 'cls')]
        used = {n.id for n in ast.walk(f) if isinstance(n, ast.Name) and isinstance(n.ctx, ast.Load)}
        for p_ in params:
            n_live += 1
            ctx.decide('R12e', p_ in used, m, f, 'parameter %s is used' % p_,
                       '%s accepts the parameter %s but never uses it: a specification declared with '
                       '%s=... (e.g. discard=True through the legacy helper or env_dict=) silently gets the '
                       'default, so content that was to be discarded is rendered' % (q, p_, p_),
                       construct='%s: parameter %s' % (q, p_), trivial=True)
    ctx.analysed['factory_parameters_checked'] = n_live
    ctx.assume('specs supplied by the user (custom latex_context) are outside the cross-table rule')
    # ---- R12h: a comment is recognised wherever the comment character stands
    ctx.rule('R12h', 'the token reader decides what starts at a position from the text at and after that position '
                     'only: a comment character is a comment whatever precedes it (after the line-break macro \\\\ '
                     'the `%` of `\\\\%note` starts a comment)', 1)
    from . import c10 as _c10
    _c10.look_behind_scan(ctx, 'R12h', repo.mod('pylatexenc.latexnodes._tokenreader'),
                          'whether a comment is recognised then depends on the preceding characters -- in '
                          '`\\\\%note` the comment glued to a line-break macro is tokenised as ordinary text and its '
                          'content appears in the output although keep_comments is off')

    # ---- R12i
    ctx.rule('R12i', 'comments skipped in front of a macro argument stay in the returned node tree (keep_comments '
                     'renders every comment)', 1)
    _skipped_comments_kept(ctx, repo)

    # ---- R12j: a converter built by the converter carries over every filter option
    ctx.rule('R12j', 'where LatexNodes2Text builds another converter (for an included file, say) every option that '
                     '__init__ takes from its flags is handed on: no filter (keep_comments, math_mode, ...) is reset to '
                     'its default for part of the document', 0)
    l2t_cls = m.cls('LatexNodes2Text')
    init_ = m.methods('LatexNodes2Text').get('__init__')
    opts = set()
    if init_ is not None:
        for c_ in iter_own(init_):
            if isinstance(c_, ast.Call) and call_name(c_) == 'pop' and call_recv(c_) is not None and \
                    unparse(call_recv(c_)) == (init_.args.kwarg.arg if init_.args.kwarg else 'flags') and c_.args \
                    and isinstance(c_.args[0], ast.Constant):
                st_ = enclosing_stmt(c_)
                if isinstance(st_, ast.Assign) and any(is_self_attr(t_) for t_ in st_.targets):
                    opts.add(c_.args[0].value)
    n_nc = 0
    for q_, f_ in sorted(m.functions.items()):
        if not q_.startswith('LatexNodes2Text.'):
            continue
        for c_ in iter_own(f_):
            if isinstance(c_, ast.Call) and unparse(c_.func) in ('self.__class__', 'LatexNodes2Text', 'type(self)'):
                n_nc += 1
                given = {k.arg for k in c_.keywords}
                missing = sorted(o for o in opts if o not in given and None not in given)
                ctx.decide('R12j', not missing, m, c_, '%s: nested converter receives every option' % q_,
                           '%s builds another converter without handing on %s: for the text converted by it (an \\input '
                           'file) those options fall back to their defaults -- with keep_comments set on the outer '
                           'converter the comments of the included file are dropped' % (q_, missing),
                           construct='%s: nested converter' % q_)
    ctx.holds('R12j', m, None, '%d nested converter construction(s); options taken from flags: %s' % (n_nc, sorted(opts)),
              construct='nested converter scan', trivial=True)
    # ---- R12k (C14 M11): a re-declaration wins
    ctx.rule('R12k', 'extended_with(): a construct re-declared (as discarded, say) in a later extension replaces the earlier '
                     'declaration (C14 M11)', 3)
    from . import c14 as _c14
    cm_ = repo.mod(_c14.MODULE)
    _c14.merge_precedence(ctx, 'R12k', cm_, cm_.methods(_c14.CLASS)['extended_with'])

    # ---- R12l: switches handed on under their own name
    ctx.rule('R12l', 'where a parsing-state field is set from the like-named attribute of another object '
                     '(sub_context(enable_comments=parser.enable_comments)), the two names agree: no switch is driven by '
                     'another switch', 2)
    psm_ = repo.mod('pylatexenc.latexnodes._parsingstate')
    pfields_ = set()
    for st_ in psm_.cls('ParsingState').body:
        if isinstance(st_, ast.Assign) and isinstance(st_.targets[0], ast.Name) and st_.targets[0].id == '_fields' \
                and isinstance(st_.value, (ast.Tuple, ast.List)):
            pfields_ = {e_.value for e_ in st_.value.elts if isinstance(e_, ast.Constant)}
    if not pfields_:
        ctx.unknown('R12l', psm_, None, 'ParsingState._fields not found', construct='field names')
    for mod_ in sorted(repo.modules.values(), key=lambda m_: m_.name):
        if not mod_.name.startswith('pylatexenc.'):
            continue
        for c_ in ast.walk(mod_.tree):
            if isinstance(c_, ast.Call) and call_name(c_) in ('sub_context', 'ParsingState'):
                for k_ in c_.keywords:
                    if k_.arg in pfields_ and isinstance(k_.value, ast.Attribute) and k_.value.attr in pfields_:
                        ctx.decide('R12l', k_.arg == k_.value.attr, mod_, c_, '%s=%s' % (k_.arg, unparse(k_.value)),
                                   'the parsing-state field %s is set from %s, a different switch: with groups disabled and '
                                   'comments left enabled, a %%comment inside such an argument is read as ordinary text and '
                                   'reaches the output' % (k_.arg, unparse(k_.value)),
                                   construct='%s: %s=%s' % (mod_.relpath, k_.arg, unparse(k_.value)))
    # ---- R12m: arguments are passed to the parameters they are named after
    ctx.rule('R12m', 'a positional argument that is a variable named like a parameter of the called function is passed in '
                     'that parameter\'s position (no two options swapped)', 0)
    from .. import grules as _gr
    n_sw = 0
    for mod_ in sorted(repo.modules.values(), key=lambda m_: m_.name):
        if not mod_.name.startswith('pylatexenc.latex2text'):
            continue
        for call_, callee_, i_, j_, nm_ in _gr.swapped_arguments(mod_):
            n_sw += 1
            ctx.refuted('R12m', mod_, call_, '%s passes the variable %s as positional argument %d of %s(), whose parameter %s is '
                        'at position %d: the options are swapped (keep_comments then drops the comments and keep_inline_math '
                        'emits them)' % (short(call_, 60), nm_, i_ + 1, callee_, nm_, j_ + 1),
                        construct='%s: argument %s' % (short(call_, 40), nm_))
    ctx.holds('R12m', m, None, 'no positional argument named like another parameter of its callee', construct='argument order scan',
              trivial=True)

    ini_ = meths.get('__init__')
    # ---- R12s (C14 M2e): an overriding category registered "before" another one is consulted before it
    ctx.rule('R12s', 'a category added with insert_before / insert_after lands on the stated side of the named category: a user '
                     'category with MacroTextSpec(.., discard=True) registered insert_before the defaults takes precedence over '
                     'them -- on the other side the default rendering wins and the construct declared as discarded still '
                     'contributes its text (C14 M2e)', 4)
    from .. import core as _core12
    from . import c14 as _c14b
    _core12.run_proxied(ctx, _c14b, 'R12s', ('M2e',))

    # ---- R12r: rendered argument text is not re-cased
    ctx.rule('R12r', 'no replacement of the default text tables applies a case mapping (upper / lower / title / capitalize / '
                     'swapcase) to text rendered from an argument: a formula inside that argument has then passed the math_mode '
                     'gate (verbatim: its source, with-delimiters: source between delimiters) and is altered afterwards', 0)
    dsm = repo.mod('pylatexenc.latex2text._defaultspecs')
    n_cm = 0
    for c_ in ast.walk(dsm.tree):
        if isinstance(c_, ast.Call) and isinstance(c_.func, ast.Attribute) and c_.func.attr in (
                'upper', 'lower', 'title', 'capitalize', 'swapcase', 'casefold') and not c_.args and any(
                    isinstance(x_, ast.Call) and call_name(x_).endswith('_to_text') for x_ in ast.walk(c_.func.value)):
            n_cm += 1
            # which macro: the first string of the enclosing table entry
            ent = None
            for p_ in parents(c_):
                if isinstance(p_, (ast.Tuple, ast.Call)) and not ent:
                    elts = p_.elts if isinstance(p_, ast.Tuple) else p_.args
                    if elts and isinstance(elts[0], ast.Constant) and isinstance(elts[0].value, str):
                        ent = elts[0].value
            # only where the walker gives the macro the argument that is rendered (otherwise nothing is rendered)
            ks_ = [x_.args[1].value for x_ in ast.walk(c_.func.value) if isinstance(x_, ast.Call)
                   and call_name(x_) == 'node_arg_to_text' and len(x_.args) >= 2 and isinstance(x_.args[1], ast.Constant)]
            wspec_ = tables.WalkerTable(repo).macros.get(ent or '')
            if ks_ and (wspec_ is None or not wspec_['args'] or max(ks_) >= len(wspec_['args'])):
                ctx.holds('R12r', dsm, c_, '\\%s: the walker declares no argument %s, nothing is rendered there' % (ent, ks_),
                          construct='\\%s: .%s() on rendered text' % (ent or '?', c_.func.attr), trivial=True)
                continue
            ctx.refuted('R12r', dsm, c_, 'the replacement of \\%s renders its argument and applies .%s() to the result: a '
                        'formula in the argument is re-cased too -- with math_mode=\'verbatim\' '
                        '`\\%s{Energy $e=mc^2$}` gives `$E=MC^2$`, not the source of the formula'
                        % (ent or '?', c_.func.attr, ent or 'section'), construct='\\%s: .%s() on rendered text' % (ent or '?', c_.func.attr))
    ctx.holds('R12r', dsm, None, '%d case mapping(s) on rendered argument text' % n_cm, construct='case mapping scan', trivial=True)

    # ---- R12q: the legacy dictionaries default to the default dictionaries
    ctx.rule('R12q', 'LatexNodes2Text(macro_dict=.. / env_dict=..): the dictionary that is NOT given is the corresponding default '
                     'dictionary (`flags.pop(name, default_<name>)`): with an empty one instead, the math environments have no '
                     'text specification, are rendered as ordinary text, and math_mode=remove / verbatim / with-delimiters '
                     'no longer apply to them', 2)
    n_ld = 0
    for nm_ in ('macro_dict', 'env_dict'):
        defs_ = [a_ for a_ in ast.walk(ini_) if isinstance(a_, ast.Assign) and len(a_.targets) == 1
                 and isinstance(a_.targets[0], ast.Name) and a_.targets[0].id == nm_]
        for a_ in defs_:
            n_ld += 1
            v_ = a_.value
            okd = isinstance(v_, ast.Call) and call_name(v_) == 'pop' and len(v_.args) == 2 and \
                isinstance(v_.args[0], ast.Constant) and v_.args[0].value == nm_ and \
                isinstance(v_.args[1], ast.Name) and v_.args[1].id == 'default_' + nm_
            ctx.decide('R12q', okd, m, a_, '%s defaults to default_%s' % (nm_, nm_),
                       '%s is taken as %s: when it is not given (or given empty) it does not become default_%s -- with '
                       'macro_dict= alone, equation / align / ... have no latex2text specification and their content is rendered '
                       'as plain text whatever math_mode says' % (nm_, short(v_, 60), nm_), construct='__init__: legacy ' + nm_)
    if n_ld < 2:
        ctx.unknown('R12q', m, ini_, 'definitions of macro_dict / env_dict in __init__ not found', construct='__init__: legacy dicts')

    # ---- R12p: every option is read whatever the other options are
    ctx.rule('R12p', 'LatexNodes2Text.__init__ reads each option (`self.X = flags.pop(NAME, default)`) unconditionally, or in an '
                     'if/else every arm of which assigns self.X: reading keep_comments only in the arm that also reads math_mode '
                     'drops it whenever the obsolete keep_inline_math spelling is used (the module-level latex2text() always '
                     'uses it), and every comment vanishes although keep_comments=True was given', 3)
    n_op = 0
    for st_ in [x_ for x_ in ast.walk(ini_) if isinstance(x_, ast.Assign) and len(x_.targets) == 1
                and is_self_attr(x_.targets[0]) and isinstance(x_.value, ast.Call) and call_name(x_.value) == 'pop'
                and x_.value.args and isinstance(x_.value.args[0], ast.Constant)]:
        n_op += 1
        attr_ = st_.targets[0].attr
        ifs_ = [p_ for p_ in parents(st_) if isinstance(p_, (ast.If, ast.For, ast.While, ast.Try)) and any(
            p_ is q_ for q_ in ast.walk(ini_))]
        okp = True
        why_ = ''
        for p_ in ifs_:
            if not isinstance(p_, ast.If):
                okp, why_ = False, 'inside a loop / try'
                break
            for arm in (p_.body, p_.orelse):
                if not any(isinstance(a_, ast.Assign) and any(is_self_attr(t_, attr_) for t_ in a_.targets)
                           for s2_ in arm for a_ in ast.walk(s2_)) and not any(
                               isinstance(s2_, ast.Raise) for s2_ in arm):
                    okp, why_ = False, 'the %s arm of `if %s` does not set self.%s' % (
                        'if' if arm is p_.body else 'else', short(p_.test, 40), attr_)
        ctx.decide('R12p', okp, m, st_, 'option %r read on every path' % st_.value.args[0].value,
                   'the option %r is read (%s) only on some paths: %s, so there the option the caller gave is silently '
                   'ignored' % (st_.value.args[0].value, short(st_, 60), why_), construct='__init__: option %s' % st_.value.args[0].value)
    if n_op < 3:
        ctx.unknown('R12p', m, ini_, 'only %d option reads found in __init__' % n_op, construct='__init__: options')

    # ---- R12o: content is rendered by the converter, not read off the nodes
    ctx.rule('R12o', 'latex2text turns node content into text through the converter\'s *_to_text methods only: '
                     'get_content_as_chars() skips comment nodes without asking keep_comments (and knows nothing of math_mode or '
                     'discard), so a fast path through it loses the comments inside that content', 0)
    n_gc = 0
    for mod_ in sorted(repo.modules.values(), key=lambda m_: m_.name):
        if not mod_.name.startswith('pylatexenc.latex2text') or mod_.name.endswith('__main__'):
            continue
        for c_ in ast.walk(mod_.tree):
            if isinstance(c_, ast.Call) and call_name(c_) == 'get_content_as_chars':
                n_gc += 1
                fq_ = enclosing_func(c_)
                ctx.refuted('R12o', mod_, c_, '%s takes the text of %s with get_content_as_chars(): comment nodes in it are '
                            'dropped whatever keep_comments says (`\\item[a %% note` + newline + `]` loses the note), and nothing '
                            'in it goes through the math_mode / discard gates'
                            % (getattr(fq_, 'name', '<module>'), short(call_recv(c_), 40) if call_recv(c_) is not None else '?'),
                            construct='%s: get_content_as_chars' % getattr(fq_, 'name', '<module>'))
    ctx.holds('R12o', m, None, 'no get_content_as_chars() in latex2text', construct='content shortcut scan', trivial=True)

    # ---- R12n: what one converter looked up is not what another one uses
    ctx.rule('R12n', 'no class of latex2text keeps a mutable container at class level that its methods fill through self '
                     'without ever re-binding it per instance: a specification remembered per macro name by one converter '
                     '(discard or not, which replacement) is not used by a converter with another context '
                     '(grules.shared_class_containers; exercised on a built-in example on every run)', 0)
    from .. import grules as _gr3
    from ..core import set_parents as _sp3
    ex3 = ast.parse('class K:\n _memo = {}\n def get(self, k):\n  if k not in self._memo:\n   self._memo[k] = self.ctx.look(k)\n  return self._memo[k]\n')
    _sp3(ex3)
    if len(list(_gr3.shared_class_containers(ex3.body[0]))) != 1:
        raise AnalysisError('R12n: the rule no longer fires on its built-in example')
    n_sc = 0
    for mod_ in sorted(repo.modules.values(), key=lambda m_: m_.name):
        if not mod_.name.startswith('pylatexenc.latex2text'):
            continue
        for q_, c_ in sorted(mod_.classes.items()):
            for n_, a_, st_ in _gr3.shared_class_containers(c_):
                n_sc += 1
                ctx.refuted('R12n', mod_, n_, '%s.%s is one container for the whole class (bound in the class body at line %d, '
                            'never re-bound on an instance) and is filled through self at line %d: what one converter stored '
                            '-- the text specification found for a macro in ITS context -- is what every other converter gets, '
                            'so a context that declares the macro discarded is ignored and the content appears'
                            % (q_, a_, st_.lineno, n_.lineno), construct='%s.%s: class-level container' % (q_, a_))
    ctx.holds('R12n', m, None, 'no class-level container of latex2text is filled through self', construct='class-level container scan',
              trivial=True)

    return 'other', (
        'Decides the gates through which comments, formula content and discarded constructs can '
        'reach the output: every return of the three gate functions is classified by the facts '
        'that dominate it, and the default tables are evaluated to check that every math '
        'environment of the walker is routed through the math_mode switch.  The rendered strings '
        'themselves are not computed.')


def _dispatch(ntt):
    """LatexXNode -> method name (shapes.node_dispatch: per returning path, form independent)"""
    from .. import shapes
    return shapes.node_dispatch(ntt)


def _wraps_delims(v):
    """v is a left-nested `delims[0] + X + delims[1]` sum."""
    parts = []

    def flat(e):
        if isinstance(e, ast.BinOp) and isinstance(e.op, ast.Add):
            flat(e.left)
            flat(e.right)
        else:
            parts.append(e)
    flat(v)
    return len(parts) >= 3 and unparse(parts[0]) == 'delims[0]' and unparse(parts[-1]) == 'delims[1]'



def _skipped_comments_kept(ctx, repo):
    """R12i: comment nodes that a parser collects while it looks for an argument (skipped in front
    of the argument) stay in the tree it returns, so that keep_comments can render them"""
    em = repo.mod('pylatexenc.latexnodes.parsers._expression')
    n = 0
    for q, f in sorted(em.functions.items()):
        accs = [st.target.id for st in iter_own(f) if isinstance(st, ast.AugAssign) and isinstance(st.target, ast.Name)
                and any(isinstance(x, ast.Attribute) and x.attr == 'skipped_nodes' for x in ast.walk(st.value))]
        accs += [call_recv(c).id for c in iter_own(f) if isinstance(c, ast.Call) and call_name(c) in ('extend', 'append')
                 and isinstance(call_recv(c), ast.Name) and any(
                     isinstance(x, ast.Attribute) and x.attr == 'skipped_nodes' for a in c.args for x in ast.walk(a))]
        if not accs:
            continue
        acc = accs[0]
        # lists built from the accumulator
        derived = {acc}
        for st in iter_own(f):
            if isinstance(st, ast.Assign) and len(st.targets) == 1 and isinstance(st.targets[0], ast.Name) and any(
                    isinstance(x, ast.Name) and x.id in derived for x in ast.walk(st.value)):
                derived.add(st.targets[0].id)
        picks = [x for x in iter_own(f) if isinstance(x, ast.Subscript) and isinstance(x.ctx, ast.Load)
                 and isinstance(x.value, ast.Name) and x.value.id in derived
                 and not isinstance(x.slice, ast.Slice)]
        n += 1
        ctx.decide('R12i', not picks, em, picks[0] if picks else f,
                   '%s returns the whole list it collected (skipped comments included)' % q,
                   '%s collects the comment nodes it skips in front of an argument (%s += ...skipped_nodes) but '
                   'returns only %s: the comments between a macro and its argument are in no node of the tree, so '
                   'keep_comments=True cannot render them' % (q, acc, short(picks[0], 40) if picks else ''),
                   construct='%s: skipped comments' % q)
    if n == 0:
        ctx.unknown('R12i', em, None, 'no parser collecting skipped comment nodes found', construct='skipped comments')
