# -*- coding: utf-8 -*-
"""C13  Encoded text is inert, strictly parseable LaTeX, ASCII-only when asked.

Table rules over the two built-in maps (every entry, on every run) and shape
rules over the protection / unknown-character policies."""
import ast
from .. import symex
import re
from ..core import (enclosing_func, AnalysisError, short, unparse, iter_own, call_name, call_recv, kwarg,
                    is_self_attr, atomic_facts, parents, enclosing_stmt)
from . import c09, c04

ENC = 'pylatexenc.latexencode._unicode_to_latex_encoder'
MAPS = (('defaults', 'pylatexenc.latexencode._uni2latexmap'),
        ('unicode-xml', 'pylatexenc.latexencode._uni2latexmap_xml'))
ACTIVE = '#$%&\\^_{}~'


def load_map(repo, modname):
    mod = repo.mod(modname)
    node = mod.toplevel_assign('uni2latex')
    if not isinstance(node, ast.Dict):
        raise AnalysisError('%s: uni2latex is not a dict literal' % mod.relpath)
    out = {}
    for k, v in zip(node.keys, node.values):
        try:
            kk = ast.literal_eval(k)
            vv = ast.literal_eval(v)
        except Exception:
            raise AnalysisError('%s: non-literal entry %s' % (mod.relpath, short(k)))
        if kk not in out:
            out[kk] = (vv, v)
        else:
            out[kk] = (vv, v)     # later duplicate key wins in a dict literal
    return mod, out


_TOKEN = re.compile(r'\\[A-Za-z]+|\\.|.', re.S)


def scan(repl):
    """Tokenise a replacement string into control words/symbols and characters and return
    (brace balance ok, unescaped dollars, unescaped percent, begin/end env, raw active chars)."""
    depth = 0
    ok = True
    dollars = 0
    percent = False
    env = False
    raw = []
    for tk in _TOKEN.findall(repl):
        if tk.startswith('\\') and len(tk) > 1:
            if tk in ('\\begin', '\\end'):
                env = True
            continue
        if tk == '{':
            depth += 1
        elif tk == '}':
            depth -= 1
            if depth < 0:
                ok = False
        elif tk == '$':
            dollars += 1
        elif tk == '%':
            percent = True
        elif tk == '\\':
            raw.append(tk)     # lone backslash at the end
        if tk in '#&^_~' and len(tk) == 1:
            raw.append(tk)
    if depth != 0:
        ok = False
    return ok, dollars, percent, env, raw


def _builtin_table_escape(ctx, repo):
    tables_ = ('uni2latex',)
    n = 0
    for mod in sorted(repo.modules.values(), key=lambda m_: m_.name):
        if not mod.name.startswith('pylatexenc.latexencode') or mod.name.endswith(('_uni2latexmap', '_uni2latexmap_xml')):
            continue
        uses_ = []     # (use node, local text, scope)
        followed_ = set()
        for imp in [x for x in ast.walk(mod.tree) if isinstance(x, ast.ImportFrom)]:
            scope = enclosing_func(imp) or mod.tree
            if imp.module and imp.module.endswith(('_uni2latexmap', '_uni2latexmap_xml')):
                for al in imp.names:
                    if al.name in tables_:
                        local = al.asname or al.name
                        uses_ += [(x, local, scope) for x in ast.walk(scope) if isinstance(x, ast.Name)
                                  and x.id == local and isinstance(x.ctx, ast.Load)]
            else:
                # `from . import _uni2latexmap` followed by _uni2latexmap.uni2latex
                for al in imp.names:
                    if al.name in ('_uni2latexmap', '_uni2latexmap_xml'):
                        local = al.asname or al.name
                        uses_ += [(x, unparse(x), scope) for x in ast.walk(scope) if isinstance(x, ast.Attribute)
                                  and x.attr in tables_ and isinstance(x.value, ast.Name) and x.value.id == local
                                  and isinstance(x.ctx, ast.Load)]
        if True:
            if True:
                for use, local, scope in uses_:
                    par = getattr(use, '_parent', None)
                    gp = getattr(par, '_parent', None)
                    verdict = None
                    if isinstance(par, ast.Attribute) and isinstance(gp, ast.Call) and gp.func is par:
                        verdict = par.attr in ('copy', 'get', 'items', 'keys', 'values', '__getitem__', '__contains__')
                        how = '.%s()' % par.attr
                    elif isinstance(par, ast.Call) and use in par.args and call_name(par) in (
                            'dict', '_MappingProxyType', 'MappingProxyType', 'len', 'sorted', 'list', 'iter'):
                        verdict, how = True, call_name(par) + '(...)'
                    elif isinstance(par, ast.keyword) and par.arg in ('rule',):
                        verdict, how = True, 'rule= of a conversion rule (read by the encoder only)'
                    elif isinstance(par, ast.Call) and call_name(par) == 'UnicodeToLatexConversionRule' and \
                            len(par.args) > 1 and par.args[1] is use:
                        verdict, how = True, 'rule argument of a conversion rule (read by the encoder only)'
                    elif isinstance(par, ast.Subscript) and par.value is use and isinstance(par.ctx, ast.Load):
                        verdict, how = True, 'subscript read'
                    elif isinstance(par, (ast.For, ast.comprehension)) or (
                            isinstance(par, ast.Compare) and use in par.comparators):
                        verdict, how = True, 'iteration / membership'
                    elif isinstance(par, ast.Return):
                        verdict, how = False, 'returned as such'
                    elif isinstance(par, ast.Call) and isinstance(par.func, ast.Name) and par.func.id in mod.functions \
                            and use in par.args and '.' not in par.func.id:
                        # handed to a module-level helper: the uses of the parameter it binds to are classified
                        h_ = mod.functions[par.func.id]
                        hp_ = [a_.arg for a_ in h_.args.args]
                        i_ = par.args.index(use)
                        if i_ < len(hp_):
                            more = [(x, hp_[i_], h_) for x in ast.walk(h_) if isinstance(x, ast.Name) and x.id == hp_[i_]
                                    and isinstance(x.ctx, ast.Load)]
                            if (use, local) not in followed_:
                                followed_.add((use, local))
                                uses_.extend(more)
                            verdict, how = True, 'argument of %s() (uses of its parameter %s are classified)' % (
                                par.func.id, hp_[i_])
                        else:
                            verdict, how = None, short(par, 50)
                    elif isinstance(par, ast.Assign) and len(par.targets) == 1 and isinstance(par.targets[0], ast.Name) \
                            and not isinstance(scope, ast.Module) and par.value is use:
                        # a local alias inside a function: every use of the alias is classified instead
                        al_ = par.targets[0].id
                        more = [(x, al_, scope) for x in ast.walk(scope) if isinstance(x, ast.Name) and x.id == al_
                                and isinstance(x.ctx, ast.Load)]
                        if (use, local) not in followed_:
                            followed_.add((use, local))
                            uses_.extend(more)
                        verdict, how = True, 'local alias %s (its uses are classified)' % al_
                    elif isinstance(par, ast.Assign):
                        verdict, how = False, 'stored as such in %s' % short(par.targets[0])
                    elif isinstance(par, ast.Subscript) and isinstance(par.ctx, (ast.Store, ast.Del)):
                        verdict, how = False, 'written'
                    else:
                        verdict, how = None, short(par, 50)
                    n += 1
                    where = getattr(scope, 'name', '<module>')
                    cons = '%s: use of the built-in table %s (%s)' % (where, local, how)
                    if verdict is None:
                        ctx.unknown('R13g', mod, use, 'use of the shared table not classified: %s' % how, construct=cons)
                    else:
                        ctx.decide('R13g', verdict, mod, enclosing_stmt(use) or use, 'table %s: %s' % (local, how),
                                   'the built-in rule table %s is %s from %s: whoever receives it can edit the '
                                   'rules of every encoder in the process (after utf82latex[ord(\'%%\')] = \'%%\' '
                                   'all encoders emit a live comment character)' % (local, how, where),
                                   construct=cons)
    if n < 2:
        raise AnalysisError('built-in table uses: only %d found' % n)


def _inline_module_consts(mod, e):
    """names bound once at module level to a string literal are replaced by the literal"""
    class T(ast.NodeTransformer):
        def visit_Name(self, n):
            if isinstance(n.ctx, ast.Load):
                try:
                    v = mod.toplevel_assign(n.id)
                except AnalysisError:
                    return n
                if isinstance(v, ast.Constant) and isinstance(v.value, str):
                    return ast.Constant(value=v.value)
            return n
    return T().visit(symex.clone(e))


def _abstract_literal(e):
    """the string an expression evaluates to, with hexadecimal renderings of a code point
    (HexstrN(..), hex(..), format(.., 'X'), '%X' % ..) abstracted to the digit '0'; None when the
    expression is not a literal template (e.g. it contains the character itself)"""
    import string
    if isinstance(e, ast.Constant) and isinstance(e.value, str):
        return e.value
    if isinstance(e, ast.BinOp) and isinstance(e.op, ast.Add):
        a, b = _abstract_literal(e.left), _abstract_literal(e.right)
        return None if a is None or b is None else a + b
    if isinstance(e, ast.Call) and call_name(e) in ('HexstrN', 'hex'):
        return '0'
    if isinstance(e, ast.Call) and isinstance(e.func, ast.Name) and e.func.id == 'format' and len(e.args) == 2 \
            and isinstance(e.args[1], ast.Constant) and str(e.args[1].value)[-1:] in 'xX':
        return '0'
    if isinstance(e, ast.Call) and call_name(e) == 'format' and isinstance(call_recv(e), ast.Constant) \
            and isinstance(call_recv(e).value, str):
        args = [_abstract_literal(a) for a in e.args]
        kws = dict((k.arg, _abstract_literal(k.value)) for k in e.keywords if k.arg)
        out, auto = '', 0
        try:
            for lit_, field, spec, conv in string.Formatter().parse(call_recv(e).value):
                out += lit_
                if field is None:
                    continue
                if spec and spec[-1:] in 'xX':
                    out += '0'
                    if field == '':
                        auto += 1
                    continue
                if field == '':
                    v = args[auto] if auto < len(args) else None
                    auto += 1
                elif field.isdigit():
                    v = args[int(field)] if int(field) < len(args) else None
                else:
                    v = kws.get(field)
                if v is None:
                    return None
                out += v
        except ValueError:
            return None
        return out
    if isinstance(e, ast.BinOp) and isinstance(e.op, ast.Mod) and isinstance(e.left, ast.Constant) \
            and isinstance(e.left.value, str):
        vals = list(e.right.elts) if isinstance(e.right, ast.Tuple) else [e.right]
        out, i, k = '', 0, 0
        t = e.left.value
        while i < len(t):
            if t[i] != '%':
                out += t[i]
                i += 1
                continue
            mm = re.match(r'%(%|[-0-9.]*[sdxX])', t[i:])
            if not mm:
                return None
            if mm.group(1) == '%':
                out += '%'
            else:
                if k >= len(vals):
                    return None
                if mm.group(1)[-1] in 'xXd':
                    out += '0'
                else:
                    v = _abstract_literal(vals[k])
                    if v is None:
                        return None
                    out += v
                k += 1
            i += len(mm.group(0))
        return out
    if isinstance(e, ast.JoinedStr):
        out = ''
        for v in e.values:
            if isinstance(v, ast.Constant):
                out += str(v.value)
            elif isinstance(v, ast.FormattedValue):
                if v.format_spec is not None and unparse(v.format_spec).rstrip("'\"")[-1:] in 'xX':
                    out += '0'
                    continue
                a = _abstract_literal(v.value)
                if a is None:
                    return None
                out += a
        return out
    return None


def run(ctx):
    repo = ctx.repo
    m = repo.mod(ENC)
    meths = m.methods('UnicodeToLatexEncoder')
    ctx.rule('R13a', 'each built-in table maps every LaTeX-active ASCII character it could copy '
                     'through (# $ % & \\ ^ _ { } ~) to a replacement that does not contain the raw '
                     'character outside a control symbol', 10)
    ctx.rule('R13b', 'every replacement of both built-in tables is brace-balanced, has an even '
                     'number of unescaped $, no unescaped %, no \\begin/\\end, and is pure ASCII', 3000)
    ctx.rule('R13o', 'no replacement of the built-in tables ends with a macro that takes a mandatory argument (by the default '
                     'walker specifications) without giving it one: such a replacement does not parse in strict mode on its own', 1)
    ctx.rule('R13c', 'each protection method returns its argument unchanged, wrapped in one brace '
                     'pair, or followed by {}', 5)
    ctx.rule('R13d', 'the replace / ignore / unihex policies return ASCII, brace-balanced literals '
                     '(plus hex digits); fail raises ValueError unconditionally', 4)
    ctx.rule('R13e', 'the unknown-character arm appends exactly the policy result; printable-ASCII '
                     'pass-through range is 32..127 + \\n\\r\\t; non_ascii_only skips only code '
                     'points below 128', 3)
    ctx.rule('R13i', 'every character of the input reaches the encoding loop: the loop runs over the NFC form of '
                     'the whole input, nothing is cut off before (a dropped character escapes the unknown-'
                     'character policy, e.g. `fail` does not raise for it)', 1)
    ctx.rule('R13h', 'no call in the encoder package can raise for part of the input alphabet '
                     '(unicodedata.name(c) without default raises ValueError for unnamed code points)', 1)
    ctx.rule('R13g', 'the process-wide built-in rule tables are handed out only copied or wrapped '
                     'read-only (.copy(), dict(), MappingProxyType) or passed to a rule object: never '
                     'returned, stored or exposed as such (a documented legacy customisation of '
                     'latexencode.utf82latex would otherwise edit the rules of every encoder)', 2)
    ctx.rule('R13f', 'the module-level helper caches encoders under a key that covers every option '
                     '(a call with non_ascii_only=True must not poison later default calls)', 1)

    n_entries = 0
    for label, modname in MAPS:
        mod, tab = load_map(repo, modname)
        n_entries += len(tab)
        for ch in ACTIVE:
            e = tab.get(ord(ch))
            if e is None:
                # the character is copied through by the pass-through arm
                ctx.refuted('R13a', mod, mod.toplevel_assign('uni2latex'),
                            'table %r has no rule for the LaTeX-active character %r: it is copied '
                            'raw into the output' % (label, ch),
                            construct='%s: active char %r' % (label, ch))
                continue
            repl, node = e
            ok, dollars, percent, env, raw = scan(repl)
            bad = (ch in raw) or (ch == '$' and dollars) or (ch == '%' and percent) or \
                (ch in '{}' and not ok) or (ch == '\\' and '\\' in raw)
            # a raw ~ is an active character too (tie); {, } balanced inside the replacement are fine
            ctx.decide('R13a', not bad and ok, mod, node,
                       '%r -> %r (neutralised)' % (ch, repl),
                       'table %r maps the active character %r to %r, which still contains it raw: '
                       'the input character can open a comment/group/math shift in the output'
                       % (label, ch, repl), construct='%s: active char %r' % (label, ch))
        for cp, (repl, node) in sorted(tab.items()):
            ok, dollars, percent, env, raw = scan(repl)
            ascii_ok = all(ord(c) < 128 for c in repl)
            good = ok and dollars % 2 == 0 and not percent and not env and ascii_ok and '\\' not in raw
            if good:
                ctx.holds('R13b', mod, node, 'inert', construct='%s: U+%04X' % (label, cp), trivial=(len(repl) <= 1))
            else:
                why = []
                if not ok:
                    why.append('unbalanced braces')
                if dollars % 2:
                    why.append('odd number of unescaped $')
                if percent:
                    why.append('unescaped %')
                if env:
                    why.append('\\begin/\\end')
                if not ascii_ok:
                    why.append('non-ASCII output')
                if '\\' in raw:
                    why.append('dangling backslash')
                ctx.refuted('R13b', mod, node, 'replacement %r for U+%04X is not inert LaTeX: %s'
                            % (repl, cp, ', '.join(why)), construct='%s: U+%04X' % (label, cp))
    ctx.analysed['table_entries'] = n_entries

    # ------------------------------------------------------------ R13o
    # a replacement whose last macro takes a mandatory argument (by the default walker specifications) and has
    # nothing after it but closing braces: the encoded character, alone or protected by braces, is `\'` / `{\'}`,
    # which the strict parser rejects (missing argument)
    from .. import tables as _tables
    wt_ = _tables.WalkerTable(repo)
    n_dm = 0
    for label, modname in MAPS:
        mod, tab = load_map(repo, modname)
        for cp, (repl, node) in sorted(tab.items()):
            toks = _TOKEN.findall(repl)
            i = len(toks) - 1
            while i >= 0 and (toks[i] == '}' or toks[i].isspace()):
                i -= 1
            if i < 0 or not toks[i].startswith('\\') or len(toks[i]) < 2:
                continue
            n_dm += 1
            w_ = wt_.macros.get(toks[i][1:])
            if not w_:
                continue
            needs = bool(w_['args']) and w_['args'][0][0] == '{'
            if needs:
                ctx.refuted('R13o', mod, node, 'the replacement %r for U+%04X (rule set %s) ends with %s, which takes a mandatory '
                            'argument in the default parser specifications, and gives it none: the encoding of that character '
                            'alone (%r, or {%s} under the brace schemes) does not parse in strict mode, and in running text the '
                            'macro swallows the NEXT character' % (repl, cp, label, toks[i], repl, repl),
                            construct='%s: U+%04X ends with %s' % (label, cp, toks[i]))
    ctx.analysed['replacements_ending_in_a_macro'] = n_dm
    if n_dm < 300:
        raise AnalysisError('R13o: only %d replacements end with a macro' % n_dm)
    ctx.holds('R13o', repo.mod(MAPS[0][1]), None, '%d replacements end with a macro; those that are not reported end with one '
              'that takes no mandatory argument in the default walker tables (%d macros known there)'
              % (n_dm, len(wt_.macros)), construct='trailing macro scan')

    # ------------------------------------------------------------ R13c
    for name, f in sorted(meths.items()):
        if not name.startswith('_apply_protection_'):
            continue
        p = f.args.args[1].arg
        bad = []
        # per returning path, locals substituted and conditional expressions split into their arms
        try:
            rvals = [c_.sub for c_ in symex.Walker(want_returns=True).run(f) if c_.kind == 'return']
        except symex.TooManyPaths:
            rvals = [x.value for x in iter_own(f) if isinstance(x, ast.Return)]
        arms = []
        for v_ in rvals:
            arms.extend(e_ for _cs, e_ in symex._split_ifexp(v_)) if v_ is not None else arms.append(ast.Constant(value=None))
        for v_ in arms:
            t = unparse(v_).replace(' ', '').replace('"', "'")
            while t.startswith('(') and t.endswith(')'):
                t = t[1:-1]
            if t not in (p, "'{'+%s+'}'" % p, "%s+'{}'" % p):
                bad.append(short(v_))
        ctx.decide('R13c', not bad, m, f, 'returns repl, {repl} or repl{}',
                   '%s returns %s: the protection can unbalance or alter the replacement'
                   % (name, bad), construct=name)
    # ------------------------------------------------------------ R13d
    for pol in ('replace', 'ignore', 'unihex'):
        f = meths.get('_do_unknown_char_' + pol)
        if f is None:
            ctx.refuted('R13d', m, m.cls('UnicodeToLatexEncoder'), 'policy %s missing' % pol,
                        construct='policy ' + pol)
            continue
        # returned expressions with the locals substituted (a hex rendering held in a local)
        try:
            rets = [ast.Return(value=c.sub) for c in symex.Walker(
                want_returns=True, pure=('HexstrN', 'hex', 'format', 'ord')).run(f) if c.kind == 'return']
        except symex.TooManyPaths:
            rets = []
        ok = bool(rets)
        lit = ''
        for r in rets:
            al = _abstract_literal(_inline_module_consts(m, r.value))
            if al is None:
                ok = False
            else:
                lit += al
        sc = scan(lit)
        ok = ok and sc[0] and sc[1] % 2 == 0 and not sc[2] and not sc[3] and \
            all(ord(c) < 128 for c in lit)
        ctx.decide('R13d', ok, m, f, 'returns the ASCII, balanced literal %r' % lit,
                   'policy %r returns %s: not a pure-ASCII balanced literal (the raw character or '
                   'an unbalanced fragment reaches the output)' % (pol, [short(r.value) for r in rets]),
                   construct='policy ' + pol)
    ff = meths.get('_do_unknown_char_fail')
    ok = False
    if ff is not None:
        # every way out of the method is `raise ValueError(...)` (message built in locals or inline)
        try:
            exits = symex.Walker(want_exits=True).run(ff)
        except symex.TooManyPaths:
            exits = []
        ok = bool(exits) and all(
            c.kind == 'raise' and isinstance(c.node.exc, ast.Call) and unparse(c.node.exc.func) == 'ValueError'
            for c in exits)
    ctx.decide('R13d', ok, m, ff or m.cls('UnicodeToLatexEncoder'), 'fail raises ValueError',
               '_do_unknown_char_fail does not unconditionally raise ValueError', construct='policy fail')

    # ------------------------------------------------------------ R13e (shares C04's analysis)
    sub = c09._SubCtx(ctx, 'R13e')
    _fallback_only(sub, repo, m, meths)
    csa = meths.get('_check_do_skip_ascii')
    if csa is not None:
        from .c04 import skip_ascii_summary
        why, desc = skip_ascii_summary(csa)
        ctx.decide('R13e', why is None, m, csa, 'only code points below 128 are skipped: ' + desc,
                   'non_ascii_only: %s' % why, construct='_check_do_skip_ascii bound')
    # ------------------------------------------------------------ R13f
    c09._module_state(ctx, repo, 'R13f', lambda name: name.startswith('pylatexenc.latexencode'))
    # ------------------------------------------------------------ R13i (shared with C04 R04f)
    from . import c04 as _c04
    _c04.nfc_whole_input(ctx, 'R13i', m, meths['unicode_to_latex'])
    # ------------------------------------------------------------ R13g
    _builtin_table_escape(ctx, repo)
    # ------------------------------------------------------------ R13h
    from .. import grules
    n_fn = 0
    for mod in repo.modules.values():
        if not mod.name.startswith('pylatexenc.latexencode') or mod.name.endswith('__main__'):
            continue
        for q, f in mod.functions.items():
            n_fn += 1
            for x, exc in grules.partial_calls(f):
                ctx.refuted('R13h', mod, enclosing_stmt(x) or x,
                            '%s raises %s for every character without a Unicode name (C0/C1 controls, '
                            'private use, unassigned): with it on the unknown-character path the '
                            'keep/replace/ignore/unihex policies raise instead of returning ASCII text, '
                            'and the error is indistinguishable from the fail policy\'s'
                            % (unparse(x), exc), construct='%s: %s' % (q, unparse(x)))
    ctx.holds('R13h', repo.mod(ENC), None, 'no partial standard-library call in the %d functions of the '
              'encoder package' % n_fn, construct='partial-call scan', trivial=True)
    ctx.assume('a strict parse of arbitrary concatenations of replacements and copied input is not '
               'decided; the ten active characters are the ones named in the property')
    # ---- R13k
    ctx.rule('R13k', 'the built-in rule sets hand the checked tables to the encoder unchanged (table, copy or '
                     'read-only view)', 2)
    _table_passthrough(ctx, repo)

    # ---- R13r (C04 R04o): no return of unicode_to_latex bypasses the per-character loop
    ctx.rule('R13r', 'every return of unicode_to_latex hands back the output accumulated by the per-character loop: a shortcut '
                     'return (str.translate with a merged table, a cached string) never consults unknown_char_policy, so '
                     '\'fail\' does not raise and non-ASCII characters are emitted under non-ASCII-free settings (C04 R04o)', 1)
    from .. import core as _core13
    _core13.run_proxied(ctx, c04, 'R13r', ('R04o',))

    # ---- R13q: the legacy helper fails when asked to, whatever else is asked
    ctx.rule('R13q', 'utf8tolatex(): in the branch for a character without a rule, everything that adds to the result (the '
                     'substitute, the raw character) happens only where `fail_bad_chars` is known to be false: with '
                     'fail_bad_chars=True a ValueError is raised whatever substitute_bad_chars says', 1)
    lem = repo.mod('pylatexenc.latexencode')
    u8 = lem.functions.get('utf8tolatex')
    if u8 is None:
        ctx.unknown('R13q', lem, None, 'utf8tolatex not found', construct='utf8tolatex: fail_bad_chars')
    else:
        raises_ = [r_ for r_ in ast.walk(u8) if isinstance(r_, ast.Raise) and isinstance(r_.exc, ast.Call)
                   and call_name(r_.exc) == 'ValueError']
        n_q = 0
        for r_ in raises_:
            # the innermost `else:` / block that holds the raise and the alternatives to it
            top = None
            for p_ in parents(r_):
                if isinstance(p_, ast.If) and '_bad_chars' in unparse(p_.test):
                    top = p_
            if top is None:
                continue
            holder = getattr(top, '_parent', None)
            blk = None
            for fld_ in ('body', 'orelse', 'finalbody'):
                lst_ = getattr(holder, fld_, None)
                if isinstance(lst_, list) and any(x_ is top for x_ in lst_):
                    blk = lst_
            if blk is None:
                continue
            for st_ in blk:
                for a_ in ast.walk(st_):
                    if isinstance(a_, ast.AugAssign) and isinstance(a_.target, ast.Name) and a_.target.id == 'result':
                        n_q += 1
                        atoms = {(unparse(x_), xp_) for t_, p2_ in atomic_facts(a_) for x_, xp_ in symex._atoms(t_, p2_)}
                        okq = ('fail_bad_chars', False) in atoms or ('not fail_bad_chars', True) in atoms
                        ctx.decide('R13q', okq, lem, a_, '%s only where fail_bad_chars is false' % short(a_, 40),
                                   'utf8tolatex adds %s for a character without a rule on a path where fail_bad_chars may be '
                                   'true (facts: %s): with fail_bad_chars=True and substitute_bad_chars=True no ValueError is '
                                   'raised' % (short(a_.value, 30), sorted(t_ for t_, p2_ in atoms if p2_)[-2:]),
                                   construct='utf8tolatex: %s' % short(a_, 40))
        if not n_q:
            ctx.unknown('R13q', lem, u8, 'unknown-character branch of utf8tolatex not found', construct='utf8tolatex: fail_bad_chars')

    # ---- R13p: "this rule matched" is reported as True, not as the replacement
    ctx.rule('R13p', 'each _apply_rule_* method returns the constant True on every path on which it applied a replacement: the '
                     'main loop tests the result by truthiness, and a replacement may be empty (U+2061) -- returning the '
                     'replacement itself would let the pass-through arm copy the NEXT character raw, active characters included', 3)
    n_ar = 0
    for name, f in sorted(meths.items()):
        if not name.startswith('_apply_rule_'):
            continue
        try:
            acs = [c_ for c_ in symex.Walker(is_sink=lambda c_: call_name(c_) == '_apply_replacement', want_returns=True,
                                             trace=True).run(f) if c_.kind == 'return']
        except symex.TooManyPaths as e:
            ctx.unknown('R13p', m, f, str(e), construct=name + ': result')
            continue
        bad = None
        n_app = 0
        for cs in acs:
            applied = any(call_name(sub_) == '_apply_replacement' for _n, sub_ in cs.env.get('#trace', ()))
            if not applied:
                continue
            n_app += 1
            if not (isinstance(cs.sub, ast.Constant) and cs.sub.value is True) and bad is None:
                bad = cs
        n_ar += 1
        ctx.decide('R13p', bad is None and n_app > 0, m, bad.node if bad else f,
                   '%s: True after every applied replacement (%d path(s))' % (name, n_app),
                   '%s returns %s after applying a replacement: when that value is falsy (the empty replacement of U+2061) the '
                   'main loop believes no rule matched, although the position has already advanced, and copies the following '
                   'character through unencoded (`f\\u2061%% x` yields a raw %%)' % (name, short(bad.sub, 30) if bad else ''),
                   construct=name + ': result')
    if n_ar < 3:
        ctx.unknown('R13p', m, None, 'only %d _apply_rule_* methods found' % n_ar, construct='_apply_rule_*: result')

    # ---- R13n: the input is read at the current position only, or in range
    ctx.rule('R13n', 'the encoder reads its input string only at the current position (kept below len(s) by the main loop) '
                     'or at an index for which an in-range fact holds at that place: a look-ahead s[pos+k] at the end of '
                     'the input raises IndexError, which is neither output nor the ValueError of the fail policy', 2)
    _input_indexing(ctx, repo)

    # ---- R13m: an empty replacement is a replacement
    ctx.rule('R13m', 'the result of looking a character up in an encoder table that holds an empty replacement (U+2061) is '
                     'compared with None, never tested by truthiness', 1)
    from . import gcommon as _gc
    has_empty = any(v_[0] == '' for v_ in load_map(repo, MAPS[0][1])[1].values())
    n_tl = 0
    for mod_ in sorted(repo.modules.values(), key=lambda m_: m_.name):
        if not mod_.name.startswith('pylatexenc.latexencode'):
            continue
        for q_, f_ in sorted(mod_.functions.items()):
            looked = {}
            for st_ in iter_own(f_):
                if isinstance(st_, ast.Assign) and len(st_.targets) == 1 and isinstance(st_.targets[0], ast.Name):
                    v_ = st_.value
                    src_ = None
                    if isinstance(v_, ast.Call) and call_name(v_) == 'get' and call_recv(v_) is not None:
                        src_ = unparse(call_recv(v_))
                    elif isinstance(v_, ast.Subscript):
                        src_ = unparse(v_.value)
                    if src_ and any(w_ in src_ for w_ in ('utf82latex', 'uni2latex', 'ruledict')):
                        looked[st_.targets[0].id] = src_
            if not looked:
                continue
            for t_, where_ in _gc.truthiness_tests(f_):
                x_ = t_.operand if isinstance(t_, ast.UnaryOp) and isinstance(t_.op, ast.Not) else t_
                if isinstance(x_, ast.Name) and x_.id in looked:
                    n_tl += 1
                    ctx.decide('R13m', not has_empty, mod_, where_, 'table has no empty replacement',
                               '%s tests %s (looked up in %s) by truthiness: the table maps U+2061 to the empty string, so '
                               'that character is treated as having no rule -- `fail` raises although a rule exists and '
                               '`replace` emits the placeholder' % (q_, x_.id, looked[x_.id]),
                               construct='%s: truthiness of %s' % (q_, x_.id))
    ctx.holds('R13m', m, None, '%d truthiness test(s) of a table lookup result' % n_tl, construct='table lookup truthiness scan',
              trivial=True)

    # ---- R13l (C04 R04l): protection of replacements that end with a control word
    ctx.rule('R13l', 'the brace-protection schemes protect exactly the replacement texts that end with a control word '
                     '(evaluated on probe texts): an unprotected one-letter macro fuses with the following letters into '
                     'another macro, which does not parse or swallows the input\'s own characters (C04 R04l)', 2)
    from . import c08 as _c08x
    pa_, pb_ = meths.get('_apply_protection_braces'), meths.get('_apply_protection_braces_after_macro')
    if pa_ is None or pb_ is None:
        raise AnalysisError('anchor vanished: _apply_protection_braces(_after_macro)')
    _c08x.protection_probes(ctx, 'R13l', m, pa_, pb_)

    return 'other', (
        'Evaluates both built-in tables entry by entry (%d entries) against the inertness '
        'conditions, and decides the shape of the protection and unknown-character policies and of '
        'the fallback arm.  These are necessary conditions for the output to be inert; that every '
        'concatenation of replacements parses in strict mode is not decided.' % n_entries)


class _NoRule(object):
    def __init__(self, ctx):
        self.ctx = ctx

    def __call__(self, *a, **k):
        return None


def _fallback_only(sub, repo, m, meths):
    """Run C04's fallback-arm checks (R04b part iv) under our rule id."""
    class Proxy(object):
        def __init__(self, sub):
            self.sub = sub
            self.repo = sub.ctx.repo
            self.analysed = sub.ctx.analysed

        def rule(self, *a, **k):
            return None

        def decide(self, rule, cond, mod, node, ok, bad, **kw):
            if kw.get('construct', '').startswith('fallback'):
                return self.sub.decide(rule, cond, mod, node, ok, bad, **kw)

        def holds(self, *a, **k):
            return None

        def refuted(self, *a, **k):
            return None

        def unknown(self, *a, **k):
            return None

        def assume(self, *a):
            return None
    px = Proxy(sub)
    # C04's R04g call would register obligations under its own id through _module_state;
    # neutralise it for this proxy run
    saved = c09._module_state
    c09._module_state = lambda *a, **k: None
    try:
        c04.rules(px, repo, m, meths)
    finally:
        c09._module_state = saved



def _table_passthrough(ctx, repo):
    """R13k: the rule sets named 'defaults' and 'unicode-xml' hand the checked tables to the
    encoder unchanged (the table, a copy or a read-only view of it), so what R13a/R13b decide
    about the table entries holds for the replacements the encoder emits"""
    gm = repo.mod('pylatexenc.latexencode.get_builtin_rules')
    fn = gm.functions.get('get_builtin_conversion_rules')
    if fn is None:
        raise AnalysisError('anchor vanished: get_builtin_conversion_rules')
    VIEW = ('dict', '_MappingProxyType', 'MappingProxyType', 'copy')

    def is_table(e, depth=0):
        """e is a built-in table, a view/copy of one, or a module-level getter returning one"""
        if depth > 3:
            return False
        if isinstance(e, ast.Call) and call_name(e) in VIEW:
            inner = e.args[0] if e.args else call_recv(e)
            return inner is not None and is_table(inner, depth + 1)
        if isinstance(e, ast.Attribute) and e.attr == 'uni2latex':
            return True
        if isinstance(e, ast.Name) and e.id.lstrip('_') == 'uni2latex':
            return True
        if isinstance(e, ast.Call) and isinstance(e.func, ast.Name) and e.func.id in gm.functions and not e.args:
            g = gm.functions[e.func.id]
            try:
                rc = [c for c in symex.Walker(want_returns=True, pure=VIEW).run(g) if c.kind == 'return']
            except symex.TooManyPaths:
                return False
            return bool(rc) and all(is_table(c.sub, depth + 1) for c in rc)
        return False
    try:
        cases = symex.Walker(is_sink=lambda c: call_name(c) == 'UnicodeToLatexConversionRule', pure=VIEW).run(fn)
    except symex.TooManyPaths as e:
        ctx.unknown('R13k', gm, fn, str(e), construct='built-in rule sets')
        return
    # a copy of a table that is edited before it is handed on is no longer the checked table
    copies = {}
    for st in iter_own(fn):
        if isinstance(st, ast.Assign) and len(st.targets) == 1 and isinstance(st.targets[0], ast.Name) and \
                is_table(st.value):
            copies[st.targets[0].id] = st
    edits = []
    for x in ast.walk(fn):
        if isinstance(x, ast.Subscript) and isinstance(x.ctx, (ast.Store, ast.Del)) and isinstance(x.value, ast.Name) \
                and x.value.id in copies:
            edits.append((x.value.id, x))
        if isinstance(x, ast.Call) and call_name(x) in ('update', 'setdefault', 'pop', 'popitem', 'clear', '__setitem__') \
                and isinstance(call_recv(x), ast.Name) and call_recv(x).id in copies:
            edits.append((call_recv(x).id, x))
    for nm_, x in edits:
        ctx.refuted('R13k', gm, enclosing_stmt(x) or x, 'the copy %s of a built-in table is edited (%s) before it is handed '
                    'to the rule: the added or changed entries were not checked -- a replacement text that is a raw '
                    'LaTeX-active character (%% { $ # \\) reaches the output' % (nm_, short(enclosing_stmt(x) or x, 60)),
                    construct='get_builtin_conversion_rules: edit of ' + nm_)
    # constructions inside module-level helpers called from here: analysed per call site with the
    # helper's parameters replaced by the arguments
    class _C(object):
        pass
    extra = []
    try:
        hcalls = symex.Walker(is_sink=lambda c: isinstance(c.func, ast.Name) and c.func.id in gm.functions
                              and c.func.id != fn.name and any(
                                  isinstance(x, ast.Call) and call_name(x) == 'UnicodeToLatexConversionRule'
                                  for x in ast.walk(gm.functions[c.func.id])), pure=VIEW).run(fn)
    except symex.TooManyPaths:
        hcalls = []
    for hc in hcalls:
        h_ = gm.functions[hc.sub.func.id]
        ren = dict(zip([a_.arg for a_ in h_.args.args], hc.sub.args))
        try:
            inner = symex.Walker(is_sink=lambda c: call_name(c) == 'UnicodeToLatexConversionRule', pure=VIEW).run(h_)
        except symex.TooManyPaths:
            inner = []
        for ic in inner:
            o = _C()
            o.sub = symex.subst(ic.sub, ren)
            o.env = hc.env
            o.node = hc.node
            o.conds = hc.conds
            o.cond_src = hc.cond_src
            extra.append(o)
    cases = list(cases) + extra
    n = 0
    for cs in cases:
        rt = kwarg(cs.sub, 'rule_type') or (cs.sub.args[0] if cs.sub.args else None)
        if rt is None or unparse(rt) != 'RULE_DICT':
            ctx.refuted('R13k', gm, cs.node, 'rule set [%s] contains a rule of type %s (%s): what it emits is not an entry of the '
                        'checked tables -- a callable or regular-expression rule can copy characters of the input into the '
                        'output (a non-ASCII base letter in front of a combining accent), so the output is no longer ASCII / '
                        'inert by construction, and the fail policy no longer sees those characters'
                        % (' & '.join(cs.cond_src())[:60], unparse(rt) if rt is not None else '?', short(cs.sub, 70)),
                        construct='get_builtin_conversion_rules: non-table rule ' + (unparse(rt) if rt is not None else '?'))
            continue
        n += 1
        r = kwarg(cs.sub, 'rule') or (cs.sub.args[1] if len(cs.sub.args) > 1 else None)
        # a local that holds the result of a getter call: its defining call
        r = symex.resolve(r, cs.env) if r is not None else None
        ctx.decide('R13k', r is not None and is_table(r), gm, cs.node,
                   'rule set [%s]: the dictionary rule is the built-in table itself (or a view/copy): %s'
                   % (' & '.join(cs.cond_src())[:60], short(r, 60) if r is not None else '?'),
                   'rule set [%s]: the dictionary rule is %s, a mapping computed from the built-in table, not the '
                   'table whose entries were checked: rewritten replacement texts (an accent macro stripped of its '
                   'empty argument `{}`) reach the output unchecked and no longer parse'
                   % (' & '.join(cs.cond_src())[:60], short(r, 90) if r is not None else '?'),
                   construct='get_builtin_conversion_rules: ' + ' & '.join(cs.cond_src())[:60])
    if n < 2:
        ctx.unknown('R13k', gm, fn, 'fewer than two dictionary rule sets found (%d)' % n, construct='built-in rule sets')


def _input_indexing(ctx, repo):
    from ..grules import short_circuit_facts
    from .. import symex as _sx
    em = repo.mod('pylatexenc.latexencode._unicode_to_latex_encoder')
    n = 0
    for q, f in sorted(em.functions.items()):
        if not q.startswith('UnicodeToLatexEncoder.'):
            continue
        params = [a.arg for a in f.args.args]
        if 's' not in params:
            continue
        for x in ast.walk(f):
            if not (isinstance(x, ast.Subscript) and isinstance(x.value, ast.Name) and x.value.id == 's'
                    and isinstance(x.ctx, ast.Load)):
                continue
            if isinstance(x.slice, ast.Slice):
                continue        # slicing never raises
            n += 1
            idx = x.slice
            itxt = unparse(idx)
            cons = '%s: s[%s]' % (q, itxt)
            if itxt in ('p.pos', 'pos'):
                ctx.holds('R13n', em, x, 'read at the current position', construct=cons)
                continue
            facts = set()
            for t, pol in list(atomic_facts(x)) + list(short_circuit_facts(x)):
                for a, ap in _sx._atoms(t, pol):
                    facts.add((unparse(a), ap))
            k = None
            base = None
            if isinstance(idx, ast.BinOp) and isinstance(idx.op, (ast.Add, ast.Sub)) and isinstance(idx.right, ast.Constant) \
                    and isinstance(idx.right.value, int):
                base, k = unparse(idx.left), (idx.right.value if isinstance(idx.op, ast.Add) else -idx.right.value)
            if k is None:
                ctx.unknown('R13n', em, x, 'index form not understood: s[%s]' % itxt, construct=cons)
                continue
            if k > 0:
                want = [('%s < len(s)' % itxt, True), ('len(s) > %s' % itxt, True), ('%s >= len(s)' % itxt, False),
                        ('len(s) <= %s' % itxt, False), ('%s < len(s) - %d' % (base, k), True),
                        ('%s + %d <= len(s)' % (base, k + 1), True), ('len(s) >= %s + %d' % (base, k + 1), True),
                        ('len(s) - %s > %d' % (base, k), True), ('len(s) - %s >= %d' % (base, k + 1), True)]
                ok = any(w in facts for w in want)
                ctx.decide('R13n', ok, em, x, 'look-ahead under an in-range test',
                           '%s reads s[%s] without a test that %s < len(s) (facts here: %s): when the character at the current '
                           'position is the last one of the input the encoder raises IndexError -- under every '
                           'unknown-character policy, also \'fail\', which promises ValueError'
                           % (q, itxt, itxt, sorted(t for t, p_ in facts if p_)[:4]), construct=cons)
            else:
                want = [('%s >= %d' % (base, -k), True), ('%s > %d' % (base, -k - 1), True), ('%s < %d' % (base, -k), False)]
                if k == -1:
                    want += [('%s > 0' % base, True), (base, True)]
                ok = any(w in facts for w in want)
                ctx.decide('R13n', ok, em, x, 'look-behind under an in-range test',
                           '%s reads s[%s] without a test that %s >= %d: at the start of the input a negative index reads '
                           'the *end* of the string' % (q, itxt, base, -k), construct=cons)
    if n < 2:
        raise AnalysisError('R13n: only %d reads of the input string found in the encoder' % n)
