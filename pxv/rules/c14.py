# -*- coding: utf-8 -*-
"""C14  Context database lookups follow category order under every build history.

Premises M1..M6 (DESIGN.md section 5, C14).  Together with the semantics of
collections.ChainMap (trusted) they imply the property by induction over the
history of mutator/derivation calls, see `EXPLANATION`."""

import ast
import re
from .. import symex
from ..core import (AnalysisError, short, unparse, iter_own, call_name, call_recv, kwarg,
                    is_self_attr, attr_chain, atomic_facts, always_exits, parents,
                    enclosing_stmt)

MODULE = 'pylatexenc.macrospec._latexcontextdb'
CLASS = 'LatexContextDb'

KINDS = {'macros': 'M', 'environments': 'E', 'specials': 'S'}
KIND_WORDS = [('macro', 'M'), ('environment', 'E'), ('special', 'S')]
BASE_STATE_FIELDS = ('category_list', 'd', 'lookup_chain_maps', 'unknown_macro_spec',
                     'unknown_environment_spec', 'unknown_specials_spec', 'frozen')
# + every attribute a method answers from (return self.X[..] / self.X.get(..)): computed per run
STATE_FIELDS = list(BASE_STATE_FIELDS)


def _answer_sources(meths):
    """attributes of the database from which some method hands out an answer: a value read by
    subscript or .get() from self.<attr> reaches a return statement (directly or through a local)"""
    out = set()
    for name, fn in meths.items():
        reads = {}
        for st in iter_own(fn):
            if isinstance(st, ast.Assign) and len(st.targets) == 1 and isinstance(st.targets[0], ast.Name):
                reads.setdefault(st.targets[0].id, []).append(st.value)
        for r in [x for x in iter_own(fn) if isinstance(x, ast.Return) and x.value is not None]:
            exprs = [r.value] + [v for n_ in ast.walk(r.value) if isinstance(n_, ast.Name) for v in reads.get(n_.id, [])]
            for e in exprs:
                for x in ast.walk(e):
                    base = None
                    if isinstance(x, ast.Subscript) and isinstance(x.ctx, ast.Load):
                        base = x.value
                    elif isinstance(x, ast.Call) and call_name(x) == 'get' and call_recv(x) is not None:
                        base = call_recv(x)
                    while isinstance(base, ast.Subscript):
                        base = base.value
                    if base is not None and is_self_attr(base):
                        out.add(base.attr)
    return out
MUTATORS = {'append', 'extend', 'insert', 'pop', 'remove', 'clear', 'sort', 'reverse',
            'update', 'setdefault', 'popitem', '__setitem__', '__delitem__'}

EXPLANATION = (
    "Induction over the history of calls on a LatexContextDb.  Invariant I: for each kind k, "
    "lookup_chain_maps[k].maps lists, in order, d[c][k] for c in category_list (possibly "
    "interleaved with empty sentinel maps that cannot answer any lookup).  M1+M2 show that "
    "__init__ establishes I and every statement that changes category_list re-establishes it "
    "(either by rebuilding the maps from category_list or by applying the same positional "
    "operation to equally long lists); M3 shows no other write can happen once frozen and that "
    "every writer is guarded; M4 shows derivations write only to the fresh object and alias "
    "containers of the source only into frozen objects; M5 shows lookups read only the chain map "
    "of their own kind and fall back to the unknown-spec of their own kind; M6 shows "
    "test_for_specials scans category_list in order and replaces the best match only by a "
    "strictly longer one; M7 shows no statement mixes two kinds.  With ChainMap's first-map-wins "
    "lookup, I implies the stated lookup order for every history.")


def kinds_in(node):
    """Set of kind codes mentioned in an expression: exact kind string literals,
    keyword-argument names, and identifiers/attribute names containing a kind word."""
    out = set()
    for n in ast.walk(node):
        if isinstance(n, ast.Constant) and isinstance(n.value, str) and n.value in KINDS:
            out.add(KINDS[n.value])
        elif isinstance(n, ast.Name):
            out |= _kind_of_ident(n.id)
        elif isinstance(n, ast.Attribute):
            out |= _kind_of_ident(n.attr)
        elif isinstance(n, ast.keyword) and n.arg:
            out |= _kind_of_ident(n.arg)
    return out


def _kind_of_ident(ident):
    low = ident.lower()
    out = set()
    for w, k in KIND_WORDS:
        if w in low:
            out.add(k)
    return out


def run(ctx):
    repo = ctx.repo
    m = repo.mod(MODULE)
    cls = m.cls(CLASS)
    meths = m.methods(CLASS)
    ctx.analysed['class'] = MODULE + '.' + CLASS
    ctx.analysed['methods'] = sorted(meths)

    ctx.rule('M1', 'mirror at construction: category_list and each ChainMap.maps start with the '
                   'same number of entries, or every mutator rebuilds the maps from category_list', 1)
    ctx.rule('M2', 'mirror under mutation: every statement changing category_list is paired with '
                   'the same positional operation on all three chain maps, or the maps are rebuilt '
                   'from category_list in order', 1)
    ctx.rule('M2c', 'each per-category dict is keyed by the spec\'s own name attribute '
                    '(macroname / environmentname / specials_chars) of the matching kind', 3)
    ctx.rule('M3', 'frozen guard: every method writing a lookup-relevant state field through self '
                   'raises first when self.frozen (exceptions: __init__, freeze)', 4)
    ctx.rule('M4', 'copy-on-derive: filtered_context/extended_with never write to self, mutate '
                   'in place only freshly copied containers, and alias self\'s containers only '
                   'into objects that are frozen before being returned', 4)
    ctx.rule('M4b', 'filtered_context keeps category order and its keep/exclude tests have the '
                    'documented polarity; unknown-spec fields are copied kind by kind', 3)
    ctx.rule('M5', 'lookups consult only the chain map of their own kind and fall back to the '
                   'unknown spec of their own kind', 3)
    ctx.rule('M6', 'test_for_specials scans category_list in order, replaces the best match only '
                   'by a strictly longer one, and never exits early', 1)
    ctx.rule('M2d', 'positions passed to list.insert() for the category list are never negative (insert(-1) is '
                    'not append)', 2)
    ctx.rule('M2e', 'add_context_category places the new category at index(name) for insert_before, index(name)+1 for '
                    'insert_after, and at 0 / len(list) when the name is unknown (per assignment of the position, under the '
                    'facts that govern it)', 4)
    ctx.rule('M15', 'extended_with() merges into a leading automatically named category only extensions that have no '
                    'category name of their own (`category is None` is part of the merge condition)', 1)
    ctx.rule('M14', 'LatexContextDb reads no option through `d.pop(k[, None]) or <fallback>`: an option explicitly given as '
                    'None (no specification for unknown names) stays None in the derived database', 0)
    ctx.rule('M9', 'closure under derivation: a derived database is built only through operations that accept '
                   'every category name the source can hold (automatically generated names included)', 1)
    ctx.rule('M8', 'an attribute computed from other attributes of the database and remembered (a derived '
                   'cache such as a flattened lookup list) is re-computed or reset by every method that '
                   'changes one of the attributes it was computed from', 1)
    ctx.rule('M7', 'kind coherence: no statement, dict entry or keyword argument in the class '
                   'mixes two different kinds (macro/environment/specials)', 30)

    init = meths.get('__init__')
    if init is None:
        raise AnalysisError('anchor vanished: LatexContextDb.__init__')

    # ---------------------------------------------------------------- M1
    init_cat_len = None
    init_maps_len = {}
    for st in iter_own(init):
        if isinstance(st, ast.Assign) and len(st.targets) == 1:
            t = st.targets[0]
            if is_self_attr(t, 'category_list'):
                if isinstance(st.value, (ast.List, ast.Tuple)):
                    init_cat_len = len(st.value.elts)
            if is_self_attr(t, 'lookup_chain_maps') and isinstance(st.value, ast.Dict):
                for k, v in zip(st.value.keys, st.value.values):
                    kk = k.value if isinstance(k, ast.Constant) else None
                    init_maps_len[kk] = _chainmap_len(v)
                m1_node = st
    if init_cat_len is None or set(init_maps_len) != set(KINDS):
        raise AnalysisError('C14/M1: cannot evaluate the initial category_list / chain maps in '
                            '__init__ (shape not modelled)')

    # ---------------------------------------------------------------- M2
    all_rebuild = True
    n_mut = 0
    for name, fn in sorted(meths.items()):
        if name == '__init__':
            continue
        muts = _category_list_mutations(fn)
        for mut in muts:
            n_mut += 1
            shape, why = _mirror_shape(fn, mut)
            if shape == 'rebuild':
                ctx.holds('M2', m, mut, 'maps rebuilt from category_list after the change: ' + why)
            elif shape == 'paired':
                all_rebuild = False
                ctx.holds('M2', m, mut, 'same positional operation applied to the three chain '
                                        'maps: ' + why)
            elif shape == 'fresh-object':
                ctx.holds('M2', m, mut, why)
            elif shape == 'refuted':
                all_rebuild = False
                ctx.refuted('M2', m, mut, why)
            else:
                all_rebuild = False
                ctx.unknown('M2', m, mut, why)
    ctx.analysed['category_list_mutation_sites'] = n_mut

    lens_ok = all(v is not None and v == init_cat_len for v in init_maps_len.values())
    facts = 'len(category_list)=%r, len(maps)=%r' % (init_cat_len, init_maps_len)
    if lens_ok:
        ctx.holds('M1', m, m1_node, 'initial lengths agree (%s)' % facts)
    elif all_rebuild and n_mut > 0:
        ctx.holds('M1', m, m1_node, 'initial lengths differ (%s) but every mutator rebuilds the '
                                    'maps from category_list, so positions are never computed on '
                                    'one list and applied to the other' % facts)
    else:
        ctx.refuted('M1', m, m1_node,
                    'chain maps start with %s map(s) but category_list with %s entries, and a '
                    'mutator applies positions computed on category_list to .maps: an insert in '
                    'the middle lands one slot off, lookups no longer follow categories()'
                    % (sorted(set(init_maps_len.values())), init_cat_len), facts=facts)

    # ---------------------------------------------------------------- M2c
    keyattr = {'macros': 'macroname', 'environments': 'environmentname',
               'specials': 'specials_chars'}
    for name in ('add_context_category', 'extended_with'):
        fn = meths.get(name)
        if fn is None:
            raise AnalysisError('anchor vanished: LatexContextDb.' + name)
        # the dict literal may sit in the method or in a module-level helper it calls with the
        # three spec lists (parameter of the helper <- argument name in the method)
        places = [(fn, dict((k, k) for k in KINDS))]
        for c in [c for c in iter_own(fn) if isinstance(c, ast.Call) and isinstance(c.func, ast.Name)
                  and c.func.id in m.functions and '.' not in c.func.id]:
            h = m.functions[c.func.id]
            hp = [a.arg for a in h.args.args]
            amap = {}
            for a, pn in zip(c.args, hp):
                if isinstance(a, ast.Name) and a.id in KINDS:
                    amap[a.id] = pn
            for kw_ in c.keywords:
                if kw_.arg and isinstance(kw_.value, ast.Name) and kw_.value.id in KINDS:
                    amap[kw_.value.id] = kw_.arg
            if set(amap) == set(KINDS):
                places.append((h, amap))
        for where, amap in places:
            for d in [n for n in iter_own(where) if isinstance(n, ast.Dict)]:
                keys = [k.value if isinstance(k, ast.Constant) else None for k in d.keys]
                if set(keys) != set(KINDS):
                    continue
                for k, v in zip(keys, d.values):
                    ok, why = _keyed_by(v, keyattr[k], amap[k])
                    if ok is None:
                        continue
                    ctx.decide('M2c', ok, m, v, 'keyed by .%s from parameter %s' % (keyattr[k], k), why,
                               construct="%s: '%s': %s" % (name, k, short(v)))

    STATE_FIELDS[:] = list(BASE_STATE_FIELDS) + sorted(_answer_sources(meths) - set(BASE_STATE_FIELDS))
    ctx.analysed['state_fields'] = list(STATE_FIELDS)
    # ---------------------------------------------------------------- M3
    # exempt: __init__, freeze, and private helpers whose every call site in the class is in an
    # exempt method or in a method that has already passed its own frozen guard at that point
    def _callers(hname):
        out = []
        for n2, f2 in meths.items():
            for c_ in iter_own(f2):
                if isinstance(c_, ast.Call) and isinstance(c_.func, ast.Attribute) and c_.func.attr == hname \
                        and isinstance(c_.func.value, ast.Name) and c_.func.value.id == 'self':
                    out.append((n2, f2, c_))
        return out
    exempt = {'__init__', 'freeze'}
    for name, fn in sorted(meths.items()):
        if name.startswith('_') and not name.startswith('__'):
            cs_ = _callers(name)
            if cs_ and all(n2 in exempt or _frozen_guard_before(f2, c_) for n2, f2, c_ in cs_):
                exempt.add(name)
    for name, fn in sorted(meths.items()):
        if name in exempt:
            continue
        writes = _self_state_writes(fn)
        if not writes:
            continue
        first = min(writes, key=lambda n: (n.lineno, n.col_offset))
        guard = _frozen_guard_before(fn, first)
        for w in writes:
            st = enclosing_stmt(w)
            ctx.decide('M3', guard, m, st,
                       'dominated by `if self.frozen: raise`',
                       'writes state field through self without a dominating '
                       '`if self.frozen: raise` guard: a frozen database can be modified',
                       construct='%s: %s' % (name, short(st)))

    # ---------------------------------------------------------------- M4
    for name in ('filtered_context', 'extended_with'):
        fn = meths[name] if name in meths else None
        if fn is None:
            raise AnalysisError('anchor vanished: LatexContextDb.' + name)
        _check_copy_on_derive(ctx, m, name, fn)

    ctx.rule('M13', 'an automatically generated category name is checked against the categories of the database before it '
                    'is handed out (a name chosen by the user, or inherited, may look like a generated one)', 1)
    gn_ = meths.get('_get_new_autogen_category')
    if gn_ is None:
        ctx.unknown('M13', m, None, '_get_new_autogen_category not found', construct='fresh category name')
    else:
        tests_ = [c_ for c_ in ast.walk(gn_) if isinstance(c_, ast.Compare) and len(c_.ops) == 1 and
                  isinstance(c_.ops[0], (ast.In, ast.NotIn)) and is_self_attr(c_.comparators[0], 'category_list')]
        ctx.decide('M13', bool(tests_), m, tests_[0] if tests_ else gn_, 'the generated name is tested against self.category_list',
                   '_get_new_autogen_category hands out a name without testing it against self.category_list: after an '
                   'extension under an explicit name the counter is not advanced, the next automatic extension receives a name '
                   'that is already in use, its definitions overwrite the earlier category\'s and categories() lists the '
                   'name twice', construct='fresh category name')
    ctx.rule('M12', 'extended_with() / filtered_context(): a path that hands back the database itself (no copy) has not '
                    'taken any option out of its keyword arguments before: requested overrides (unknown_*_spec) are never '
                    'dropped', 0)
    for dn_ in ('extended_with', 'filtered_context'):
        df_ = meths.get(dn_)
        if df_ is None:
            continue
        try:
            rc_ = [c for c in symex.Walker(want_returns=True, trace=True, is_sink=lambda c_: call_name(c_) == 'pop' and
                                           call_recv(c_) is not None and unparse(call_recv(c_)) == (
                                               df_.args.kwarg.arg if df_.args.kwarg else 'kwargs')).run(df_)
                   if c.kind == 'return']
        except symex.TooManyPaths:
            rc_ = []
        for c in rc_:
            if isinstance(c.sub, ast.Name) and c.sub.id == 'self':
                pops = [t_ for t_ in c.env.get('#trace', ()) if isinstance(t_[0], ast.Call)]
                ctx.decide('M12', not pops, m, c.node, '%s: returns self before any option was consumed' % dn_,
                           '%s returns the database itself on the path [%s] after %d option(s) were taken out of its '
                           'keyword arguments (%s): the requested override is dropped and undefined names keep the '
                           'parent\'s unknown-spec' % (dn_, ' & '.join(c.cond_src())[-100:], len(pops),
                                                       short(pops[0][0], 50) if pops else ''),
                           construct='%s: return self' % dn_)
    ctx.holds('M12', m, None, 'no path returns the database itself after consuming options', construct='return-self scan',
              trivial=True)
    # ---- M16: a derived database carries the parent's unknown-specs on every path
    ctx.rule('M16', 'filtered_context() / extended_with(): each of unknown_macro_spec, unknown_environment_spec and '
                    'unknown_specials_spec of the new database is assigned on EVERY path from a value that mentions the '
                    'parent\'s (self.<field>) -- not only under a condition on what is kept / added: a derived database '
                    'answers an undefined name with the configured unknown-spec', 6)
    _UNK = ('unknown_macro_spec', 'unknown_environment_spec', 'unknown_specials_spec')

    def _assigns(block, attr, helpers_seen=()):
        for st_ in block:
            if isinstance(st_, ast.Assign):
                for t_ in st_.targets:
                    tl_ = t_.elts if isinstance(t_, (ast.Tuple, ast.List)) else [t_]
                    vl_ = st_.value.elts if isinstance(t_, (ast.Tuple, ast.List)) and isinstance(
                        st_.value, (ast.Tuple, ast.List)) and len(st_.value.elts) == len(tl_) else [st_.value] * len(tl_)
                    for tt_, vv_ in zip(tl_, vl_):
                        if isinstance(tt_, ast.Attribute) and tt_.attr == attr and not is_self_attr(tt_) and \
                                ('self.' + attr) in unparse(vv_):
                            return st_
                if isinstance(st_.value, ast.Call) and is_self_attr(st_.value.func) and st_.value.func.attr in meths and \
                        st_.value.func.attr not in helpers_seen and \
                        st_.value.func.attr not in ('filtered_context', 'extended_with'):
                    # the new database comes from a helper of the class that fills these fields
                    if _assigns(meths[st_.value.func.attr].body, attr, helpers_seen + (st_.value.func.attr,)) is not None:
                        return st_
            elif isinstance(st_, ast.If):
                a_, b_ = _assigns(st_.body, attr, helpers_seen), _assigns(st_.orelse, attr, helpers_seen)
                if a_ is not None and b_ is not None:
                    return a_
            elif isinstance(st_, (ast.With, ast.Try)):
                a_ = _assigns(st_.body, attr, helpers_seen)
                if a_ is not None:
                    return a_
            elif isinstance(st_, ast.For) and isinstance(st_.iter, (ast.Tuple, ast.List)) and \
                    attr in [getattr(e_, 'value', None) for e_ in st_.iter.elts] and isinstance(st_.target, ast.Name):
                for c_ in ast.walk(st_):
                    if isinstance(c_, ast.Call) and call_name(c_) == 'setattr' and len(c_.args) == 3 and \
                            unparse(c_.args[1]) == st_.target.id and 'getattr(self, %s' % st_.target.id in unparse(c_.args[2]) \
                            and all(p_ is st_ or not isinstance(p_, (ast.If, ast.While, ast.Try))
                                    for p_ in _ancestors_upto(c_, st_)):
                        return st_
            elif isinstance(st_, ast.Expr) and isinstance(st_.value, ast.Call) and is_self_attr(st_.value.func) and \
                    st_.value.func.attr in meths and st_.value.func.attr not in helpers_seen and \
                    st_.value.func.attr not in ('filtered_context', 'extended_with'):
                # a helper of the class that fills the fields of the new database it is handed
                a_ = _assigns(meths[st_.value.func.attr].body, attr, helpers_seen + (st_.value.func.attr,))
                if a_ is not None:
                    return st_
        return None

    def _ancestors_upto(n_, top_):
        out_ = []
        for p_ in parents(n_):
            out_.append(p_)
            if p_ is top_:
                break
        return out_

    for dn_ in ('filtered_context', 'extended_with'):
        df_ = meths.get(dn_)
        if df_ is None:
            raise AnalysisError('anchor vanished: LatexContextDb.%s' % dn_)
        for attr_ in _UNK:
            a_ = _assigns(df_.body, attr_)
            cond_ = [x_ for x_ in ast.walk(df_) if isinstance(x_, ast.Assign) and any(
                isinstance(t_, ast.Attribute) and t_.attr == attr_ and not is_self_attr(t_) for t_ in x_.targets)]
            ctx.decide('M16', a_ is not None, m, a_ if a_ is not None else (cond_[0] if cond_ else df_),
                       '%s: %s of the new database assigned on every path from the parent\'s' % (dn_, attr_),
                       '%s assigns %s of the new database %s: on the other paths the derived database has no %s, so '
                       'an undefined name is answered with None (or an error) although a fallback specification was configured '
                       'on the parent' % (dn_, attr_, ('only under a condition (%s)' % short(cond_[0], 50)) if cond_ else
                                          'nowhere from self.%s' % attr_, attr_),
                       construct='%s: %s' % (dn_, attr_))

    # ---- M17: the parsing-state delta forwards the whole extension to extended_with()
    ctx.rule('M17', 'ParsingStateDeltaExtendLatexContextDb hands its extension dictionary to extended_with() whole '
                    '(`**self.extend_latex_context`, possibly through a local or a copy) or names every key extended_with() '
                    'understands (macros, environments, specials and the three unknown_*_spec): an extension derived through '
                    'the delta is the same database as the one extended_with() builds from the same dictionary', 1)
    n17 = 0
    for q_, f_ in sorted(m.functions.items()):
        if not q_.startswith('ParsingStateDeltaExtendLatexContextDb.'):
            continue
        loc_ = {}
        for st_ in iter_own(f_):
            if isinstance(st_, ast.Assign) and len(st_.targets) == 1 and isinstance(st_.targets[0], ast.Name):
                loc_.setdefault(st_.targets[0].id, []).append(st_.value)
        for c_ in iter_own(f_):
            if not (isinstance(c_, ast.Call) and call_name(c_) == 'extended_with'):
                continue
            n17 += 1
            whole = False
            for k_ in c_.keywords:
                if k_.arg is None:
                    v_ = k_.value
                    if isinstance(v_, ast.Name) and len(loc_.get(v_.id, ())) == 1:
                        v_ = loc_[v_.id][0]
                    if isinstance(v_, ast.Call) and call_name(v_) in ('dict', 'copy') and (v_.args or call_recv(v_) is not None):
                        v_ = v_.args[0] if v_.args else call_recv(v_)
                    whole = whole or unparse(v_) == 'self.extend_latex_context'
            named = {k_.arg for k_ in c_.keywords if k_.arg}
            allk = named >= set(_UNK) | {'macros', 'environments', 'specials'}
            missing = sorted((set(_UNK) | {'macros', 'environments', 'specials'}) - named)
            ctx.decide('M17', whole or allk, m, c_, '%s forwards the whole extension' % q_,
                       '%s calls extended_with() with selected keys only (%s): %s of the extension dictionary never reach it, so '
                       'a database derived through the parsing-state delta keeps the parent\'s unknown-spec where '
                       'extended_with() with the same dictionary installs the requested one'
                       % (q_, ', '.join(sorted(named)), ', '.join(missing)), construct='%s: extended_with call' % q_)
    if not n17:
        ctx.unknown('M17', m, None, 'no extended_with() call in ParsingStateDeltaExtendLatexContextDb', construct='delta forwarding')

    # ---- M18: no accessor hands out the database's own containers
    ctx.rule('M18', 'no public method of LatexContextDb returns one of the containers its constructor creates (category_list, d, '
                    'lookup_chain_maps -- directly or through a local alias): a caller that sorts or edits the returned list '
                    'changes the category order the database reports while the lookup maps keep the old order, even on a '
                    'frozen database and on every database derived from it that shares the list; accessors return a copy', 1)
    cont18 = set()
    init18 = meths.get('__init__')
    if init18 is not None:
        for st_ in iter_own(init18):
            if isinstance(st_, ast.Assign) and len(st_.targets) == 1 and is_self_attr(st_.targets[0]):
                v_ = st_.value
                if isinstance(v_, (ast.List, ast.Dict, ast.Set, ast.ListComp, ast.DictComp, ast.SetComp)) or (
                        isinstance(v_, ast.Call) and call_name(v_) in ('list', 'dict', 'set', 'ChainMap', 'OrderedDict',
                                                                        'defaultdict')):
                    cont18.add(st_.targets[0].attr)
    if not cont18:
        ctx.unknown('M18', m, None, 'no container field found in LatexContextDb.__init__', construct='container fields')
    n18 = 0
    for q_, f_ in sorted(m.functions.items()):
        if not q_.startswith(CLASS + '.') or q_.count('.') != 1 or f_.name.startswith('_'):
            continue
        loc_ = {}
        for st_ in iter_own(f_):
            if isinstance(st_, ast.Assign) and len(st_.targets) == 1 and isinstance(st_.targets[0], ast.Name):
                loc_.setdefault(st_.targets[0].id, []).append(st_.value)
        for r_ in iter_own(f_):
            if not (isinstance(r_, ast.Return) and r_.value is not None):
                continue
            n18 += 1
            vals_ = [r_.value]
            if isinstance(r_.value, ast.Name):
                vals_ = loc_.get(r_.value.id, [])
            elif isinstance(r_.value, ast.IfExp):
                vals_ = [r_.value.body, r_.value.orelse]
            bad_ = [v_ for v_ in vals_ if is_self_attr(v_) and v_.attr in cont18]
            ctx.decide('M18', not bad_, m, r_, '%s returns no internal container' % q_,
                       '%s returns %s, the database\'s own container, not a copy: sorting or editing the returned object '
                       'changes the category order reported by categories()/iter_*_specs()/filtered_context() while the lookup '
                       'chain maps keep the old precedence -- on a frozen database too, and on every derived database sharing it'
                       % (q_, unparse(bad_[0]) if bad_ else ''), construct='%s: returned container' % q_)
    if not n18:
        ctx.unknown('M18', m, None, 'no public method with a return value found', construct='accessor scan')

    ctx.rule('M11', 'extended_with(): when new definitions are merged into an existing automatically named category the '
                    'new definition of a name replaces the old one (abstract source-order interpretation of the merge)', 3)
    merge_precedence(ctx, 'M11', m, meths['extended_with'])
    _ADD_FN[0] = meths.get('add_context_category')
    _check_filtered(ctx, m, meths['filtered_context'])

    # ---------------------------------------------------------------- M5
    for gname, kind, unk in (('get_macro_spec', 'macros', 'unknown_macro_spec'),
                             ('get_environment_spec', 'environments', 'unknown_environment_spec'),
                             ('get_specials_spec', 'specials', 'unknown_specials_spec')):
        fn = meths.get(gname)
        if fn is None:
            raise AnalysisError('anchor vanished: LatexContextDb.' + gname)
        _check_lookup(ctx, m, fn, kind, unk)

    # ---------------------------------------------------------------- M6
    tfs = meths.get('test_for_specials')
    if tfs is None:
        raise AnalysisError('anchor vanished: LatexContextDb.test_for_specials')
    _check_test_for_specials(ctx, m, tfs)

    # ---------------------------------------------------------------- M2d
    # positions handed to list.insert() for the category list are 0, an index(), index()+1 or
    # len(list): a negative index does not mean "at the end" for insert()
    acf = meths.get('add_context_category')
    idx_names = set()
    for c_ in ast.walk(acf):
        if isinstance(c_, ast.Call) and call_name(c_) == 'insert' and c_.args:
            a0 = c_.args[0]
            if isinstance(a0, ast.Name):
                idx_names.add(a0.id)
            elif isinstance(a0, ast.Constant) or isinstance(a0, ast.UnaryOp):
                idx_names.add(None)
                v_ = a0
                neg = isinstance(v_, ast.UnaryOp) and isinstance(v_.op, ast.USub)
                ctx.decide('M2d', not neg, m, c_, 'literal insert position %s' % unparse(v_),
                           'list.insert(%s, ...): a negative position inserts BEFORE the last element, not at '
                           'the end' % unparse(v_), construct='add_context_category: ' + short(c_, 60))
    n_idx = 0
    for st_ in ast.walk(acf):
        if isinstance(st_, ast.Assign) and any(isinstance(t_, ast.Name) and t_.id in idx_names for t_ in st_.targets):
            for cs_, e_ in __import__('pxv.symex', fromlist=['x'])._split_ifexp(st_.value):
                n_idx += 1
                neg = (isinstance(e_, ast.UnaryOp) and isinstance(e_.op, ast.USub)) or \
                    (isinstance(e_, ast.Constant) and isinstance(e_.value, int) and e_.value < 0)
                ctx.decide('M2d', not neg, m, st_, 'insert position %s' % short(e_, 50),
                           'the insert position is set to %s: list.insert() with a negative position inserts '
                           'BEFORE the last element, so insert_after=<unknown name> places the new category in '
                           'front of the last one and shadows its definitions (documented: at the end)'
                           % unparse(e_), construct='add_context_category: ' + short(st_, 60))
    if not n_idx and None not in idx_names:
        ctx.unknown('M2d', m, acf, 'no insert position found', construct='add_context_category: insert positions')
    # M2e: which position each placement option computes -- per path, at the place where the category is inserted
    _sx = __import__('pxv.symex', fromlist=['x'])
    n_pl = 0

    def _is_insert_site(c_):
        if any(isinstance(p_, ast.Lambda) for p_ in parents(c_)):
            return False
        if call_name(c_) == 'insert' and call_recv(c_) is not None and 'category_list' in unparse(call_recv(c_)):
            return True
        return isinstance(c_.func, ast.Name) and c_.func.id not in dir(__import__('builtins')) and c_.args and \
            'category_list' in unparse(c_.args[0])
    try:
        ics = _sx.Walker(is_sink=_is_insert_site).run(acf)
    except _sx.TooManyPaths:
        ics = []
    seen_pl = set()
    for cs in ics:
        atoms = {(unparse(a_), ap_) for t_, p_ in cs.conds for a_, ap_ in _sx._atoms(t_, p_)}
        # the position: first argument of a direct insert, or the index variable a stored lambda closes over
        if call_name(cs.sub) == 'insert':
            posv = cs.sub.args[0] if cs.sub.args else None
        else:
            posv = None
            for nm_ in sorted(n_ for n_ in idx_names if n_):
                posv = cs.env.get(nm_)
                if posv is None:
                    posv = ast.Name(id=nm_, ctx=ast.Load())     # an opaque call result: expanded through its definition
        for opt, off, scen in (('insert_after', 1, {'insert_before': False, 'insert_after': True}),
                               ('insert_before', 0, {'insert_before': True})):
            # the path under the scenario "this option is given (and the one tested before it is not)": tests and values
            # are simplified with the known truth of the option names (`a or b`, `x if a else y`), so a single branch that
            # serves both options is read once per option
            feas, atoms = True, set()
            for t_, p_ in cs.conds:
                t2_ = _simp_truth(_sx.expand(t_, cs.env), scen)
                tv_ = _truth_of(t2_, scen)
                if tv_ is not None:
                    if tv_ != p_:
                        feas = False
                        break
                    continue
                for a_, ap_ in _sx._atoms(t2_, p_):
                    av_ = _truth_of(a_, scen)
                    if av_ is not None and av_ != ap_:
                        feas = False
                    atoms.add((unparse(a_), ap_))
            if not feas:
                continue
            lst, inlist = None, None
            for t_, p_ in atoms:
                mm = re.match(r'%s (not in|in) (.+)$' % opt, t_)
                if mm:
                    lst = mm.group(2)
                    inlist = (mm.group(1) == 'in') == p_
            if inlist is None or posv is None:
                continue
            txt = unparse(_fold_int(_simp_truth(_sx.expand(posv, cs.env), scen))).replace(' ', '')
            idx = '%s.index(%s)' % (lst, opt)
            want = ([idx + '+1', '1+' + idx] if off else [idx]) if inlist else (['len(%s)' % lst] if off else ['0'])
            key_ = (opt, inlist, txt)
            if key_ in seen_pl:
                continue
            seen_pl.add(key_)
            n_pl += 1
            ctx.decide('M2e', txt in [w_.replace(' ', '') for w_ in want], m, cs.node,
                       '%s, name %s: position %s' % (opt, 'found' if inlist else 'not found', txt),
                       'with %s=<a name %s the list> the new category is inserted at %s, not at %s: it lands on the wrong '
                       'side of the named category (or at the wrong end of the list), so lookups prefer the wrong definition '
                       '(a fall-back category registered "after" the defaults shadows them: \\section*[..]{..} is parsed with '
                       'the fall-back signature)' % (opt, 'in' if inlist else 'not in', txt, want[0]),
                       construct='add_context_category: %s %s' % (opt, 'found' if inlist else 'not found'))
    if n_pl < 4:
        ctx.unknown('M2e', m, acf, 'only %d of the 4 placement cases (insert_before/insert_after x found/not found) recognised'
                    % n_pl, construct='add_context_category: placement cases')

    # ---------------------------------------------------------------- M15
    # extended_with(): only an extension WITHOUT a category name of its own may be merged into a leading automatic category
    ew_ = meths.get('extended_with')
    n_mg = 0
    if ew_ is not None:
        ldefs_ = {}
        for a_ in iter_own(ew_):
            if isinstance(a_, ast.Assign) and len(a_.targets) == 1 and isinstance(a_.targets[0], ast.Name):
                ldefs_.setdefault(a_.targets[0].id, []).append(a_.value)
        for if_ in [x_ for x_ in iter_own(ew_) if isinstance(x_, ast.If)]:
            ttxt = unparse(if_.test)
            names_ = {n_.id for n_ in ast.walk(if_.test) if isinstance(n_, ast.Name)}
            via_local = any(len(ldefs_.get(n_, [])) == 1 and 'category_list[0]' in unparse(ldefs_[n_][0]) for n_ in names_)
            if not (('_autogen_category_prefix' in ttxt or 'startswith' in ttxt) and ('category_list[0]' in ttxt or via_local)):
                continue
            n_mg += 1
            atoms_ = {(unparse(a_), ap_) for a_, ap_ in _sx._atoms(if_.test, True)}
            okm = ('category is None', True) in atoms_ or ('category is not None', False) in atoms_ or \
                ('category', False) in atoms_ or ('not category', True) in atoms_
            ctx.decide('M15', okm, m, if_, 'merge into the leading automatic category only when category is None',
                       'extended_with() merges the new definitions into the leading automatically named category under [%s], '
                       'which does not require `category is None`: an extension given its own name (category=\'pkg\') '
                       'disappears into the automatic category -- categories() does not list it, it can be registered twice, '
                       'and filtered_context(keep/exclude=[\'pkg\']) answers wrongly' % short(if_.test, 100),
                       construct='extended_with: merge condition')
    if not n_mg:
        ctx.unknown('M15', m, ew_, 'merge branch of extended_with not found', construct='extended_with: merge condition')

    # ---------------------------------------------------------------- M14
    # an option given explicitly as None (no fallback specification) is not the same as an option that was not given
    n_fd = 0
    for name_, fn_ in sorted(meths.items()):
        for b_ in ast.walk(fn_):
            if not (isinstance(b_, ast.BoolOp) and isinstance(b_.op, ast.Or) and isinstance(b_.values[0], ast.Call)
                    and call_name(b_.values[0]) in ('pop', 'get')):
                continue
            c_ = b_.values[0]
            dflt = c_.args[1] if len(c_.args) > 1 else None
            if dflt is not None and not (isinstance(dflt, ast.Constant) and dflt.value is None):
                continue
            n_fd += 1
            ctx.refuted('M14', m, b_, '%s takes an option with `%s`: an explicit None (or any falsy value) is replaced by the '
                        'fallback, so extended_with(unknown_macro_spec=None) -- a derived database WITHOUT a fallback for '
                        'unknown names -- silently keeps the parent\'s fallback, and lookups of unknown names succeed where '
                        'the documented result is None / an error' % (name_, short(b_, 70)),
                        construct='%s: %s' % (name_, short(b_, 50)))
    ctx.holds('M14', m, None, 'no `options.pop(k) or fallback` in LatexContextDb (%d methods)' % len(meths),
              construct='falsy-default scan', trivial=True)

    # ---------------------------------------------------------------- M8
    _derived_cache_invalidation(ctx, m, meths)

    # ---------------------------------------------------------------- M7
    _MODFUNCS[0] = dict((q, f_) for q, f_ in m.functions.items() if '.' not in q)
    _MODFUNCS[0].update(('self.' + q, f_) for q, f_ in meths.items())
    for name, fn in sorted(list(meths.items()) + [(q, f_) for q, f_ in m.functions.items() if '.' not in q]):
        fk = _kind_of_ident(name)
        for unit, label in _kind_units(fn):
            ks = kinds_in(unit)
            if len(fk) == 1 and label == 'stmt' and isinstance(unit, ast.Return):
                ks = ks | fk
            if not ks:
                continue
            if len(fk) == 1 and label == 'stmt' and ks and name.startswith(('get_', 'set_unknown_',
                                                                            'iter_')):
                ks = ks | fk
            triv = False
            ctx.decide('M7', len(ks) <= 1, m, unit, 'mentions only kind %s' % sorted(ks),
                       'mixes kinds %s: a %s is looked up / stored under another kind' %
                       (sorted(ks), '/'.join(sorted(ks))),
                       construct='%s: %s' % (name, short(unit)), trivial=triv)

    # ---- M10: a refused modification leaves the database unchanged
    ctx.rule('M10', 'validate before write: on every path of a database method that ends in an explicit raise '
                    '(duplicate category, reserved name, frozen database) nothing of the database has been '
                    'written yet -- a refused modification never changes the answers', 3)

    def _writes_self(st):
        if isinstance(st, (ast.Assign, ast.AugAssign, ast.AnnAssign)):
            tgs = st.targets if isinstance(st, ast.Assign) else [st.target]
            for t in tgs:
                for tt in (t.elts if isinstance(t, (ast.Tuple, ast.List)) else [t]):
                    r_ = tt
                    while isinstance(r_, (ast.Subscript, ast.Attribute)) and not is_self_attr(r_):
                        r_ = r_.value
                    if is_self_attr(r_) and r_.attr != '_autogen_category_counter':
                        return True
        if isinstance(st, ast.Expr) and isinstance(st.value, ast.Call):
            c = st.value
            rec = call_recv(c)
            if call_name(c) in MUTATORS and rec is not None and any(is_self_attr(x) for x in ast.walk(rec)):
                return True
            if isinstance(c.func, ast.Name) and any(is_self_attr(a) for a in c.args):
                return True         # a local callable handed an attribute of the database
            if is_self_attr(c.func) and c.func.attr in ('add_context_category', 'set_unknown_macro_spec',
                                                         'set_unknown_environment_spec',
                                                         'set_unknown_specials_spec'):
                return True
        return False
    for name, fn0 in sorted(meths.items()):
        fn = symex.inline_stmt_helpers(fn0, meths)     # guards moved into a value-less helper are followed
        if name == '__init__' or not any(isinstance(x, ast.Raise) and x.exc is not None for x in iter_own(fn)):
            continue
        if fn0 is not fn and not any(_writes_self(st) for st in ast.walk(fn0) if isinstance(st, ast.stmt)):
            continue            # the helper itself (it only raises)
        if not any(_writes_self(st) for st in ast.walk(fn) if isinstance(st, ast.stmt)):
            continue
        try:
            cases = symex.Walker(want_exits=True, trace=True, stmt_sink=_writes_self).run(fn)
        except symex.TooManyPaths as e:
            ctx.unknown('M10', m, fn, str(e), construct=name + ': validate before write')
            continue
        bad = None
        n_r = 0
        for cs in cases:
            if cs.kind != 'raise' or cs.node.exc is None:
                continue
            n_r += 1
            wr = [t_[0] for t_ in cs.env.get('#trace', ()) if isinstance(t_[0], ast.stmt) and _writes_self(t_[0])]
            if wr and bad is None:
                bad = (cs, wr[0])
        ctx.decide('M10', bad is None, m, bad[0].node if bad else fn,
                   '%s: nothing is written before any of its %d refusing exit(s)' % (name, n_r),
                   '%s: the refusal `%s` is reached after the database was already written (`%s`): the call raises '
                   'but the stored definitions / category order have changed, so lookups, test_for_specials() and '
                   'filtered_context() answer from the refused data'
                   % (name, short(bad[0].node, 70) if bad else '', short(bad[1], 70) if bad else ''),
                   construct=name + ': validate before write')

    ctx.assume('collections.ChainMap semantics: lookup returns the value of the first map in '
               '.maps containing the key; new_child(m) prepends m')
    ctx.assume('_autogen_category_counter is not lookup-relevant state (only used to generate '
               'fresh internal category names)')
    return 'proof', EXPLANATION


# --------------------------------------------------------------------------


def _derived_cache_invalidation(ctx, m, meths):
    def self_reads(e):
        return {n.attr for n in ast.walk(e) if is_self_attr(n) and isinstance(n.ctx, ast.Load)}

    def writes(fn):
        """attributes of self written by fn: rebinding, subscript/slice store, in-place mutator call
        (also through one subscript: self.d[k].update(...))"""
        out = {}
        for n in iter_own(fn):
            if isinstance(n, (ast.Assign, ast.AugAssign)):
                for t in (n.targets if isinstance(n, ast.Assign) else [n.target]):
                    for tt in (t.elts if isinstance(t, (ast.Tuple, ast.List)) else [t]):
                        r = tt
                        while isinstance(r, ast.Subscript):
                            r = r.value
                        if isinstance(r, ast.Attribute) and isinstance(r.value, ast.Subscript):
                            r = r.value
                            while isinstance(r, ast.Subscript):
                                r = r.value
                        if is_self_attr(r):
                            out.setdefault(r.attr, n)
            elif isinstance(n, ast.Call) and call_name(n) in MUTATORS and call_recv(n) is not None:
                r = call_recv(n)
                while isinstance(r, (ast.Subscript, ast.Attribute)) and not is_self_attr(r):
                    r = r.value
                if is_self_attr(r):
                    out.setdefault(r.attr, n)
        return out
    caches = {}
    for name, fn in sorted(meths.items()):
        if name == '__init__':
            continue
        for st in iter_own(fn):
            if isinstance(st, ast.Assign) and len(st.targets) == 1 and is_self_attr(st.targets[0]):
                deps = self_reads(st.value) - {st.targets[0].attr}
                if deps and not isinstance(st.value, (ast.Constant, ast.Name)):
                    # `self.A = <expression over other attributes>`: candidate derived value
                    caches.setdefault(st.targets[0].attr, []).append((name, st, deps))
    n = 0
    for attr, defs in sorted(caches.items()):
        # only attributes that are *remembered*: guarded by an `is None` memo test somewhere
        memo = [d for d in defs if any(pol and unparse(t) == 'self.%s is None' % attr
                                       for t, pol in atomic_facts(d[1]))]
        if not memo:
            continue
        deps = set()
        for _, _, d_ in memo:
            deps |= d_
        for name, fn in sorted(meths.items()):
            if name == '__init__' or name in {d[0] for d in memo}:
                continue
            w = writes(fn)
            hit = sorted(set(w) & deps)
            if not hit:
                continue
            n += 1
            ctx.decide('M8', attr in w, m, w[hit[0]],
                       '%s changes %s and resets the derived %s' % (name, hit, attr),
                       '%s changes self.%s, from which the remembered self.%s was computed (in %s), but '
                       'does not reset it: lookups that go through self.%s keep answering from the old '
                       'contents while categories() / get_*_spec() already see the change'
                       % (name, '/'.join(hit), attr, memo[0][0], attr),
                       construct='%s: derived cache %s' % (name, attr))
    ctx.holds('M8', m, None, '%d remembered derived attribute(s); %d writer(s) of their sources checked'
              % (len([a for a, d in caches.items() if any(True for x in d)]), n),
              construct='derived cache scan', trivial=True)


def _chainmap_len(v):
    """Number of maps of a `ChainMap(...)` constructor expression."""
    if isinstance(v, ast.Call) and call_name(v) == 'ChainMap':
        if any(isinstance(a, ast.Starred) for a in v.args):
            return None
        return max(1, len(v.args))   # ChainMap() has one (empty) map
    return None


def _local_lambdas(fn):
    """name -> list of Lambda nodes assigned to that local name."""
    out = {}
    for st in iter_own(fn):
        if isinstance(st, ast.Assign) and len(st.targets) == 1 and \
                isinstance(st.targets[0], ast.Name) and isinstance(st.value, ast.Lambda):
            out.setdefault(st.targets[0].id, []).append(st.value)
    return out


def _lambda_mutates_first_param(lam):
    """('insert', idx_text) / ('append', None) if the lambda body is p0.insert(i, p1)
    or p0.append(p1) on its own first parameter."""
    if len(lam.args.args) < 2:
        return None
    p0, p1 = lam.args.args[0].arg, lam.args.args[1].arg
    b = lam.body
    if isinstance(b, ast.Call) and isinstance(b.func, ast.Attribute) and \
            isinstance(b.func.value, ast.Name) and b.func.value.id == p0:
        if b.func.attr == 'insert' and len(b.args) == 2 and \
                isinstance(b.args[1], ast.Name) and b.args[1].id == p1:
            return ('insert', unparse(b.args[0]))
        if b.func.attr == 'append' and len(b.args) == 1 and \
                isinstance(b.args[0], ast.Name) and b.args[0].id == p1:
            return ('append', None)
    return None


def _category_list_mutations(fn):
    """Statements in `fn` that change <obj>.category_list where obj is self."""
    lams = _local_lambdas(fn)
    out = []
    for n in iter_own(fn):
        if isinstance(n, ast.Call):
            # self.category_list.<mutator>(...)
            r = call_recv(n)
            if r is not None and is_self_attr(r, 'category_list') and call_name(n) in MUTATORS:
                out.append(enclosing_stmt(n))
            # local_lambda(self.category_list, ...)
            elif isinstance(n.func, ast.Name) and n.func.id in lams and n.args and \
                    is_self_attr(n.args[0], 'category_list'):
                out.append(enclosing_stmt(n))
        elif isinstance(n, (ast.Assign, ast.AugAssign)):
            tg = n.targets if isinstance(n, ast.Assign) else [n.target]
            for t in tg:
                base = t
                while isinstance(base, ast.Subscript):
                    base = base.value
                if is_self_attr(base, 'category_list'):
                    out.append(n)
        elif isinstance(n, ast.Delete):
            for t in n.targets:
                base = t
                while isinstance(base, ast.Subscript):
                    base = base.value
                if is_self_attr(base, 'category_list'):
                    out.append(n)
    return out


def _is_maps_of(node, whichvar=None):
    """self.lookup_chain_maps[<k>].maps  -> the subscript key node, else None"""
    if isinstance(node, ast.Subscript) and isinstance(node.slice, ast.Slice):
        node = node.value   # .maps[:]
    if isinstance(node, ast.Attribute) and node.attr == 'maps' and \
            isinstance(node.value, ast.Subscript) and \
            is_self_attr(node.value.value, 'lookup_chain_maps'):
        return node.value.slice
    return None


_COND_REBUILD = []


def _rebuild_kinds(fn, after_stmt):
    """Kinds whose .maps are assigned, after `after_stmt`, from a comprehension over
    self.category_list yielding self.d[c][kind]."""
    kinds = set()
    for st in iter_own(fn):
        if not isinstance(st, ast.Assign) or st.lineno <= after_stmt.lineno:
            continue
        if len(st.targets) != 1:
            continue
        key = _is_maps_of(st.targets[0])
        if key is None:
            continue
        v = st.value
        if isinstance(v, ast.Call) and call_name(v) == 'list' and v.args:
            v = v.args[0]
        if not isinstance(v, (ast.ListComp, ast.GeneratorExp)) or len(v.generators) != 1:
            continue
        g = v.generators[0]
        if not is_self_attr(g.iter, 'category_list') or g.ifs:
            continue
        if not isinstance(g.target, ast.Name):
            continue
        e = v.elt
        # self.d[c][kind]
        if not (isinstance(e, ast.Subscript) and isinstance(e.value, ast.Subscript)
                and is_self_attr(e.value.value, 'd')
                and isinstance(e.value.slice, ast.Name) and e.value.slice.id == g.target.id):
            continue
        if unparse(e.slice) != unparse(key):
            continue
        # the rebuild must be unconditional: no enclosing test and no earlier statement of the
        # same block chain that can leave the iteration / the function
        conditional = False
        child = st
        for p in parents(st):
            if p is fn:
                break
            if isinstance(p, (ast.If, ast.While, ast.Try, ast.With)) and not isinstance(p, ast.With):
                conditional = True
            for fld in ('body', 'orelse', 'finalbody'):
                blk = getattr(p, fld, None)
                if isinstance(blk, list) and any(x is child for x in blk):
                    for prev in blk[:[i for i, x in enumerate(blk) if x is child][0]]:
                        if any(isinstance(x, (ast.Continue, ast.Break, ast.Return))
                               for x in ast.walk(prev)):
                            conditional = True
            child = p
        if conditional:
            _COND_REBUILD.append(st)
            continue
        # which kinds does this statement cover?
        if isinstance(key, ast.Constant) and key.value in KINDS:
            kinds.add(key.value)
        elif isinstance(key, ast.Name):
            # loop variable over the literal tuple of kinds
            for p in parents(st):
                if isinstance(p, ast.For) and isinstance(p.target, ast.Name) and \
                        p.target.id == key.id and isinstance(p.iter, (ast.Tuple, ast.List)):
                    for el in p.iter.elts:
                        if isinstance(el, ast.Constant) and el.value in KINDS:
                            kinds.add(el.value)
    return kinds


def _mirror_shape(fn, mut):
    # shape A: rebuild after the change
    del _COND_REBUILD[:]
    rk = _rebuild_kinds(fn, mut)
    if _COND_REBUILD and rk != set(KINDS):
        return 'refuted', ('the chain maps are rebuilt from category_list only under a condition (%s): '
                           'when it is skipped for a kind, that kind\'s maps no longer mirror '
                           'category_list item for item, and positions computed on category_list '
                           '(extended_with, insert_before/after) address the wrong map'
                           % short(_COND_REBUILD[0], 60))
    if rk == set(KINDS):
        # self.d[category] must be stored before the rebuild reads it: look for a store to
        # self.d[...] anywhere in the function (ordering is a crash question, not an order one)
        return 'rebuild', 'all three kinds rebuilt by comprehension over self.category_list'
    lams = _local_lambdas(fn)
    call = None
    for n in ast.walk(mut):
        if isinstance(n, ast.Call) and isinstance(n.func, ast.Name) and n.func.id in lams:
            call = n
    if call is not None:
        fname = call.func.id
        ops = [_lambda_mutates_first_param(l) for l in lams[fname]]
        if any(o is None for o in ops):
            return 'unknown', 'local function %s has a body that is not list.insert/append on ' \
                              'its first parameter' % fname
        # paired calls on .maps with the same local function
        kinds = set()
        for n in iter_own(fn):
            if isinstance(n, ast.Call) and isinstance(n.func, ast.Name) and n.func.id == fname \
                    and n.args:
                key = _is_maps_of(n.args[0])
                if key is None:
                    continue
                if isinstance(key, ast.Constant) and key.value in KINDS:
                    kinds.add(key.value)
                elif isinstance(key, ast.Name):
                    for p in parents(n):
                        if isinstance(p, ast.For) and isinstance(p.target, ast.Name) and \
                                p.target.id == key.id and isinstance(p.iter, (ast.Tuple, ast.List)):
                            for el in p.iter.elts:
                                if isinstance(el, ast.Constant) and el.value in KINDS:
                                    kinds.add(el.value)
                            # the second argument must select the same kind
                            if len(n.args) > 1 and key.id not in {x.id for x in ast.walk(n.args[1])
                                                                  if isinstance(x, ast.Name)}:
                                return 'refuted', 'paired insert does not select the dict of ' \
                                                  'the same kind'
        if kinds == set(KINDS):
            return 'paired', '%s(...) applied to category_list and to the maps of %s' % (
                fname, sorted(kinds))
        return 'refuted', 'category_list changed through %s(...) but only the chain maps of %s ' \
                          'receive the same operation' % (fname, sorted(kinds))
    return 'unknown', 'mutation of category_list in a shape the rule does not model'


def _keyed_by(v, attr, param):
    """dict((x.attr, x) for x in <param>)  or {x.attr: x for x in <param>}"""
    gen = None
    if isinstance(v, ast.Call) and call_name(v) == 'dict' and len(v.args) == 1 and \
            isinstance(v.args[0], (ast.GeneratorExp, ast.ListComp)):
        gen = v.args[0]
        elt = gen.elt
        if not (isinstance(elt, ast.Tuple) and len(elt.elts) == 2):
            return None, ''
        k, val = elt.elts
    elif isinstance(v, ast.DictComp):
        gen = v
        k, val = v.key, v.value
    else:
        return None, ''
    if len(gen.generators) != 1 or not isinstance(gen.generators[0].target, ast.Name):
        return None, ''
    x = gen.generators[0].target.id
    it = gen.generators[0].iter
    ok_key = isinstance(k, ast.Attribute) and isinstance(k.value, ast.Name) and \
        k.value.id == x and k.attr == attr
    ok_val = isinstance(val, ast.Name) and val.id == x
    ok_it = isinstance(it, ast.Name) and it.id == param
    if ok_key and ok_val and ok_it and not gen.generators[0].ifs:
        return True, ''
    return False, 'per-category dict for %s is not {spec.%s: spec for spec in %s} (found %s): ' \
                  'lookups by name would miss or return the wrong spec' % (param, attr, param,
                                                                          short(v))


def _self_state_writes(fn):
    out = []
    lams = _local_lambdas(fn)
    for n in iter_own(fn):
        if isinstance(n, (ast.Assign, ast.AugAssign, ast.Delete)):
            tg = n.targets if isinstance(n, (ast.Assign, ast.Delete)) else [n.target]
            for t in tg:
                for tt in (t.elts if isinstance(t, ast.Tuple) else [t]):
                    base = tt
                    while isinstance(base, ast.Subscript):
                        base = base.value
                    if isinstance(base, ast.Attribute) and base.attr == 'maps':
                        base = base.value
                        while isinstance(base, ast.Subscript):
                            base = base.value
                    if isinstance(base, ast.Attribute) and is_self_attr(base) and \
                            base.attr in STATE_FIELDS:
                        out.append(n)
        elif isinstance(n, ast.Call):
            r = call_recv(n)
            if r is not None and call_name(n) in MUTATORS and _rooted_in_self_state(r):
                out.append(n)
            elif isinstance(n.func, ast.Name) and n.func.id in lams and n.args and \
                    _rooted_in_self_state(n.args[0]):
                out.append(n)
            elif call_name(n) == 'setattr' and n.args and isinstance(n.args[0], ast.Name) \
                    and n.args[0].id == 'self':
                out.append(n)
    return out


def _rooted_in_self_state(node):
    base = node
    while True:
        if isinstance(base, ast.Subscript):
            base = base.value
        elif isinstance(base, ast.Attribute) and not is_self_attr(base):
            base = base.value
        else:
            break
    return is_self_attr(base) and base.attr in STATE_FIELDS


def _frozen_guard_before(fn, node):
    """A top-level `if self.frozen: raise` statement precedes `node` in fn.body."""
    for st in fn.body:
        if st.lineno >= node.lineno:
            break
        if isinstance(st, ast.If) and is_self_attr(st.test, 'frozen') and st.body and \
                isinstance(st.body[0], ast.Raise) and not st.orelse:
            return True
        # the same guard moved into a helper method called as a statement: self._check_not_frozen()
        if isinstance(st, ast.Expr) and isinstance(st.value, ast.Call) and is_self_attr(st.value.func) \
                and not st.value.args and not st.value.keywords:
            cls_ = [p_ for p_ in parents(fn) if isinstance(p_, ast.ClassDef)]
            for h in (cls_[0].body if cls_ else []):
                if isinstance(h, ast.FunctionDef) and h.name == st.value.func.attr:
                    hb = [x for x in h.body if not (isinstance(x, ast.Expr) and isinstance(x.value, ast.Constant))]
                    if hb and isinstance(hb[0], ast.If) and is_self_attr(hb[0].test, 'frozen') and hb[0].body \
                            and isinstance(hb[0].body[0], ast.Raise) and not hb[0].orelse:
                        return True
    return False


def _fresh_depth(v, env):
    """How many container levels of the value of expression v are freshly
    allocated (not shared with self): 0 = alias/unknown."""
    if isinstance(v, (ast.Dict,)):
        if not v.values:
            return 9
        return 1 + min(_fresh_depth(x, env) for x in v.values)
    if isinstance(v, (ast.List, ast.Tuple, ast.Set)):
        if not v.elts:
            return 9
        return 1 + min(_fresh_depth(x, env) for x in v.elts)
    if isinstance(v, (ast.ListComp, ast.DictComp, ast.SetComp)):
        return 1
    if isinstance(v, ast.Call):
        cn = call_name(v)
        if cn in ('dict', 'list', 'set') and isinstance(v.func, ast.Name):
            if v.keywords and not v.args:
                return 1 + min(_fresh_depth(k.value, env) for k in v.keywords)
            return 1
        if cn in ('create_class',) or (isinstance(v.func, ast.Name) and v.func.id in env.get(
                '__classes__', ())):
            return 9
        if cn in ('ChainMap', 'new_child'):
            return 1
        return 0
    if isinstance(v, ast.BinOp) and isinstance(v.op, ast.Add):
        return 1
    if isinstance(v, ast.Name):
        return env.get(v.id, 0)
    if isinstance(v, ast.Constant):
        return 9
    return 0


def _check_copy_on_derive(ctx, m, name, fn):
    # (a) never write state through self
    writes = _self_state_writes(fn)
    if writes:
        for w in writes:
            ctx.refuted('M4', m, enclosing_stmt(w),
                        '%s writes to the database it derives from' % name,
                        construct='%s: %s' % (name, short(enclosing_stmt(w))))
    else:
        ctx.holds('M4', m, fn, 'no store or in-place mutation rooted at self.<state field>',
                  construct=name + ': writes through self')

    # (b) in-place mutations only on fresh containers; walk statements in order
    env = {}
    new_objs = set()
    order = sorted([n for n in iter_own(fn) if isinstance(n, ast.stmt)],
                   key=lambda n: (n.lineno, n.col_offset))
    aliased = []   # statements new_context.X = <alias of self container>
    for st in order:
        if isinstance(st, ast.Assign) and len(st.targets) == 1:
            t = st.targets[0]
            if isinstance(t, ast.Name):
                if isinstance(st.value, ast.Call) and call_name(st.value) == 'create_class':
                    new_objs.add(t.id)
                    env[t.id] = 9
                else:
                    env[t.id] = _fresh_depth(st.value, env)
                continue
            if isinstance(t, ast.Attribute) and isinstance(t.value, ast.Name) and \
                    t.value.id in new_objs:
                if t.attr in ('category_list', 'd', 'lookup_chain_maps'):
                    d = _fresh_depth(st.value, env)
                    if d == 0 or _mentions_self_state(st.value):
                        aliased.append(st)
                continue
            # subscript store X[...] = v   or  X[..][..] = v
            depth = 0
            base = t
            while isinstance(base, ast.Subscript):
                base = base.value
                depth += 1
            if depth and isinstance(base, ast.Name):
                fd = env.get(base.id, 0)
                ctx.decide('M4', fd >= depth, m, st,
                           'in-place store into a container copied to depth %d' % fd,
                           'in-place store into %s, which still shares storage with the source '
                           'database (copied to depth %d, written at depth %d): the original '
                           'database\'s answers change' % (base.id, fd, depth),
                           construct='%s: %s' % (name, short(st)))
        elif isinstance(st, ast.Expr) and isinstance(st.value, ast.Call):
            c = st.value
            r = call_recv(c)
            if r is not None and call_name(c) in MUTATORS:
                depth = 1
                base = r
                while isinstance(base, ast.Subscript):
                    base = base.value
                    depth += 1
                if isinstance(base, ast.Name) and base.id != 'self' and base.id not in new_objs:
                    fd = env.get(base.id, 0)
                    ctx.decide('M4', fd >= depth, m, st,
                               'in-place %s on a container copied to depth %d' % (call_name(c), fd),
                               'in-place %s on %s, which still shares storage with the source '
                               'database (copied to depth %d, mutated at depth %d): the original '
                               'database\'s answers change' % (call_name(c), short(r), fd, depth),
                               construct='%s: %s' % (name, short(st)))
    # (c) aliasing requires the source and the new object to be frozen
    if aliased:
        src_frozen = any(isinstance(st, ast.If) and isinstance(st.test, ast.UnaryOp)
                         and isinstance(st.test.op, ast.Not)
                         and is_self_attr(st.test.operand, 'frozen')
                         and st.body and isinstance(st.body[0], ast.Raise)
                         and st.lineno < aliased[0].lineno
                         for st in fn.body)
        rets = [n for n in iter_own(fn) if isinstance(n, ast.Return)]
        all_frozen = True
        for r in rets:
            if not (isinstance(r.value, ast.Name) and r.value.id in new_objs):
                continue
            if not _frozen_set_before(fn, r, r.value.id):
                all_frozen = False
                ctx.refuted('M4', m, r, 'returns a derived database that shares containers with '
                                        'its source without freezing it: modifying the derived '
                                        'database changes the source\'s answers',
                            construct='%s: %s (frozen flag)' % (name, short(r)))
            else:
                ctx.holds('M4', m, r, 'derived object is frozen before being returned',
                          construct='%s: %s (frozen flag)' % (name, short(r)))
        ctx.decide('M4', src_frozen, m, aliased[0],
                   'source must be frozen (`if not self.frozen: raise`) before its containers '
                   'are aliased',
                   'containers of self are aliased into the derived database although self may '
                   'still be modified later',
                   construct='%s: %s (source frozen)' % (name, short(aliased[0])))


def _mentions_self_state(v):
    for n in ast.walk(v):
        if is_self_attr(n) and n.attr in ('category_list', 'd', 'lookup_chain_maps'):
            return True
    return False


def _frozen_set_before(fn, ret, objname):
    """`objname.frozen = True` occurs earlier in the same block as `ret` or in an
    enclosing block before the statement containing it."""
    child = ret
    for p in [ret] + list(parents(ret)):
        pass
    node = ret
    while True:
        par = getattr(node, '_parent', None)
        if par is None:
            return False
        for fld in ('body', 'orelse', 'finalbody'):
            lst = getattr(par, fld, None)
            if isinstance(lst, list) and any(s is node for s in lst):
                for s in lst:
                    if s is node:
                        break
                    if isinstance(s, ast.Assign) and len(s.targets) == 1:
                        t = s.targets[0]
                        if isinstance(t, ast.Attribute) and t.attr == 'frozen' and \
                                isinstance(t.value, ast.Name) and t.value.id == objname and \
                                isinstance(s.value, ast.Constant) and s.value.value is True:
                            return True
                    if isinstance(s, ast.Expr) and isinstance(s.value, ast.Call) and \
                            call_name(s.value) == 'freeze' and \
                            unparse(call_recv(s.value)) == objname:
                        return True
        if par is fn:
            return False
        node = par


_ADD_FN = [None]


def _check_filtered(ctx, m, fn):
    loops = [n for n in iter_own(fn) if isinstance(n, ast.For) and any(
        isinstance(c_, ast.Call) and call_name(c_) == 'add_context_category' for c_ in ast.walk(n))]
    if len(loops) != 1:
        ctx.unknown('M4b', m, fn, 'no single loop re-adding the categories in filtered_context')
        return
    loop = loops[0]
    if not is_self_attr(loop.iter, 'category_list'):
        # what the loop iterates over, per structural path, with locals substituted
        pass
        try:
            its = symex.Walker(is_sink=lambda n: n is loop.iter, sink_types=(type(loop.iter),)).run(fn)
        except symex.TooManyPaths:
            its = []
        bad = None
        for cs in its:
            v = cs.sub
            src = v
            if isinstance(v, (ast.ListComp, ast.GeneratorExp)) and v.generators:
                src = v.generators[0].iter
            if not is_self_attr(src, 'category_list'):
                bad = cs
        if bad is not None or not its:
            ctx.refuted('M4b', m, loop, 'on the path [%s] the categories of the filtered database are taken in the '
                        'order of %s, not of self.category_list: the derived database reports and searches its '
                        'categories in the caller\'s order, so a name defined in two kept categories resolves '
                        'differently than in the database it came from'
                        % (' & '.join(bad.cond_src())[-80:] if bad else '', short(bad.sub, 60) if bad else short(loop.iter)),
                        construct='filtered_context: iteration order')
            return
    cat = loop.target.id if isinstance(loop.target, ast.Name) else None
    ctx.holds('M4b', m, loop.iter, 'iterates self.category_list in stored order',
              construct='filtered_context: for %s in %s' % (cat, short(loop.iter)))
    # the skip tests
    want = {'keep_categories': ast.NotIn, 'exclude_categories': ast.In}
    seen = {}
    pass
    try:
        reach = symex.Walker(is_sink=lambda c: call_name(c) == 'add_context_category').run_block(loop.body)
    except symex.TooManyPaths:
        reach = []
    for cs in reach:
        for t_, pol in cs.conds:
            for t, ap in symex._atoms(t_, pol):
                if ap or not (isinstance(t, ast.BoolOp) and isinstance(t.op, ast.And) and len(t.values) == 2
                              and isinstance(t.values[0], ast.Name) and isinstance(t.values[1], ast.Compare)):
                    continue
                pname = t.values[0].id
                cmp_ = t.values[1]
                if pname in want and len(cmp_.ops) == 1 and isinstance(cmp_.comparators[0], ast.Name) and \
                        cmp_.comparators[0].id == pname and not (isinstance(cmp_.left, ast.Name) and cmp_.left.id == cat) \
                        and ('wrong-operand', pname) not in seen:
                    seen[('wrong-operand', pname)] = cs.node
                    ctx.refuted('M4b', m, cs.node, 'the skip test for %s looks up %s, not the name of the category being '
                                'visited (%s): a category whose name differs from that value (an automatically named '
                                'one is looked up as None) can never be %s' % (
                                    pname, short(cmp_.left, 60), cat, 'excluded' if pname.startswith('exclude') else 'kept'),
                                construct='filtered_context: operand of the %s test' % pname)
                    continue
                if pname in want and len(cmp_.ops) == 1 and \
                        isinstance(cmp_.left, ast.Name) and cmp_.left.id == cat and \
                        isinstance(cmp_.comparators[0], ast.Name) and \
                        cmp_.comparators[0].id == pname and pname not in seen:
                    seen[pname] = cs.node
                    ctx.decide('M4b', isinstance(cmp_.ops[0], want[pname]), m, cs.node,
                               'skip test has the documented polarity',
                               'skip test for %s has the wrong polarity: filtering keeps/drops the '
                               'opposite categories' % pname,
                               construct='filtered_context: ' + short(t))
    # add call in the loop: appended (no placement keyword), first arg is the loop var
    adds = [c for c in ast.walk(loop) if isinstance(c, ast.Call)
            and call_name(c) == 'add_context_category']
    try:
        add_cases = symex.Walker(is_sink=lambda c_: call_name(c_) == 'add_context_category').run_block(loop.body)
    except symex.TooManyPaths:
        add_cases = []
    for c in adds:
        placement = [k.arg for k in c.keywords if k.arg in ('prepend', 'insert_before',
                                                            'insert_after')]
        # the category keeps its name; a reserved (automatically generated) name cannot be given
        # explicitly, so it is passed as None (= "name it automatically") under a startswith test.
        # Decided per path on the substituted first argument (conditional expression, if/else
        # assigning a local, or the loop variable itself).
        plain = named = auto = other = 0
        for cs in [x for x in add_cases if x.node is c]:
            a0s = cs.sub.args[0] if cs.sub.args else kwarg(cs.sub, 'category')
            for extra, v in (symex._split_ifexp(a0s) if a0s is not None else [([], None)]):
                facts = symex.facts_of(list(cs.conds) + list(extra))
                sw = [pol for (txt, pol) in facts if txt.startswith(cat + '.startswith(')]
                if isinstance(v, ast.Name) and v.id == cat and not sw:
                    plain += 1
                elif isinstance(v, ast.Name) and v.id == cat and sw == [False]:
                    named += 1
                elif isinstance(v, ast.Constant) and v.value is None and sw == [True]:
                    auto += 1
                else:
                    other += 1
        guarded = named > 0 and auto > 0 and plain == 0 and other == 0
        a0 = ast.Name(id=cat, ctx=ast.Load()) if (plain > 0 and named == auto == other == 0) else None
        first_ok = (isinstance(a0, ast.Name) and a0.id == cat) or guarded
        ctx.decide('M4b', bool(first_ok) and not placement, m, c,
                   'category re-added under its own name, appended in iteration order',
                   'filtered copy does not append each kept category under its own name in '
                   'order (placement keywords %s)' % placement,
                   construct='filtered_context: ' + short(c, 80))
        # M9: closure under derivation -- add_context_category rejects reserved names
        rejects = any(isinstance(r_, ast.Raise) and any(
            pol and 'startswith' in unparse(t2) for t2, pol in atomic_facts(r_))
            for r_ in iter_own(_ADD_FN[0])) if _ADD_FN[0] is not None else False
        if rejects:
            ctx.decide('M9', guarded, m, c,
                       'automatically named categories are re-added with an automatic name',
                       'filtered_context() re-adds every category of self.category_list by name through '
                       'add_context_category(), which raises ValueError for the reserved automatic names '
                       'that extended_with() creates: a database obtained by extension cannot be '
                       'filtered ("derived databases can themselves be filtered and extended")',
                       construct='filtered_context: reserved category names')
    if not adds:
        ctx.unknown('M4b', m, loop, 'no add_context_category call in the loop')


def _check_lookup(ctx, m, fn, kind, unk):
    pass
    in_try, in_handler = [], []
    hstmts = {}
    for t_ in iter_own(fn):
        if isinstance(t_, ast.Try):
            for h_ in t_.handlers:
                for st_ in h_.body:
                    hstmts[st_] = h_
    try:
        rcases = symex.Walker(want_returns=True, trace=True, stmt_sink=lambda s_: s_ in hstmts).run(fn)
    except symex.TooManyPaths:
        rcases = []
    via = {}
    for cs in rcases:
        if isinstance(cs.sub, ast.Constant) and cs.sub.value is None and cs.node.value is None:
            continue
        # a path belongs to the handler when one of the handler's statements was executed on it
        # (the return itself, or an assignment to the local that is returned after the try)
        hs = [hstmts[t_[0]] for t_ in cs.env.get('#trace', ()) if t_[0] in hstmts] + \
            [p for p in parents(cs.node) if isinstance(p, ast.ExceptHandler)]
        if hs:
            in_handler.append(cs)
            via[id(cs)] = hs[0]
        else:
            in_try.append(cs)
    for cs in in_try:
        r, v = cs.node, cs.sub
        if isinstance(v, ast.Subscript) and isinstance(v.value, ast.Subscript) and \
                is_self_attr(v.value.value, 'lookup_chain_maps'):
            key = v.value.slice
            ok_main = isinstance(key, ast.Constant) and key.value == kind and \
                isinstance(v.slice, ast.Name) and v.slice.id == fn.args.args[1].arg
            ctx.decide('M5', ok_main, m, r,
                       'answers from lookup_chain_maps[%r][<name parameter>]' % kind,
                       'lookup does not answer from the chain map of kind %r indexed by the '
                       'requested name' % kind,
                       construct='%s: %s' % (fn.name, short(r)))
        else:
            ctx.refuted('M5', m, r, 'lookup answers from something other than the chain map (%s)' % short(v),
                        construct='%s: %s' % (fn.name, short(r)))
    if not in_try:
        ctx.unknown('M5', m, fn, 'no direct return of the chain-map lookup found',
                    construct=fn.name + ': main return')
    for cs in in_handler:
        r = cs.node
        ok = is_self_attr(cs.sub, unk)
        h = via[id(cs)]
        hk = h.type is not None and unparse(h.type) == 'KeyError'
        ctx.decide('M5', ok and hk, m, r, 'falls back to self.%s on KeyError' % unk,
                   'fallback of %s is not self.%s under `except KeyError`' % (fn.name, unk),
                   construct='%s: except %s: %s' % (fn.name, unparse(h.type), short(r)))
    if not in_handler:
        ctx.refuted('M5', m, fn, 'no unknown-spec fallback', construct=fn.name + ': fallback')


def _collect_and_pick(ctx, m, fn):
    """second shape of test_for_specials: all matches are collected in lookup order by one
    comprehension over self.category_list, then one is picked.  True if handled."""
    comps = [c for c in ast.walk(fn) if isinstance(c, (ast.ListComp, ast.GeneratorExp))
             and c.generators and is_self_attr(c.generators[0].iter, 'category_list')]
    if len(comps) != 1:
        return False
    comp = comps[0]
    asg = getattr(comp, '_parent', None)
    while asg is not None and not isinstance(asg, ast.Assign):
        asg = getattr(asg, '_parent', None)
    if asg is None or not isinstance(asg.targets[0], ast.Name):
        return False
    lst = asg.targets[0].id
    sw = any(isinstance(c, ast.Call) and call_name(c) == 'startswith' and len(c.args) == 2
             and unparse(call_recv(c)) == fn.args.args[1].arg and unparse(c.args[1]) == fn.args.args[2].arg
             for g in comp.generators for i in g.ifs for c in ast.walk(i))
    ctx.decide('M6', sw, m, comp, 'matches collected in category order with s.startswith(chars, pos)',
               'the collected candidates are not filtered by s.startswith(chars, pos)',
               construct='test_for_specials: candidates')
    # how the winner is picked: among the longest, the FIRST in lookup order must win
    verdict, how = None, ''
    for n in ast.walk(fn):
        if isinstance(n, ast.Call) and isinstance(n.func, ast.Name) and n.func.id == 'max' and n.args \
                and unparse(n.args[0]) == lst:
            verdict, how = True, 'max() returns the first of several maximal candidates'
        if isinstance(n, ast.Call) and isinstance(n.func, ast.Name) and n.func.id == 'min' and n.args \
                and unparse(n.args[0]) == lst:
            verdict, how = False, 'min() picks a shortest match'
        if isinstance(n, ast.Call) and call_name(n) in ('sort', 'sorted') and (
                (call_recv(n) is not None and unparse(call_recv(n)) == lst) or
                (n.args and unparse(n.args[0]) == lst)):
            rev = kwarg(n, 'reverse')
            desc = isinstance(rev, ast.Constant) and rev.value is True
            # which end is taken afterwards
            idx = [x for x in ast.walk(fn) if isinstance(x, ast.Subscript) and isinstance(x.ctx, ast.Load)
                   and not isinstance(x.slice, ast.Slice) and unparse(x.value) in (lst, unparse(n))]
            takes_first = any(unparse(x.slice) == '0' for x in idx)
            takes_last = any(unparse(x.slice).replace(' ', '') in ('-1', 'len(%s)-1' % lst) for x in idx)
            if desc and takes_first:
                verdict, how = True, 'stable descending sort, first element'
            elif (not desc) and takes_last:
                verdict, how = False, ('a stable ascending sort followed by taking the LAST element picks, among '
                                       'matches of equal length, the one of the lowest-priority category')
            elif (not desc) and takes_first:
                verdict, how = False, 'ascending sort, first element: the shortest match wins'
    if verdict is None:
        ctx.unknown('M6', m, fn, 'selection among the collected matches not recognised',
                    construct='test_for_specials: selection')
    else:
        ctx.decide('M6', verdict, m, fn, 'longest match, first in lookup order among equals (%s)' % how,
                   'the winner among the collected matches is chosen wrongly: %s, so test_for_specials() '
                   'disagrees with get_specials_spec() for a specials sequence re-declared in an earlier '
                   'category' % how, construct='test_for_specials: selection')
    ctx.holds('M6', m, fn, 'no best-length variable (collect-and-pick form)',
              construct='test_for_specials: initial best length', trivial=True)
    return True


def _check_test_for_specials(ctx, m, fn):
    outer = [n for n in fn.body if isinstance(n, ast.For)]
    if len(outer) != 1 or not is_self_attr(outer[0].iter, 'category_list'):
        if _collect_and_pick(ctx, m, fn):
            return
        ctx.unknown('M6', m, fn, 'outer loop is not directly over self.category_list')
        return
    o = outer[0]
    inner = [n for n in ast.walk(o) if isinstance(n, ast.For) and n is not o]
    early = [n for n in ast.walk(o) if isinstance(n, (ast.Break, ast.Return))]
    # a `continue` only skips one candidate when its loop is the candidate loop; directly in the
    # category loop it skips a whole category
    for n in ast.walk(o):
        if isinstance(n, ast.Continue):
            lp = [p_ for p_ in parents(n) if isinstance(p_, (ast.For, ast.While))]
            if lp and lp[0] is o:
                early.append(n)
    ctx.decide('M6', not early, m, o, 'no break/return inside the scan, no category skipped',
               'the scan over categories exits early: a longer specials sequence in a later '
               'category is never considered', construct='test_for_specials: early exit')
    found = False
    if len(inner) == 1:
        il = inner[0]
        tv = il.target.elts[0] if isinstance(il.target, ast.Tuple) and il.target.elts else il.target
        var = unparse(tv)
        sname, pname = fn.args.args[1].arg, fn.args.args[2].arg
        try:
            cases = symex.Walker(want_exits=True).run_block(il.body)
        except symex.TooManyPaths:
            cases = []

        def order(t, pol):
            """(greater, smaller, polarity) of an ordering test, else None"""
            if isinstance(t, ast.Compare) and len(t.ops) == 1:
                l_, r_ = unparse(t.left), unparse(t.comparators[0])
                op = t.ops[0]
                if isinstance(op, ast.Gt):
                    return l_, r_, pol
                if isinstance(op, ast.LtE):
                    return l_, r_, not pol
                if isinstance(op, ast.Lt):
                    return r_, l_, pol
                if isinstance(op, ast.GtE):
                    return r_, l_, not pol
            return None
        lenv = 'len(%s)' % var
        swtxt = '%s.startswith(%s, %s)' % (sname, var, pname)
        bestvar = None
        for cs in cases:
            for t, pol in cs.conds:
                for a_, ap in symex._atoms(symex.expand(t, cs.env), pol):
                    o_ = order(a_, ap)
                    if o_ and lenv in (o_[0], o_[1]):
                        other = o_[1] if o_[0] == lenv else o_[0]
                        if other.isidentifier():
                            bestvar = other
        if bestvar is not None and cases:
            found = True
            n_upd, bad = 0, None
            for cs in cases:
                if cs.kind not in ('end', 'continue'):
                    continue
                atoms = [(a_, ap) for t, pol in cs.conds for a_, ap in symex._atoms(symex.expand(t, cs.env), pol)]
                longer = any(order(a_, ap) == (lenv, bestvar, True) for a_, ap in atoms)
                weak = any(order(a_, ap) == (bestvar, lenv, False) for a_, ap in atoms)    # len >= best
                starts = any(ap and unparse(a_) == swtxt for a_, ap in atoms)
                nv = cs.env.get(bestvar)
                updated = isinstance(nv, ast.AST) and unparse(nv) != bestvar
                if updated:
                    n_upd += 1
                    if not (longer and starts and unparse(symex.expand(nv, cs.env)) == lenv):
                        bad = bad or (cs, 'the best match is replaced on the path [%s] with %s = %s '
                                          '(strictly longer: %s, at least as long: %s, %s: %s)'
                                      % (' & '.join(cs.cond_src())[:160], bestvar, short(nv), longer, weak,
                                         swtxt, starts))
                elif longer and starts:
                    bad = bad or (cs, 'a strictly longer match at pos does not replace the best match on the '
                                      'path [%s]' % ' & '.join(cs.cond_src())[:160])
            ctx.decide('M6', bad is None and n_upd > 0, m, il,
                       'best match replaced exactly on the paths with len(%s) > %s and %s (%d path(s)), '
                       'best length updated to the new length' % (var, bestvar, swtxt, n_upd),
                       ('best match is not replaced exactly by strictly longer matches at pos: %s: ties no '
                        'longer go to the first category / a non-matching or shorter sequence can win'
                        % bad[1]) if bad else 'no path replaces the best match',
                       construct='test_for_specials: replacement of the best match')
    if not found:
        ctx.unknown('M6', m, o, 'length comparison not found')
    # what is returned: the best match found by the scan (None when nothing matched) and nothing else
    none_inits = {unparse(s_.targets[0]) for s_ in fn.body if isinstance(s_, ast.Assign) and len(s_.targets) == 1
                  and isinstance(s_.value, ast.Constant) and s_.value.value is None}
    for r_ in [x for x in iter_own(fn) if isinstance(x, ast.Return)]:
        v_ = r_.value
        okr = v_ is None or (isinstance(v_, ast.Constant) and v_.value is None) or (
            isinstance(v_, ast.Name) and v_.id in none_inits)
        ctx.decide('M6', okr, m, r_, 'returns the best match of the scan (None if there is none)',
                   'test_for_specials returns %s, which is not the result of the scan: a specification is reported at a '
                   'position where its characters do not stand (a zero-length specials token at every ordinary '
                   'character: the tokenizer never advances)' % short(v_, 50) if v_ is not None else '',
                   construct='test_for_specials: ' + short(r_, 50))
    # initial best length is 0 and result var returned
    z = [s for s in fn.body if isinstance(s, ast.Assign) and isinstance(s.value, ast.Constant)
         and s.value.value == 0]
    ctx.decide('M6', bool(z), m, fn, 'best length starts at 0',
               'best length does not start at 0', construct='test_for_specials: initial best length')



def _truth_of(e, truth):
    """truth value of `e` when the names in `truth` are known to be truthy / falsy (None: not known)"""
    if isinstance(e, ast.Name) and e.id in truth:
        return truth[e.id]
    if isinstance(e, ast.Constant):
        return bool(e.value)
    if isinstance(e, ast.UnaryOp) and isinstance(e.op, ast.Not):
        v = _truth_of(e.operand, truth)
        return None if v is None else not v
    if isinstance(e, ast.Compare) and len(e.ops) == 1 and isinstance(e.left, ast.Name) and e.left.id in truth and \
            isinstance(e.comparators[0], ast.Constant) and e.comparators[0].value is None and truth[e.left.id]:
        return isinstance(e.ops[0], (ast.IsNot, ast.NotEq))
    return None


def _simp_truth(e, truth):
    """`e` with `a or b`, `a and b`, `x if a else y` and `not a` decided where the truth of the operand is known"""
    class T(ast.NodeTransformer):
        def visit_BoolOp(self, n):
            self.generic_visit(n)
            vals = []
            for v in n.values:
                tv = _truth_of(v, truth)
                if isinstance(n.op, ast.Or):
                    if tv is True:
                        vals.append(v)
                        break
                    if tv is False and v is not n.values[-1]:
                        continue
                else:
                    if tv is False:
                        vals.append(v)
                        break
                    if tv is True and v is not n.values[-1]:
                        continue
                vals.append(v)
            if len(vals) == 1:
                return vals[0]
            return ast.BoolOp(op=n.op, values=vals)

        def visit_IfExp(self, n):
            self.generic_visit(n)
            tv = _truth_of(n.test, truth)
            if tv is True:
                return n.body
            if tv is False:
                return n.orelse
            return n
    return T().visit(symex.clone(e))


def _fold_int(e):
    """`x + 0` / `0 + x` / `x - 0` -> x (what is left of `i + (1 if a else 0)` once the option is known)"""
    class T(ast.NodeTransformer):
        def visit_BinOp(self, n):
            self.generic_visit(n)
            z = lambda q: isinstance(q, ast.Constant) and q.value == 0 and not isinstance(q.value, bool)
            if isinstance(n.op, (ast.Add, ast.Sub)) and z(n.right):
                return n.left
            if isinstance(n.op, ast.Add) and z(n.left):
                return n.right
            return n
    return T().visit(e)


_MODFUNCS = [{}]


def _kind_units(fn):
    """Yield (node, label) units for the kind-coherence rule."""
    def expr_units(e):
        # split dict literals and calls with kind-named keywords into entries
        if isinstance(e, ast.Dict) and e.keys and all(
                isinstance(k, ast.Constant) and k.value in KINDS for k in e.keys):
            for k, v in zip(e.keys, e.values):
                yield ast.Tuple(elts=[k, v], ctx=ast.Load()), 'entry'
            return
        if isinstance(e, ast.Call) and any(k.arg in KINDS for k in e.keywords):
            for a in e.args:
                for u in expr_units(a):
                    yield u
            for k in e.keywords:
                yield k, 'entry'
            yield e.func, 'entry'
            return
        if isinstance(e, (ast.Tuple, ast.List)) and \
                {x.value for x in e.elts if isinstance(x, ast.Constant)} >= set(KINDS):
            return
        if isinstance(e, (ast.DictComp, ast.ListComp, ast.GeneratorExp, ast.SetComp)) and len(e.generators) == 1 and \
                isinstance(e.generators[0].iter, (ast.Tuple, ast.List)) and \
                {x.value for x in e.generators[0].iter.elts if isinstance(x, ast.Constant)} >= set(KINDS):
            # a comprehension over all the kinds: its element is generic in the kind variable
            elt = ast.Tuple(elts=[e.key, e.value], ctx=ast.Load()) if isinstance(e, ast.DictComp) else e.elt
            yield elt, 'entry'
            return
        if isinstance(e, ast.Call) and isinstance(e.func, (ast.Name, ast.Attribute)) and \
                unparse(e.func) in _MODFUNCS[0] and sum(1 for a in e.args if kinds_in(a)) >= 2:
            # positional hand-over of several kind-named lists to a module-level helper or a method
            # of the class: each argument is paired with the parameter it binds to
            hp = [a.arg for a in _MODFUNCS[0][unparse(e.func)].args.args]
            if isinstance(e.func, ast.Attribute):
                hp = hp[1:]
            for a, pn in zip(e.args, hp):
                yield ast.Tuple(elts=[a, ast.Name(id=pn, ctx=ast.Load())], ctx=ast.Load()), 'entry'
            for k in e.keywords:
                yield k, 'entry'
            return
        yield e, 'stmt'

    for st in iter_own(fn):
        if not isinstance(st, ast.stmt):
            continue
        if isinstance(st, (ast.If, ast.While)):
            # the operands of a conjunction / disjunction are separate tests (an emptiness test of
            # all three lists mentions each kind once and mixes nothing)
            def _ops(t_):
                if isinstance(t_, ast.BoolOp):
                    for v_ in t_.values:
                        for o_ in _ops(v_):
                            yield o_
                elif isinstance(t_, ast.UnaryOp) and isinstance(t_.op, ast.Not):
                    for o_ in _ops(t_.operand):
                        yield o_
                else:
                    yield t_
            for o_ in _ops(st.test):
                yield o_, 'stmt'
        elif isinstance(st, ast.For):
            if isinstance(st.iter, (ast.Tuple, ast.List)):
                continue
            yield ast.Tuple(elts=[st.target, st.iter], ctx=ast.Load()), 'stmt'
        elif isinstance(st, ast.Assign):
            v = st.value
            us = list(expr_units(v))
            if len(us) == 1 and us[0][0] is v:
                yield st, 'stmt'
            else:
                for u in us:
                    yield u
                for t in st.targets:
                    yield t, 'entry'
        elif isinstance(st, ast.Expr):
            if isinstance(st.value, ast.Constant):
                continue
            if isinstance(st.value, ast.Call) and call_name(st.value) in ('debug', 'warning',
                                                                         'info'):
                continue
            us = list(expr_units(st.value))
            for u in us:
                yield (st if u[0] is st.value else u[0]), u[1]
        elif isinstance(st, ast.Return) and st.value is not None:
            us = list(expr_units(st.value))
            if len(us) == 1 and us[0][0] is st.value:
                yield st, 'stmt'
            else:
                for u in us:
                    yield u
        elif isinstance(st, ast.Raise):
            continue
        elif isinstance(st, (ast.AugAssign,)):
            yield st, 'stmt'



class _Src(Exception):
    pass


def merge_precedence(ctx, rule, m, fn):
    """M11: where extended_with() merges new definitions into an existing (automatically named)
    category, the new definition of a name wins.  The statements of the merge branch are
    interpreted abstractly: a dictionary value is the ordered list of the sources it was filled
    from (dict(a) -> [a]; d.update(b) -> d + [b]; dict(a, **b) / {**a, **b} -> [a, b]; a local
    helper is interpreted on its arguments); for every kind the LAST source must be the new
    definitions and an earlier one the old category."""
    branch = None
    for i in iter_own(fn):
        if isinstance(i, ast.If) and any(isinstance(x, ast.Call) and call_name(x) == 'startswith' for x in ast.walk(i.test)) \
                and any(isinstance(r, ast.Return) for r in i.body):
            branch = i
            break
    if branch is None:
        ctx.unknown(rule, m, fn, 'merge branch of extended_with not found', construct='extended_with: merge precedence')
        return
    helpers = {}
    for st in ast.walk(fn):
        if isinstance(st, ast.FunctionDef) and st is not fn:
            helpers[st.name] = st
    for q, h in m.functions.items():
        if '.' not in q:
            helpers.setdefault(q, h)
    env = {}

    def srcs(e, loc):
        """ordered sources of a dict-valued expression"""
        if isinstance(e, ast.Name) and e.id in loc:
            v = loc[e.id]
            if isinstance(v, list):
                return list(v)
            raise _Src('name %s holds a table of tables' % e.id)
        if isinstance(e, ast.Subscript) and isinstance(e.value, ast.Name) and e.value.id in loc and \
                isinstance(loc[e.value.id], dict) and isinstance(e.slice, ast.Constant):
            return list(loc[e.value.id].get(e.slice.value, [unparse(e)]))
        if isinstance(e, ast.Call) and isinstance(e.func, ast.Name) and e.func.id == 'dict':
            out = []
            if e.args:
                a0 = e.args[0]
                if isinstance(a0, ast.Call) and call_name(a0) == 'items' and call_recv(a0) is not None:
                    a0 = call_recv(a0)
                out += srcs(a0, loc)
            for k in e.keywords:
                if k.arg is None:
                    out += srcs(k.value, loc)
                else:
                    raise _Src('dict() with named entries used as a flat dictionary')
            return out
        if isinstance(e, ast.Dict) and e.keys and all(k is None for k in e.keys):
            out = []
            for v in e.values:
                out += srcs(v, loc)
            return out
        if isinstance(e, ast.Call) and isinstance(e.func, ast.Name) and e.func.id in helpers and not e.keywords:
            h = helpers[e.func.id]
            hp = [a.arg for a in h.args.args]
            if len(hp) != len(e.args):
                raise _Src('helper arity')
            hloc = dict(zip(hp, [srcs(a, loc) for a in e.args]))
            for st in h.body:
                r = step(st, hloc)
                if r is not None:
                    return r
            raise _Src('helper %s returns nothing' % h.name)
        if isinstance(e, ast.Call) and call_name(e) == 'copy' and call_recv(e) is not None and not e.args:
            return srcs(call_recv(e), loc)
        return [unparse(e)]

    def step(st, loc):
        if isinstance(st, ast.Expr) and isinstance(st.value, ast.Constant):
            return None
        if isinstance(st, ast.Expr) and isinstance(st.value, ast.Call) and call_name(st.value) in ('debug', 'info', 'warning'):
            return None
        if isinstance(st, ast.FunctionDef):
            return None
        if isinstance(st, ast.Return):
            return srcs(st.value, loc) if st.value is not None else []
        if isinstance(st, ast.Assign) and len(st.targets) == 1:
            t, v = st.targets[0], st.value
            tabl = None
            if isinstance(v, ast.Call) and isinstance(v.func, ast.Name) and v.func.id == 'dict' and not v.args and \
                    v.keywords and all(k.arg in KINDS for k in v.keywords):
                tabl = dict((k.arg, srcs(k.value, loc)) for k in v.keywords)
            elif isinstance(v, ast.Dict) and v.keys and all(isinstance(k, ast.Constant) and k.value in KINDS for k in v.keys):
                tabl = dict((k.value, srcs(x, loc)) for k, x in zip(v.keys, v.values))
            if isinstance(t, ast.Name):
                if tabl is not None:
                    loc[t.id] = tabl
                elif isinstance(v, ast.Subscript) and not (isinstance(v.value, ast.Name) and v.value.id in loc):
                    loc[t.id] = {}            # a table of tables taken from elsewhere (dd[cat]): entries by text
                    loc[t.id + '#text'] = unparse(v)
                else:
                    try:
                        loc[t.id] = srcs(v, loc)
                    except _Src:
                        loc.pop(t.id, None)
                return None
            if isinstance(t, ast.Subscript) and isinstance(t.value, ast.Name) and isinstance(loc.get(t.value.id), dict) \
                    and isinstance(t.slice, ast.Constant):
                loc[t.value.id][t.slice.value] = srcs(v, loc)
                return None
            return None
        if isinstance(st, ast.Expr) and isinstance(st.value, ast.Call) and call_name(st.value) == 'update':
            r = call_recv(st.value)
            if isinstance(r, ast.Name) and isinstance(loc.get(r.id), list) and st.value.args:
                loc[r.id] = loc[r.id] + srcs(st.value.args[0], loc)
                return None
            if isinstance(r, ast.Subscript) and isinstance(r.value, ast.Name) and isinstance(loc.get(r.value.id), dict) \
                    and isinstance(r.slice, ast.Constant) and st.value.args:
                cur = loc[r.value.id].get(r.slice.value, [unparse(r)])
                loc[r.value.id][r.slice.value] = cur + srcs(st.value.args[0], loc)
                return None
            return None
        return None

    # the table that ends up as the category's definitions: the value stored into new_context.d's entry
    try:
        for st in branch.body:
            step(st, env)
    except _Src as e:
        ctx.unknown(rule, m, branch, 'merge not interpretable: %s' % e, construct='extended_with: merge precedence')
        return
    merged = [k for k, v in env.items() if isinstance(v, dict) and set(v) >= set(KINDS)]
    if not merged:
        ctx.unknown(rule, m, branch, 'merged category table not found', construct='extended_with: merge precedence')
        return
    tab = env[merged[-1]]
    for kind in sorted(KINDS):
        order = tab[kind]
        new_last = bool(order) and 'new_category_dicts' in order[-1]
        has_old = any('new_category_dicts' not in o for o in order[:-1])
        ctx.decide(rule, new_last and has_old, m, branch,
                   '%s: old definitions first, new definitions last (%s)' % (kind, ' then '.join(order)),
                   'extended_with() builds the merged %s of the automatically named category from %s: on a name clash '
                   'the definition applied LAST wins, so the earlier definition survives a re-declaration (a construct '
                   're-declared as discarded still prints; lookups answer the old specification)'
                   % (kind, ' then '.join(order) or 'nothing'), construct='extended_with: merge precedence of ' + kind)
